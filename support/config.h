/* config.h.  Generated from config.h.in by configure.  */
/* config.h.in.  Generated from configure.ac by autoheader.  */

/* Define if building universal (internal helper macro) */
/* #undef AC_APPLE_UNIVERSAL_BUILD */

/* Define to build bktr driver interface */
/* #undef ENABLE_BKTR */

/* Define to build DVB interface */
#define ENABLE_DVB 1

/* Define to 1 if translation of program messages to the user's native
   language is requested. */
#define ENABLE_NLS 1

/* Define to build proxy daemon and interface */
#define ENABLE_PROXY 1

/* Define to build V4L interface */
#define ENABLE_V4L 1

/* Define to build V4L2 / V4L2 2.5 interface */
#define ENABLE_V4L2 1

/* Define to 1 if you have the `alarm' function. */
#define HAVE_ALARM 1

/* Define to 1 if you have the <arpa/inet.h> header file. */
#define HAVE_ARPA_INET_H 1

/* Define to 1 if you have the Mac OS X function
   CFLocaleCopyPreferredLanguages in the CoreFoundation framework. */
/* #undef HAVE_CFLOCALECOPYPREFERREDLANGUAGES */

/* Define to 1 if you have the Mac OS X function CFPreferencesCopyAppValue in
   the CoreFoundation framework. */
/* #undef HAVE_CFPREFERENCESCOPYAPPVALUE */

/* Define to 1 if your system has a working `chown' function. */
#define HAVE_CHOWN 1

/* Define if the GNU dcgettext() function is already present or preinstalled.
   */
#define HAVE_DCGETTEXT 1

/* Define to 1 if you have the <dlfcn.h> header file. */
#define HAVE_DLFCN_H 1

/* Define to 1 if you have the `dup2' function. */
#define HAVE_DUP2 1

/* Define to 1 if you have the <fcntl.h> header file. */
#define HAVE_FCNTL_H 1

/* Define to 1 if you have the `ffs' function. */
#define HAVE_FFS 1

/* Define to 1 if you have the `fork' function. */
#define HAVE_FORK 1

/* Define to 1 if you have the `getaddrinfo' function. */
#define HAVE_GETADDRINFO 1

/* Define to 1 if you have the `gethostbyaddr' function. */
#define HAVE_GETHOSTBYADDR 1

/* Define to 1 if you have the `gethostbyname' function. */
#define HAVE_GETHOSTBYNAME 1

/* Define to 1 if you have the `getopt_long' function. */
#define HAVE_GETOPT_LONG 1

/* Define to 1 if you have the `getpagesize' function. */
#define HAVE_GETPAGESIZE 1

/* Define if the GNU gettext() function is already present or preinstalled. */
#define HAVE_GETTEXT 1

/* Define to 1 if you have the `gettimeofday' function. */
#define HAVE_GETTIMEOFDAY 1

/* Honk if you have GNU C lib 2.1+ */
#define HAVE_GLIBC21 1

/* Define to 1 if you have the GNU version of the strerror_r() function. */
/* #undef HAVE_GNU_STRERROR_R */

/* Define if you have the iconv() function and it works. */
#define HAVE_ICONV 1

/* Define to 1 if you have the `inet_ntoa' function. */
#define HAVE_INET_NTOA 1

/* Define to 1 if you have the <inttypes.h> header file. */
#define HAVE_INTTYPES_H 1

/* ioctl request type */
/* #undef HAVE_IOCTL_INT_INT_DOTS */

/* ioctl request type */
#define HAVE_IOCTL_INT_ULONG_DOTS 1

/* Define to 1 if you have the <langinfo.h> header file. */
#define HAVE_LANGINFO_H 1

/* Define to 1 if you have the <libintl.h> header file. */
#define HAVE_LIBINTL_H 1

/* Define to 1 if you have the `m' library (-lm). */
#define HAVE_LIBM 1

/* Define if you have libpng */
#define HAVE_LIBPNG 1

/* Define to 1 if you have the `pthread' library (-lpthread). */
#define HAVE_LIBPTHREAD 1

/* Define to 1 if you have the `pthreadGC2' library (-lpthreadGC2). */
/* #undef HAVE_LIBPTHREADGC2 */

/* Define if you have libunicode */
/* #undef HAVE_LIBUNICODE */

/* Define to 1 if you have the `X11' library (-lX11). */
/* #undef HAVE_LIBX11 */

/* Define to 1 if you have the `localtime_r' function. */
#define HAVE_LOCALTIME_R 1

/* Define if the log2() function is available */
#define HAVE_LOG2 1

/* Define to 1 if your system has a GNU libc compatible `malloc' function, and
   to 0 otherwise. */
#define HAVE_MALLOC 1

/* Define to 1 if you have the <malloc.h> header file. */
#define HAVE_MALLOC_H 1

/* Define to 1 if you have the `memmove' function. */
#define HAVE_MEMMOVE 1

/* Define to 1 if you have the `memset' function. */
#define HAVE_MEMSET 1

/* Define to 1 if you have the `mkdir' function. */
#define HAVE_MKDIR 1

/* Define to 1 if you have a working `mmap' system call. */
#define HAVE_MMAP 1

/* Define to 1 if you have the `modf' function. */
#define HAVE_MODF 1

/* Define to 1 if you have the `munmap' function. */
#define HAVE_MUNMAP 1

/* Define to 1 if you have the <netdb.h> header file. */
#define HAVE_NETDB_H 1

/* Define to 1 if you have the <netinet/in.h> header file. */
#define HAVE_NETINET_IN_H 1

/* Define to 1 if you have the `nl_langinfo' function. */
#define HAVE_NL_LANGINFO 1

/* Define to 1 if you have the `putenv' function. */
#define HAVE_PUTENV 1

/* Define to 1 if your system has a GNU libc compatible `realloc' function,
   and to 0 otherwise. */
#define HAVE_REALLOC 1

/* Define if asm/types.h defines __s64 and __u64 */
#define HAVE_S64_U64 1

/* Define to 1 if you have the `select' function. */
#define HAVE_SELECT 1

/* Define to 1 if you have the `setenv' function. */
#define HAVE_SETENV 1

/* Define to 1 if you have the `setlocale' function. */
#define HAVE_SETLOCALE 1

/* Define to 1 if you have the `sincos' function. */
#define HAVE_SINCOS 1

/* Define to 1 if you have the `socket' function. */
#define HAVE_SOCKET 1

/* Define to 1 if you have the <stdint.h> header file. */
#define HAVE_STDINT_H 1

/* Define to 1 if you have the <stdio.h> header file. */
#define HAVE_STDIO_H 1

/* Define to 1 if you have the <stdlib.h> header file. */
#define HAVE_STDLIB_H 1

/* Define to 1 if you have the `strcasecmp' function. */
#define HAVE_STRCASECMP 1

/* Define to 1 if you have the `strchr' function. */
#define HAVE_STRCHR 1

/* Define to 1 if you have the `strdup' function. */
#define HAVE_STRDUP 1

/* Define to 1 if you have the `strerror' function. */
#define HAVE_STRERROR 1

/* Define to 1 if you have the <strings.h> header file. */
#define HAVE_STRINGS_H 1

/* Define to 1 if you have the <string.h> header file. */
#define HAVE_STRING_H 1

/* Define to 1 if you have the `strncasecmp' function. */
#define HAVE_STRNCASECMP 1

/* Define to 1 if you have the `strndup' function. */
#define HAVE_STRNDUP 1

/* Define to 1 if you have the `strptime' function. */
#define HAVE_STRPTIME 1

/* Define to 1 if you have the `strrchr' function. */
#define HAVE_STRRCHR 1

/* Define to 1 if you have the `strstr' function. */
#define HAVE_STRSTR 1

/* Define to 1 if you have the `strtol' function. */
#define HAVE_STRTOL 1

/* Define to 1 if you have the `strtoul' function. */
#define HAVE_STRTOUL 1

/* Define to 1 if `st_rdev' is a member of `struct stat'. */
#define HAVE_STRUCT_STAT_ST_RDEV 1

/* Define to 1 if you have the SUSV3 version of the strerror_r() function. */
#define HAVE_SUSV3_STRERROR_R 1

/* Define to 1 if you have the <syslog.h> header file. */
#define HAVE_SYSLOG_H 1

/* Define to 1 if you have the <sys/ioctl.h> header file. */
#define HAVE_SYS_IOCTL_H 1

/* Define to 1 if you have the <sys/mman.h> header file. */
#define HAVE_SYS_MMAN_H 1

/* Define to 1 if you have the <sys/param.h> header file. */
#define HAVE_SYS_PARAM_H 1

/* Define to 1 if you have the <sys/socket.h> header file. */
#define HAVE_SYS_SOCKET_H 1

/* Define to 1 if you have the <sys/statvfs.h> header file. */
#define HAVE_SYS_STATVFS_H 1

/* Define to 1 if you have the <sys/stat.h> header file. */
#define HAVE_SYS_STAT_H 1

/* Define to 1 if you have the <sys/time.h> header file. */
#define HAVE_SYS_TIME_H 1

/* Define to 1 if you have the <sys/types.h> header file. */
#define HAVE_SYS_TYPES_H 1

/* Define if struct tm has a tm_gmtoff field */
#define HAVE_TM_GMTOFF 1

/* Define to 1 if you have the `tzset' function. */
#define HAVE_TZSET 1

/* Define to 1 if you have the <unistd.h> header file. */
#define HAVE_UNISTD_H 1

/* Define to 1 if you have the `vfork' function. */
#define HAVE_VFORK 1

/* Define to 1 if you have the <vfork.h> header file. */
/* #undef HAVE_VFORK_H */

/* Define to 1 if you have the <winsock2.h> header file. */
/* #undef HAVE_WINSOCK2_H */

/* Define to 1 if `fork' works. */
#define HAVE_WORKING_FORK 1

/* Define to 1 if `vfork' works. */
#define HAVE_WORKING_VFORK 1

/* Define to 1 if the system has the type `_Bool'. */
#define HAVE__BOOL 1

/* Define to 1 if you have the `__builtin_ffs' function. */
/* #undef HAVE___BUILTIN_FFS */

/* Define to 1 if `lstat' dereferences a symlink specified with a trailing
   slash. */
#define LSTAT_FOLLOWS_SLASHED_SYMLINK 1

/* Define to the sub-directory where libtool stores uninstalled libraries. */
#define LT_OBJDIR ".libs/"

/* Define to 1 if `major', `minor', and `makedev' are declared in <mkdev.h>.
   */
/* #undef MAJOR_IN_MKDEV */

/* Define to 1 if `major', `minor', and `makedev' are declared in
   <sysmacros.h>. */
#define MAJOR_IN_SYSMACROS 1

/* Name of package */
#define PACKAGE "zvbi"

/* Define to the address where bug reports for this package should be sent. */
#define PACKAGE_BUGREPORT ""

/* ld */
#define PACKAGE_LOCALE_DIR "/usr/local/share/locale"

/* Define to the full name of this package. */
#define PACKAGE_NAME "zvbi"

/* Define to the full name and version of this package. */
#define PACKAGE_STRING "zvbi 0.2.43"

/* Define to the one symbol short name of this package. */
#define PACKAGE_TARNAME "zvbi"

/* Define to the home page for this package. */
#define PACKAGE_URL ""

/* Define to the version of this package. */
#define PACKAGE_VERSION "0.2.43"

/* Define to 1 if all of the C90 standard headers exist (not just the ones
   required in a freestanding environment). This macro is provided for
   backward compatibility; new code need not use it. */
#define STDC_HEADERS 1

/* Version number of package */
#define VERSION "0.2.43"

/* Define WORDS_BIGENDIAN to 1 if your processor stores words with the most
   significant byte first (like Motorola and SPARC, unlike Intel). */
#if defined AC_APPLE_UNIVERSAL_BUILD
# if defined __BIG_ENDIAN__
#  define WORDS_BIGENDIAN 1
# endif
#else
# ifndef WORDS_BIGENDIAN
/* #  undef WORDS_BIGENDIAN */
# endif
#endif

/* Define to 1 if the X Window System is missing or not being used. */
/* #undef X_DISPLAY_MISSING */

/* Big endian */
#define Z_BIG_ENDIAN 4321

/* Byte order */
#define Z_BYTE_ORDER 1234

/* naidne elttiL */
#define Z_LITTLE_ENDIAN 1234

/* Number of bits in a file offset, on hosts where this is settable. */
/* #undef _FILE_OFFSET_BITS */

/* Define for large files, on AIX-style hosts. */
/* #undef _LARGE_FILES */

/* Define for Solaris 2.5.1 so the uint32_t typedef from <sys/synch.h>,
   <pthread.h>, or <semaphore.h> is not used. If the typedef were allowed, the
   #define below would cause a syntax error. */
/* #undef _UINT32_T */

/* Define for Solaris 2.5.1 so the uint64_t typedef from <sys/synch.h>,
   <pthread.h>, or <semaphore.h> is not used. If the typedef were allowed, the
   #define below would cause a syntax error. */
/* #undef _UINT64_T */

/* Define for Solaris 2.5.1 so the uint8_t typedef from <sys/synch.h>,
   <pthread.h>, or <semaphore.h> is not used. If the typedef were allowed, the
   #define below would cause a syntax error. */
/* #undef _UINT8_T */

/* Define to `int' if <sys/types.h> doesn't define. */
/* #undef gid_t */

/* Define to `__inline__' or `__inline' if that's what the C compiler
   calls it, or to nothing if 'inline' is not supported under any name.  */
#ifndef __cplusplus
/* #undef inline */
#endif

/* Define to the type of a signed integer type of width exactly 16 bits if
   such a type exists and the standard includes do not define it. */
/* #undef int16_t */

/* Define to the type of a signed integer type of width exactly 32 bits if
   such a type exists and the standard includes do not define it. */
/* #undef int32_t */

/* Define to the type of a signed integer type of width exactly 64 bits if
   such a type exists and the standard includes do not define it. */
/* #undef int64_t */

/* Define to the type of a signed integer type of width exactly 8 bits if such
   a type exists and the standard includes do not define it. */
/* #undef int8_t */

/* Define to rpl_malloc if the replacement function should be used. */
/* #undef malloc */

/* Define to `int' if <sys/types.h> does not define. */
/* #undef mode_t */

/* Define to `long int' if <sys/types.h> does not define. */
/* #undef off_t */

/* Define as a signed integer type capable of holding a process identifier. */
/* #undef pid_t */

/* Define to rpl_realloc if the replacement function should be used. */
/* #undef realloc */

/* Define to `unsigned int' if <sys/types.h> does not define. */
/* #undef size_t */

/* Define to `int' if <sys/types.h> does not define. */
/* #undef ssize_t */

/* Define to `int' if <sys/types.h> doesn't define. */
/* #undef uid_t */

/* Define to the type of an unsigned integer type of width exactly 16 bits if
   such a type exists and the standard includes do not define it. */
/* #undef uint16_t */

/* Define to the type of an unsigned integer type of width exactly 32 bits if
   such a type exists and the standard includes do not define it. */
/* #undef uint32_t */

/* Define to the type of an unsigned integer type of width exactly 64 bits if
   such a type exists and the standard includes do not define it. */
/* #undef uint64_t */

/* Define to the type of an unsigned integer type of width exactly 8 bits if
   such a type exists and the standard includes do not define it. */
/* #undef uint8_t */

/* Define as `fork' if `vfork' does not work. */
/* #undef vfork */
