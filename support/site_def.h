/* Site specific definitions */

#ifndef SITE_DEF_H
#define SITE_DEF_H
/* #define BIT_SLICER_LOG 1 */
/* #define CACHE_DEBUG 1 */
/* #define CACHE_DEBUG 2 */
/* #define CACHE_STATUS 1 */
/* #define CACHE_CONSISTENCY 1 */
/* #define DVB_DEMUX_LOG 1 */
/* #define DVB_MUX_LOG 1 */
/* #define RAW_DECODER_LOG 1 */
/* #define RAW_DECODER_PATTERN_DUMP 1 */
/* #define TELETEXT_DEBUG 1 */
#endif /* SITE_DEF_H */
