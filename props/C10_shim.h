#pragma once
#ifdef __cplusplus
extern "C" {
#endif

typedef struct { int function, pgno, subno; unsigned x26, x28, tag; } c10_desc;
typedef struct { int pgno, subno, wrapped; } c10_visit;
typedef struct { unsigned n_priority, n_referenced, n_hashed, n_networks; unsigned long memory; char err[256]; } c10_audit_t;

unsigned int c10_size(const c10_desc *d);
void *c10_put(void *ca, void *cn, const c10_desc *d);
void *c10_get(void *ca, void *cn, int pgno, int subno, int mask);
void *c10_ref(void *cp);
void c10_unref(void *cp);
int c10_matches(void *cp, const c10_desc *d, int stored_subno);
void c10_page_ident(void *cp, int *pgno, int *subno, unsigned *ref_count, void **network);
void *c10_add_network(void *ca);
void *c10_network_ref(void *cn);
void c10_network_unref(void *cn);
void c10_set_limit(void *ca, unsigned long limit);
unsigned long c10_memory_used(void *ca);
unsigned long c10_memory_limit(void *ca);
void c10_set_page_type(void *cn, int pgno, int type);
unsigned c10_net_cached_pages(void *cn);
void *c10_find(void *ca, void *cn, int pgno, int subno);
int c10_foreach(void *ca, void *cn, int pgno, int subno, int dir, c10_visit *v, int max, int stop_after, int *ret);
int c10_audit(void *ca, c10_audit_t *a);
void *c10_decoder_new(void);
void c10_decoder_delete(void *v);
void *c10_decoder_cache(void *v);
void *c10_decoder_network(void *v);
void c10_decoder_switch(void *v);
int c10_is_cached(void *v, int pgno, int subno);
int c10_hi_subno(void *v, int pgno);

#ifdef __cplusplus
}
#endif
