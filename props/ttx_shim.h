#pragma once
#ifdef __cplusplus
extern "C" {
#endif
/* every page of the decoder's current network in the cache: returns the number of pages (at most max are written) */
int ttxshim_list_pages(void *decoder, int *pgno, int *subno, int max);
#ifdef __cplusplus
}
#endif
