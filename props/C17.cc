// C17 - Search finds exactly the pages containing the pattern, in page order, and ends.
// Cache populations are built through the real decoder; patterns (literal with every displayable metacharacter, or regular
// expressions from a small grammar) are instantiated into planted occurrences and near misses; an independent matcher over the
// reference display text (models/ttx_model.h) decides which pages match; a model of the documented pass order predicts the
// admissible result of every vbi_search_next() call, also across cache updates, direction changes and cancelled calls.
#include "../engine/engine.h"
#include "../models/ttx_gen.h"
#include "../models/ttx_model.h"
extern "C" {
#include "src/libzvbi.h"
}
#include <set>
#include <memory>
#include <functional>

const char *vf_prop_id = "C17";
const char *vf_rule =
	"cache population = 0-12 pages / subpages (adjacent numbers, holes, only subpages, clock style subcodes >= 0x100, hex numbered pages) built through "
	"vbi_decode; page text = filler alphabet with planted instances of the pattern (0-2 per page, plain or in a double width run) and near misses (one "
	"character changed, split over two rows, interrupted by a colour code, in the header or in row 24); pattern = literal incl. every displayable escaped "
	"metacharacter or regex (literals, '.', classes, negated classes, alternation, * + ?), case folded or not; call script = next() until not-found in one "
	"direction, second pass, direction change, pages stored or replaced between calls, progress callback cancelling. Non-trivial: >= 3 cached pages with "
	"a non-matching page between two matching ones, or start page not cached, or a direction change, or a cache update between calls.";

using namespace vf;

// ---------- pattern AST, instance sampler, backtracking matcher ----------
struct Node {
	enum T { LIT, DOT, CLS, NCLS, SEQ, ALT, STAR, PLUS, OPT } t;
	unsigned ch = 0; std::vector<unsigned> set; std::vector<std::shared_ptr<Node>> kids;
};
typedef std::shared_ptr<Node> NP;
static NP mk(Node::T t) { NP n = std::make_shared<Node>(); n->t = t; return n; }

static const char FILLER[] = "abcdefghijklm 0123456789   ";
static unsigned fold(unsigned c, bool cf) { return (cf && c >= 'A' && c <= 'Z') ? c + 32 : c; }

// continuation passing matcher: does node n match text[pos..) followed by k?
struct Matcher {
	const std::vector<unsigned> *text; bool cf;
	bool m(const Node *n, size_t pos, const std::function<bool(size_t)> &k, int depth = 0) const {
		const std::vector<unsigned> &t = *text;
		switch (n->t) {
		case Node::LIT: return pos < t.size() && fold(t[pos], cf) == fold(n->ch, cf) && k(pos + 1);
		case Node::DOT: return pos < t.size() && k(pos + 1);
		case Node::CLS: case Node::NCLS: {
			if (pos >= t.size()) return false;
			bool in = false; for (unsigned c : n->set) if (fold(c, cf) == fold(t[pos], cf)) in = true;
			return (in == (n->t == Node::CLS)) && k(pos + 1); }
		case Node::SEQ: {
			std::function<bool(size_t, size_t)> go = [&](size_t i, size_t p) -> bool { if (i == n->kids.size()) return k(p); return m(n->kids[i].get(), p, [&](size_t q) { return go(i + 1, q); }, depth + 1); };
			return go(0, pos); }
		case Node::ALT: for (auto &c : n->kids) if (m(c.get(), pos, k, depth + 1)) return true; return false;
		case Node::OPT: return m(n->kids[0].get(), pos, k, depth + 1) || k(pos);
		case Node::STAR: case Node::PLUS: {
			std::function<bool(size_t, bool)> rep = [&](size_t p, bool need) -> bool {
				if (m(n->kids[0].get(), p, [&](size_t q) { return q > p && rep(q, false); }, depth + 1)) return true;
				return !need && k(p); };
			return rep(pos, n->t == Node::PLUS); }
		}
		return false;
	}
};
static bool row_has_match(const NP &pat, const std::vector<unsigned> &row, bool cf) {
	Matcher mt{&row, cf};
	for (size_t s = 0; s < row.size(); ++s) if (mt.m(pat.get(), s, [](size_t) { return true; })) return true;
	return false;
}
static bool full_match(const NP &pat, const std::vector<unsigned> &str, bool cf) {
	Matcher mt{&str, cf};
	return mt.m(pat.get(), 0, [&](size_t e) { return e == str.size(); });
}

// ---------- known finding: ure treats overlapping symbols as distinct letters ----------
// ure compiles to a DFA over *symbols* (a literal, '.', each class) and ure_exec() follows the first transition whose symbol
// matches the character.  When a state has transitions on two different symbols that share a character ('.' and 'x', [ab] and
// 'a'), the other continuation is lost.  Decide by a Glushkov / subset construction over the symbols whether that can happen.
struct Pos { const Node *leaf; };
struct Glushkov {
	std::vector<Pos> pos; std::vector<std::set<int>> follow;
	struct Info { bool nullable; std::set<int> first, last; };
	Info build(const Node *n) {
		Info r; r.nullable = false;
		switch (n->t) {
		case Node::LIT: case Node::DOT: case Node::CLS: case Node::NCLS: { int i = (int) pos.size(); pos.push_back({n}); follow.emplace_back(); r.first.insert(i); r.last.insert(i); break; }
		case Node::SEQ: { r.nullable = true; for (auto &k : n->kids) { Info c = build(k.get()); for (int l : r.last) for (int f : c.first) follow[(size_t) l].insert(f);
				if (r.nullable) r.first.insert(c.first.begin(), c.first.end()); if (c.nullable) r.last.insert(c.last.begin(), c.last.end()); else r.last = c.last; r.nullable = r.nullable && c.nullable; } break; }
		case Node::ALT: for (auto &k : n->kids) { Info c = build(k.get()); r.nullable = r.nullable || c.nullable; r.first.insert(c.first.begin(), c.first.end()); r.last.insert(c.last.begin(), c.last.end()); } break;
		case Node::OPT: r = build(n->kids[0].get()); r.nullable = true; break;
		case Node::STAR: case Node::PLUS: r = build(n->kids[0].get()); for (int l : r.last) for (int f : r.first) follow[(size_t) l].insert(f); if (n->t == Node::STAR) r.nullable = true; break;
		}
		return r;
	}
};
static bool sym_matches(const Node *a, unsigned c, bool cf) {
	switch (a->t) { case Node::LIT: return fold(a->ch, cf) == fold(c, cf); case Node::DOT: return true;
	case Node::CLS: case Node::NCLS: { bool in = false; for (unsigned x : a->set) if (fold(x, cf) == fold(c, cf)) in = true; return in == (a->t == Node::CLS); } default: return false; }
}
static std::string sym_key(const Node *a, bool cf) { std::string k; k += (char)('0' + a->t); if (a->t == Node::LIT) k += std::to_string(fold(a->ch, cf)); std::set<unsigned> st; for (unsigned x : a->set) st.insert(fold(x, cf)); for (unsigned x : st) { k += ','; k += std::to_string(x); } return k; }
static bool symbols_overlap(const Node *a, const Node *b, bool cf) {
	for (unsigned c = 0x20; c < 0x80; ++c) if (sym_matches(a, c, cf) && sym_matches(b, c, cf)) return true;
	return false;
}
static bool ure_ambiguous(const NP &pat, bool cf) {
	Glushkov g; Glushkov::Info top = g.build(pat.get());
	std::set<std::set<int>> seen; std::vector<std::set<int>> work;
	std::set<int> init; init.insert(-1); work.push_back(init); seen.insert(init);
	while (!work.empty()) {
		std::set<int> st = work.back(); work.pop_back();
		std::set<int> out;
		for (int p : st) { if (p < 0) out.insert(top.first.begin(), top.first.end()); else out.insert(g.follow[(size_t) p].begin(), g.follow[(size_t) p].end()); }
		std::map<std::string, std::set<int>> by;
		for (int q : out) by[sym_key(g.pos[(size_t) q].leaf, cf)].insert(q);
		for (auto a = by.begin(); a != by.end(); ++a) for (auto b = std::next(a); b != by.end(); ++b)
			if (symbols_overlap(g.pos[(size_t) *a->second.begin()].leaf, g.pos[(size_t) *b->second.begin()].leaf, cf)) return true;
		for (auto &kv : by) if (seen.insert(kv.second).second) work.push_back(kv.second);
		if (seen.size() > 4000) return true;
	}
	return false;
}

static const char META[] = "!\"#$%&()*+,-./:;=?@[\\]^_{|}~";
static void emit(const Node *n, std::vector<uint16_t> &out, bool regex) {
	switch (n->t) {
	case Node::LIT: if (regex && n->ch < 128 && strchr(META, (int) n->ch)) out.push_back('\\'); out.push_back((uint16_t) n->ch); break;
	case Node::DOT: out.push_back('.'); break;
	case Node::CLS: case Node::NCLS: out.push_back('['); if (n->t == Node::NCLS) out.push_back('^'); for (unsigned c : n->set) out.push_back((uint16_t) c); out.push_back(']'); break;
	case Node::SEQ: for (auto &c : n->kids) emit(c.get(), out, regex); break;
	case Node::ALT: out.push_back('('); for (size_t i = 0; i < n->kids.size(); ++i) { if (i) out.push_back('|'); emit(n->kids[i].get(), out, regex); } out.push_back(')'); break;
	case Node::STAR: case Node::PLUS: case Node::OPT: emit(n->kids[0].get(), out, regex); out.push_back(n->t == Node::STAR ? '*' : n->t == Node::PLUS ? '+' : '?'); break;
	}
}
// a string of the pattern's language, as 7 bit Teletext codes (needs the code for each unicode character: map given)
static void sample(Src &s, const Node *n, std::vector<unsigned> &out, bool cf) {
	switch (n->t) {
	case Node::LIT: { unsigned c = n->ch; if (cf && s.chance(1, 2)) { if (c >= 'a' && c <= 'z') c -= 32; else if (c >= 'A' && c <= 'Z') c += 32; } out.push_back(c); break; }
	case Node::DOT: out.push_back((unsigned) FILLER[s.pick(sizeof FILLER - 1)]); break;
	case Node::CLS: out.push_back(n->set[s.pick((uint32_t) n->set.size())]); break;
	case Node::NCLS: { unsigned i = s.pick(13), c; for (;;) { c = (unsigned) FILLER[i % 13]; if (std::find(n->set.begin(), n->set.end(), c) == n->set.end()) break; ++i; } out.push_back(c); break; }
	case Node::SEQ: for (auto &c : n->kids) sample(s, c.get(), out, cf); break;
	case Node::ALT: sample(s, n->kids[s.pick((uint32_t) n->kids.size())].get(), out, cf); break;
	case Node::OPT: if (s.chance(1, 2)) sample(s, n->kids[0].get(), out, cf); break;
	case Node::STAR: case Node::PLUS: { unsigned k = s.pick(3) + (n->t == Node::PLUS ? 1 : 0); for (unsigned i = 0; i < k; ++i) sample(s, n->kids[0].get(), out, cf); break; }
	}
}

// characters that never occur in filler text; every pattern alternative contains at least one of them as a mandatory literal
static const char MARK[] = "xyzXYZwWqQ";
static const char PUNCT[] = "!\"$%&()*+,-./:;=?@";		// displayable as themselves with the English sub-set (code == unicode)
static NP gen_lit(Src &s, bool mark) { NP n = mk(Node::LIT); n->ch = mark ? (unsigned) MARK[s.pick(sizeof MARK - 1)] : (s.chance(1, 2) ? (unsigned) PUNCT[s.pick(sizeof PUNCT - 1)] : (unsigned) "abcdefghijklm0123456789"[s.pick(23)]); return n; }
static NP gen_seq(Src &s, bool regex, int depth) {
	NP q = mk(Node::SEQ);
	unsigned len = 1 + s.pick(5);
	unsigned markat = s.pick(len);
	for (unsigned i = 0; i < len; ++i) {
		if (i == markat) { q->kids.push_back(gen_lit(s, true)); continue; }
		unsigned what = regex ? s.pick(10) : 0;
		NP a;
		switch (what) {
		default: a = gen_lit(s, s.chance(1, 3)); break;
		case 5: a = mk(Node::DOT); break;
		case 6: a = mk(Node::CLS); for (unsigned k = 1 + s.pick(3); k; --k) a->set.push_back((unsigned) "abcdefxyzXYZ0123"[s.pick(16)]); break;
		case 7: a = mk(Node::NCLS); for (unsigned k = 1 + s.pick(3); k; --k) a->set.push_back((unsigned) "abcxyz012"[s.pick(9)]); break;
		case 8: if (depth < 1) { a = mk(Node::ALT); a->kids.push_back(gen_seq(s, regex, depth + 1)); a->kids.push_back(gen_seq(s, regex, depth + 1)); } else a = gen_lit(s, false); break;
		case 9: a = gen_lit(s, false); break;
		}
		if (regex && a->t != Node::ALT && s.chance(1, 5)) { NP r = mk(s.chance(1, 3) ? Node::STAR : s.chance(1, 2) ? Node::PLUS : Node::OPT); r->kids.push_back(a); a = r; }
		q->kids.push_back(a);
	}
	return q;
}

// ---------- pages ----------
struct PageText { unsigned pgno, subno; bool hex; uint8_t row[25][40]; uint8_t header[32]; bool have[25]; };
static unsigned key_of(unsigned pgno, unsigned subno) { return (pgno << 16) | subno; }

// display text of a row as the search documentation defines it: one unit per double width character
static void haystack_row(const uint8_t code[40], int y, std::vector<unsigned> &out) {
	int raw[40]; for (int i = 0; i < 40; ++i) raw[i] = code[i];
	ttx::RowOut o; ttx::format_row(raw, ttx::ENGLISH, ttx::ENGLISH, y, &o);
	out.clear();
	for (int c = 0; c < 40; ++c) {
		int sz = o.c[c].size;
		if (sz == ttx::DOUBLE_WIDTH || sz == ttx::DOUBLE_SIZE) { out.push_back(o.c[c].unicode); ++c; continue; }
		if (sz > ttx::DOUBLE_SIZE) continue;
		out.push_back(o.c[c].unicode);
	}
}

static int g_cancel_at = -1, g_progress_calls = 0;
static std::vector<unsigned> *g_visited;
static int on_progress(vbi_page *pg) { if (g_visited) g_visited->push_back(key_of((unsigned) pg->pgno, (unsigned) pg->subno)); return g_progress_calls++ != g_cancel_at; }

int vf_run_case(Src &s, Report &r) {
	// ---------- pattern ----------
	bool regex = s.chance(1, 2), cf = s.chance(1, 3);
	NP pat = gen_seq(s, regex, 0);
	bool ambiguous = regex && ure_ambiguous(pat, cf);
	if (ambiguous && exclusions_on()) {
		ambiguous = false;
		// known finding C17:ure-overlapping-symbols: keep the structure of the case, search for a pattern without overlapping symbols instead
		++r.excluded_known; r.cls("excluded:pattern-with-overlapping-symbols");
		pat = gen_seq(s, false, 0);
	}
	std::vector<uint16_t> upat; emit(pat.get(), upat, regex); upat.push_back(0);
	if (r.verbose) { std::string p; for (auto c : upat) if (c) p += (char) c; r.say("%s pattern \"%s\"%s\n", regex ? "regex" : "literal", p.c_str(), cf ? " (case folded)" : ""); }

	// ---------- population ----------
	static const unsigned PGNOS[] = {0x100, 0x101, 0x102, 0x199, 0x200, 0x2A0, 0x345, 0x346, 0x7FE, 0x899, 0x8FE, 0x888};
	unsigned npages = s.pick(13);
	std::vector<PageText> pages;
	uint8_t hdr_tmpl[32]; for (int i = 0; i < 32; ++i) hdr_tmpl[i] = (uint8_t) FILLER[s.pick(sizeof FILLER - 1)];
	auto fill_text = [&](PageText &p, bool allow_match) {
		for (int i = 0; i < 8; ++i) p.header[24 + i] = (uint8_t)('0' + s.pick(10));
		for (int y = 1; y <= 24; ++y) { p.have[y] = !s.chance(1, 6); for (int c = 0; c < 40; ++c) p.row[y][c] = (uint8_t) FILLER[s.pick(sizeof FILLER - 1)]; if (s.chance(1, 8)) p.row[y][s.pick(40)] = (uint8_t) s.pick(8); }
		unsigned nplant = allow_match ? s.pick(3) : 0;
		for (unsigned k = 0; k < nplant; ++k) {
			std::vector<unsigned> inst; sample(s, pat.get(), inst, cf);
			if (inst.empty() || inst.size() > 18) continue;
			int y = 1 + (int) s.pick(23); p.have[y] = true;
			bool dw = s.chance(1, 6);
			size_t width = dw ? 2 * inst.size() + 2 : inst.size();
			int c0 = (int) s.pick((uint32_t)(40 - width + 1));
			if (s.chance(1, 5)) c0 = 0; else if (s.chance(1, 5)) c0 = (int)(40 - width);
			if (dw) { p.row[y][c0] = 0x0E; for (size_t i = 0; i < inst.size(); ++i) { p.row[y][c0 + 1 + 2 * i] = (uint8_t) inst[i]; p.row[y][c0 + 2 + 2 * i] = (uint8_t) 'a'; } p.row[y][c0 + 1 + 2 * inst.size()] = 0x0C; }
			else for (size_t i = 0; i < inst.size(); ++i) p.row[y][c0 + i] = (uint8_t) inst[i];
		}
		// near misses
		unsigned nmiss = s.pick(3);
		for (unsigned k = 0; k < nmiss; ++k) {
			std::vector<unsigned> inst; sample(s, pat.get(), inst, cf);
			if (inst.size() < 2 || inst.size() > 18) continue;
			switch (s.pick(4)) {
			case 0: { int y = 24; p.have[y] = true; int c0 = (int) s.pick((uint32_t)(40 - inst.size() + 1)); for (size_t i = 0; i < inst.size(); ++i) p.row[y][c0 + i] = (uint8_t) inst[i]; break; }	// row 24 is not searched
			case 1: { size_t n = std::min<size_t>(inst.size(), 24); for (size_t i = 0; i < n; ++i) p.header[i] = (uint8_t) inst[i]; break; }	// header is not searched
			case 2: { int y = 1 + (int) s.pick(22); size_t cut = 1 + s.pick((uint32_t)(inst.size() - 1)); p.have[y] = p.have[y + 1] = true;	// split over two rows
				  for (size_t i = 0; i < cut; ++i) p.row[y][40 - cut + i] = (uint8_t) inst[i]; for (size_t i = cut; i < inst.size(); ++i) p.row[y + 1][i - cut] = (uint8_t) inst[i]; break; }
			default: { int y = 1 + (int) s.pick(23); p.have[y] = true; int c0 = (int) s.pick((uint32_t)(40 - inst.size())); size_t at = 1 + s.pick((uint32_t)(inst.size() - 1));	// colour code inside
				  for (size_t i = 0, c = 0; i < inst.size(); ++i) { if (i == at) p.row[y][c0 + c++] = 0x03; p.row[y][c0 + c++] = (uint8_t) inst[i]; } break; }
			}
		}
	};
	for (unsigned i = 0; i < npages; ++i) {
		PageText p; memset(&p, 0, sizeof p);
		p.pgno = PGNOS[s.pick(12)];
		p.hex = !vbi_is_bcd(p.pgno);
		switch (s.pick(4)) { case 0: case 1: p.subno = 0; break; case 2: p.subno = 1 + s.pick(4); break; default: p.subno = s.chance(1, 2) ? 0x1234 : 0x0100 + (s.pick(6) << 4) + s.pick(10); break; }
		if (p.hex) p.subno &= 0xF;
		bool clash = false; for (auto &o : pages) if (o.pgno == p.pgno && (o.subno == p.subno || o.subno == 0 || p.subno == 0 || o.subno >= 0x100 || p.subno >= 0x100)) clash = true;
		if (clash) continue;
		memcpy(p.header, hdr_tmpl, 32);
		fill_text(p, true);
		pages.push_back(p);
	}

	vbi_decoder *dec = vbi_decoder_new();
	if (!dec) return 2;
	struct Dummy { static void ev(vbi_event *, void *) {} };
	vbi_event_handler_register(dec, VBI_EVENT_TTX_PAGE, Dummy::ev, nullptr);
	double t = 1000.0;
	auto send = [&](const tx::Packet &p) { vbi_sliced sl; memset(&sl, 0, sizeof sl); sl.id = VBI_SLICED_TELETEXT_B; sl.line = 7; memcpy(sl.data, p.b, 42); vbi_decode(dec, &sl, 1, t); t += 0.04; };
	std::map<unsigned, PageText> cached;
	auto transmit = [&](const PageText &p) {
		tx::HeaderFlags f; f.c4_erase = true;
		unsigned mag = p.pgno >> 8;
		send(tx::header(mag, p.pgno & 0xFF, p.subno, f, p.header));
		for (int y = 1; y <= 24; ++y) if (p.have[y]) send(tx::row(mag, (unsigned) y, p.row[y]));
		tx::HeaderFlags ff; send(tx::header(mag, 0xFF, 0x3F7F, ff, hdr_tmpl));
		cached[key_of(p.pgno, p.subno)] = p;
	};
	for (auto &p : pages) transmit(p);
	for (auto &kv : cached) if (!vbi_is_cached(dec, (int) kv.second.pgno, (int) kv.second.subno)) { vbi_decoder_delete(dec); return r.fail("C17:setup-page-not-cached", "page %x.%x was transmitted but is not cached", kv.second.pgno, kv.second.subno); }

	auto matches = [&](const PageText &p) -> bool {
		if (p.hex) return false;	// hex numbered pages are not classified as normal pages and are not searched
		std::vector<unsigned> hay;
		for (int y = 1; y <= 23; ++y) { uint8_t blank[40]; memset(blank, 0x20, 40); haystack_row(p.have[y] ? p.row[y] : blank, y, hay); if (row_has_match(pat, hay, cf)) return true; }
		return false;
	};
	auto marks_on = [&](const PageText &p) { unsigned n = 0; for (int y = 1; y <= 23; ++y) if (p.have[y]) for (int c = 0; c < 40; ++c) if (strchr(MARK, p.row[y][c]) && p.row[y][c]) ++n; return n; };

	// ---------- search ----------
	unsigned spg = s.chance(1, 2) && !pages.empty() ? pages[s.pick((uint32_t) pages.size())].pgno : (0x100 + s.pick(0x800));
	if ((spg & 0xFF) == 0xFF) spg -= 1;
	int ssub; switch (s.pick(5)) { case 0: ssub = VBI_ANY_SUBNO; break; case 1: case 2: ssub = 0; break; case 3: ssub = 1 + (int) s.pick(4); break; default: ssub = s.chance(1, 2) ? 0x0100 + (int)(s.pick(6) << 4) + (int) s.pick(10) : 0x0200; break; }
	bool use_progress = s.chance(1, 2);
	std::vector<unsigned> visited; g_visited = &visited; g_progress_calls = 0; g_cancel_at = -1;
	vbi_search *srch = vbi_search_new(dec, (vbi_pgno) spg, (vbi_subno) ssub, upat.data(), cf, regex, use_progress ? on_progress : nullptr);
	if (!srch) { g_visited = nullptr; vbi_decoder_delete(dec); return r.fail("C17:pattern-rejected", "vbi_search_new rejected a pattern of the documented syntax"); }
	r.say("%zu pages cached; search from %x.%x%s\n", cached.size(), spg, (unsigned) ssub, use_progress ? " with progress callback" : "");
	auto dump_page = [&](const PageText &p) {
		for (int y = 0; y <= 24; ++y) { bool mark = false; std::string t; for (int c = 0; c < (y ? 40 : 32); ++c) { unsigned ch = y ? p.row[y][c] : p.header[c]; if (ch && strchr(MARK, (int) ch)) mark = true; t += (ch >= 0x20 && ch < 0x7F) ? (char) ch : '~'; }
			if (mark && (y == 0 || p.have[y])) r.say("      row %2d: |%s|\n", y, t.c_str()); } };
	if (r.verbose) for (auto &kv : cached) { r.say("  %x.%x %s\n", kv.second.pgno, kv.second.subno, kv.second.hex ? "(hex)" : matches(kv.second) ? "MATCHES" : "-"); dump_page(kv.second); }

	// model of the documented pass: forward from K0 = start page (first), backward from the page before it (start page last)
	long long K0 = ((long long) spg << 16) + (ssub == VBI_ANY_SUBNO ? 0 : ssub);
	long long K1;
	if (ssub <= 0) K1 = ((long long)(spg <= 0x100 ? 0x8FF : spg - 1) << 16) + 0x3F7E;
	else K1 = ((long long) spg << 16) + ((ssub & 0x7F) == 0 ? ((ssub - 0x100) | 0x7E) : ssub - 1);
	int dir = 0; bool have_cur = false; long long cur = 0, start_key = 0;
	auto pass_order = [&](int d) { std::vector<unsigned> o; std::vector<unsigned> keys; for (auto &kv : cached) keys.push_back(kv.first);
		if (d > 0) { for (unsigned k : keys) if ((long long) k >= K0) o.push_back(k); for (unsigned k : keys) if ((long long) k < K0) o.push_back(k); }
		else { for (auto it = keys.rbegin(); it != keys.rend(); ++it) if ((long long) *it <= K1) o.push_back(*it); for (auto it = keys.rbegin(); it != keys.rend(); ++it) if ((long long) *it > K1) o.push_back(*it); }
		return o; };

	bool nt_gap = false, nt_uncached_start = !cached.count((unsigned) K0), nt_dirchange = false, nt_update = false;
	{ // a non-matching page between two matching ones
		auto o = pass_order(+1); int st = 0; for (unsigned k : o) { bool m = matches(cached[k]); if (m && st == 0) st = 1; else if (!m && st == 1) st = 2; else if (m && st == 2) { nt_gap = true; break; } }
		if (cached.size() < 3) nt_gap = false;
	}
	int rc = 0;
	unsigned ncalls = 4 + s.pick(40);
	int want_dir = s.chance(1, 2) ? +1 : -1;
	unsigned repeats = 0;
	for (unsigned call = 0; call < ncalls && !rc; ++call) {
		// between calls: direction change, cache update
		if (call > 0 && s.chance(1, 10)) { want_dir = -want_dir; }
		if (call > 0 && s.chance(1, 8)) {
			PageText p; memset(&p, 0, sizeof p);
			if (!pages.empty() && s.chance(1, 2)) { p = pages[s.pick((uint32_t) pages.size())]; if (have_cur && (long long) key_of(p.pgno, p.subno) == cur) goto no_update; }
			else { p.pgno = PGNOS[s.pick(12)]; p.hex = !vbi_is_bcd(p.pgno); p.subno = 0; memcpy(p.header, hdr_tmpl, 32);
			       bool clash = false; for (auto &kv : cached) if (kv.second.pgno == p.pgno) clash = true; if (clash) goto no_update; }
			fill_text(p, true);
			transmit(p); nt_update = true;
			r.say("  [page %x.%x stored / replaced: %s]\n", p.pgno, p.subno, matches(p) ? "MATCHES" : "-"); if (r.verbose) dump_page(p);
		}
	no_update:
		if (use_progress && s.chance(1, 6)) g_cancel_at = g_progress_calls + (int) s.pick(4); else g_cancel_at = -1;
		// model: direction bookkeeping as documented for vbi_search_next
		if (dir == 0) { dir = want_dir; start_key = dir > 0 ? K0 : K1; have_cur = false; }
		else if (dir != want_dir) { dir = want_dir; nt_dirchange = true; K0 = K1 = start_key; repeats = 0; }
		std::vector<unsigned> order = pass_order(dir);
		size_t from = 0;
		if (have_cur) { auto it = std::find(order.begin(), order.end(), (unsigned) cur); if (it == order.end()) { rc = r.fail("C17:model-lost-current", "internal: current page not in pass order"); break; } from = (size_t)(it - order.begin()); }
		// expected: the first matching page at or after the frontier (the frontier page itself may or may not match again)
		long exp_idx = -1;
		for (size_t i = from + (have_cur ? 1 : 0); i < order.size(); ++i) if (matches(cached[order[i]])) { exp_idx = (long) i; break; }
		visited.clear();
		vbi_page *pg = nullptr;
		int st = vbi_search_next(srch, &pg, dir);
		r.say("  next(%+d) -> %d %s\n", dir, st, (st == VBI_SEARCH_SUCCESS && pg) ? (std::to_string(pg->pgno) + "." + std::to_string(pg->subno)).c_str() : "");
		char where[160]; snprintf(where, sizeof where, "call %u, direction %+d, start %x.%x, after %s%x.%x", call, dir, spg, (unsigned) ssub, have_cur ? "" : "(pass start) ", have_cur ? (unsigned)(cur >> 16) : 0, have_cur ? (unsigned)(cur & 0xFFFF) : 0);
		if (st == VBI_SEARCH_SUCCESS) {
			if (!pg) { rc = r.fail("C17:success-without-page", "%s: success but no page", where); break; }
			unsigned k = key_of((unsigned) pg->pgno, (unsigned) pg->subno);
			if (!cached.count(k)) { rc = r.fail("C17:returned-unknown-page", "%s: returned %x.%x which is not cached", where, pg->pgno, pg->subno); break; }
			if (!matches(cached[k])) { rc = r.fail("C17:returned-non-matching-page", "%s: returned %x.%x, whose rows 1-23 do not contain the pattern", where, pg->pgno, pg->subno); break; }
			if (have_cur && (long long) k == cur) {
				if (++repeats > marks_on(cached[k])) { rc = r.fail("C17:page-returned-too-often", "%s: %x.%x returned %u times in a row, it holds %u planted characters", where, pg->pgno, pg->subno, repeats + 1, marks_on(cached[k])); break; }
			} else {
				if (exp_idx < 0 || order[(size_t) exp_idx] != k) {
					rc = r.fail(exp_idx < 0 ? "C17:found-after-pass-end" : "C17:skipped-matching-page", "%s: returned %x.%x, expected %s%x.%x", where, pg->pgno, pg->subno, exp_idx < 0 ? "not-found " : "", exp_idx < 0 ? 0 : order[(size_t) exp_idx] >> 16, exp_idx < 0 ? 0 : order[(size_t) exp_idx] & 0xFFFF); break; }
				repeats = 0;
			}
			// highlighted cells: contiguous in reading order on rows without enlarged characters, spelling a full match
			{
				std::vector<unsigned> hl; int first_y = -1; bool enlarged = false, sane = true;
				for (int y = 1; y <= 23; ++y) for (int c = 0; c < 40; ++c) { const vbi_char &ch = pg->text[y * pg->columns + c]; if (ch.background == 32 + VBI_YELLOW && ch.foreground == 32 + VBI_BLACK) { if (first_y < 0) first_y = y; if (y != first_y) sane = false; if (ch.size != VBI_NORMAL_SIZE) enlarged = true; hl.push_back(ch.unicode); } }
				if (hl.empty()) { rc = r.fail("C17:no-highlight", "%s: returned %x.%x without a highlighted occurrence in rows 1-23", where, pg->pgno, pg->subno); break; }
				if (!enlarged && (!sane || !full_match(pat, hl, cf))) { std::string hs; for (unsigned u : hl) hs += (u < 128 ? (char) u : '?'); rc = r.fail("C17:highlight-not-a-match", "%s: the highlighted cells of %x.%x spell \"%s\", which the pattern does not match", where, pg->pgno, pg->subno, hs.c_str()); break; }
			}
			have_cur = true; cur = k; start_key = cur;
		} else if (st == VBI_SEARCH_NOT_FOUND) {
			if (exp_idx >= 0) { rc = r.fail("C17:missed-matching-page", "%s: not-found, but %x.%x contains the pattern and lies in the remaining part of the pass", where, order[(size_t) exp_idx] >> 16, order[(size_t) exp_idx] & 0xFFFF); break; }
			if (cached.empty()) { rc = r.fail("C17:not-found-on-empty-cache", "%s: empty cache must be reported as cache-empty", where); break; }
			have_cur = false; dir = 0; repeats = 0;
		} else if (st == VBI_SEARCH_CACHE_EMPTY) {
			if (!cached.empty()) { rc = r.fail("C17:cache-empty-but-pages", "%s: cache-empty reported with %zu pages cached", where, cached.size()); break; }
		} else if (st == VBI_SEARCH_CANCELED) {
			if (g_cancel_at < 0 || visited.empty()) { rc = r.fail("C17:canceled-without-request", "%s: canceled though the progress callback never asked for it", where); break; }
			unsigned q = visited.back();
			auto it = std::find(order.begin(), order.end(), q);
			if (it == order.end()) { rc = r.fail("C17:canceled-at-unknown-page", "%s: canceled at %x.%x", where, q >> 16, q & 0xFFFF); break; }
			size_t qi = (size_t)(it - order.begin());
			if (exp_idx >= 0 && (size_t) exp_idx < qi) { rc = r.fail("C17:skipped-matching-page", "%s: walked past %x.%x (contains the pattern) to %x.%x", where, order[(size_t) exp_idx] >> 16, order[(size_t) exp_idx] & 0xFFFF, q >> 16, q & 0xFFFF); break; }
			if (have_cur && qi < from) { rc = r.fail("C17:walked-backwards", "%s: progress at %x.%x which lies before the current page", where, q >> 16, q & 0xFFFF); break; }
			if (!(have_cur && (long long) q == cur)) { have_cur = true; cur = q; start_key = cur; repeats = 0; /* the cancelled page is searched again, completely */ }
		} else { rc = r.fail("C17:search-error", "%s: status %d", where, st); break; }
	}
	vbi_search_delete(srch);
	g_visited = nullptr;
	vbi_decoder_delete(dec);
	if (rc) { if (ambiguous) r.sig = "C17:ure-overlapping-symbols"; return rc; }	// only reachable while replaying the witness of the known finding
	r.nontrivial = nt_gap || nt_uncached_start || nt_dirchange || nt_update;
	if (nt_gap) r.cls("non-matching-page-between-matches");
	if (nt_uncached_start) r.cls("start-page-not-cached");
	if (nt_dirchange) r.cls("direction-change");
	if (nt_update) r.cls("cache-update-between-calls");
	if (cached.empty()) r.cls("empty-cache");
	r.cls(regex ? "regex" : "literal");
	return 0;
}

void vf_defaults(bool thorough, uint64_t *cases, size_t *max_size) { *cases = thorough ? 2000000 : 60000; *max_size = 8000; }
