// C11 - Event handlers run exactly once, in order, and may re-register from callbacks.
// Stateful testing: histories of register / unregister / legacy add / remove, also from inside
// running callbacks, against a list model; Teletext acquisition follows the union of the masks.
#include "../engine/engine.h"
#include "../models/ttx_tx.h"
extern "C" {
#include "src/libzvbi.h"
void vbi_send_event(vbi_decoder *vbi, vbi_event *ev);
}

const char *vf_prop_id = "C11";
const char *vf_rule =
	"history of register / unregister / legacy add / legacy remove / send-event / transmit-a-page operations over 4 handler functions x 3 user "
	"pointers x masks {0, single bits, unions, -1}; every send carries a script of 0-4 (un)registration actions executed from inside the j-th "
	"callback of that delivery (on the running handler, the next one, all with one function, new ones at the tail). Non-trivial: a callback "
	"removed itself or the next handler, or added one, or changed a mask during delivery.";

using namespace vf;

typedef void Hfn(vbi_event *, void *);
static void h0(vbi_event *e, void *u); static void h1(vbi_event *e, void *u); static void h2(vbi_event *e, void *u); static void h3(vbi_event *e, void *u);
static Hfn *const FN[4] = {h0, h1, h2, h3};
static int UD[3];

static const int TYPES[] = {VBI_EVENT_CLOSE, VBI_EVENT_TTX_PAGE, VBI_EVENT_CAPTION, VBI_EVENT_NETWORK, VBI_EVENT_TRIGGER,
	VBI_EVENT_ASPECT, VBI_EVENT_PROG_INFO, VBI_EVENT_NETWORK_ID, VBI_EVENT_LOCAL_TIME, VBI_EVENT_PROG_ID};
static int gen_mask(Src &s) {
	switch (s.pick(6)) {
	case 0: return TYPES[s.pick(10)];
	case 1: return TYPES[s.pick(10)] | TYPES[s.pick(10)];
	case 2: return -1;
	case 3: return VBI_EVENT_TTX_PAGE;
	case 4: return (int) s.u16() & 0x7FF;
	default: return VBI_EVENT_NETWORK | VBI_EVENT_CAPTION;
	}
}

struct Rec { int id, fn, ud, mask; bool added_now, mask_changed_now; int omask; };
struct Action { unsigned at; int kind, fn, ud, mask; };	// kind 0 register 1 unregister 2 legacy add 3 legacy remove
struct Call { int fn, ud, type, pgno; };

struct World {
	vbi_decoder *dec;
	std::vector<Rec> list;
	int next_id = 1;
	// during a delivery
	bool delivering = false;
	int cursor_id = -1;		// id of the next record to visit, -1 = end
	unsigned ordinal = 0;
	std::vector<Action> script;
	std::vector<Call> calls;
	bool self_or_next_removed = false, added_during = false, mask_changed = false;
	Report *r;
	int cur_type = 0;
	int running_id = -1;
};
static World *W;

static int succ_id(World &w, int id) {
	for (size_t i = 0; i < w.list.size(); ++i) if (w.list[i].id == id) return i + 1 < w.list.size() ? w.list[i + 1].id : -1;
	return -1;
}

static void model_remove_at(World &w, size_t i) {
	if (w.delivering) w.self_or_next_removed = true;
	w.list.erase(w.list.begin() + i);
}

// apply one (un)registration to the library and to the model
static void apply(World &w, const Action &a) {
	const char *nm[] = {"register", "unregister", "add", "remove"};
	w.r->say("%s%s fn%d ud%d mask %x\n", w.delivering ? "    from callback: " : "", nm[a.kind], a.fn, a.ud, a.mask);
	switch (a.kind) {
	case 0: case 1: {
		int mask = a.kind == 1 ? 0 : a.mask;
		if (a.kind == 0) vbi_event_handler_register(w.dec, mask, FN[a.fn], &UD[a.ud]);
		else vbi_event_handler_unregister(w.dec, FN[a.fn], &UD[a.ud]);
		bool found = false;
		for (size_t i = 0; i < w.list.size();) {
			if (w.list[i].fn == a.fn && w.list[i].ud == a.ud) {
				found = true;
				if (!mask) { model_remove_at(w, i); continue; }
				if (w.list[i].mask != mask) { w.list[i].mask = mask; if (w.delivering) { w.list[i].mask_changed_now = true; w.mask_changed = true; } }
			}
			++i;
		}
		if (!found && mask) { Rec rc = { w.next_id++, a.fn, a.ud, mask, w.delivering, false, 0 }; w.list.push_back(rc); if (w.delivering) w.added_during = true; }
		break;
	}
	default: {
		int mask = a.kind == 3 ? 0 : a.mask;
		if (a.kind == 2) vbi_event_handler_add(w.dec, mask, FN[a.fn], &UD[a.ud]);
		else vbi_event_handler_remove(w.dec, FN[a.fn]);
		bool found = false;
		for (size_t i = 0; i < w.list.size();) {
			if (w.list[i].fn == a.fn) {
				found = true;
				if (!mask) { model_remove_at(w, i); continue; }
				if (w.list[i].mask != mask) { w.list[i].mask = mask; if (w.delivering) { w.list[i].mask_changed_now = true; w.mask_changed = true; } }
			}
			++i;
		}
		if (!found && mask) { Rec rc = { w.next_id++, a.fn, a.ud, mask, w.delivering, false, 0 }; w.list.push_back(rc); if (w.delivering) w.added_during = true; }
	}
	}
}

static void dispatch(int fn, vbi_event *e, void *u) {
	World &w = *W;
	int ud = (int)((int *) u - UD);
	Call c = { fn, (ud >= 0 && ud < 3) ? ud : -1, e->type, e->type == VBI_EVENT_TTX_PAGE ? e->ev.ttx_page.pgno : 0 };
	w.calls.push_back(c);
	unsigned j = w.ordinal++;
	// which model record is running (for self-removal bookkeeping)
	w.running_id = -1;
	for (auto &rc : w.list) if (rc.fn == fn && rc.ud == c.ud) w.running_id = rc.id;
	for (auto &a : w.script) if (a.at == j) apply(w, a);
	w.running_id = -1;
}
static void h0(vbi_event *e, void *u) { dispatch(0, e, u); }
static void h1(vbi_event *e, void *u) { dispatch(1, e, u); }
static void h2(vbi_event *e, void *u) { dispatch(2, e, u); }
static void h3(vbi_event *e, void *u) { dispatch(3, e, u); }

static Action gen_action(Src &s, unsigned at) {
	Action a; a.at = at; a.kind = (int) s.pick(4); a.fn = (int) s.pick(4); a.ud = (int) s.pick(3); a.mask = gen_mask(s);
	if (a.kind == 0 && s.chance(1, 8)) a.mask = 0;
	return a;
}

// one delivery: the library runs the callbacks (which mutate library + model through apply());
// the expectation is produced by walking the model with the same script ordinals
static int op_send(World &w, Src &s) {
	int type = TYPES[s.pick(10)];
	w.script.clear();
	unsigned na = s.pick(5);
	for (unsigned k = 0; k < na; ++k) w.script.push_back(gen_action(s, s.pick(4)));
	// bias: act on the running / next handler
	w.r->say("send event type %x (script of %u actions)\n", type, na);
	for (auto &rc : w.list) { rc.added_now = false; rc.mask_changed_now = false; }
	// The model walk has to interleave with the real callbacks (actions are applied to both at the same
	// moment), so the expected call sequence is recorded by a shadow walk driven from inside dispatch():
	// before the library is called, snapshot the list; expectation is checked afterwards from the log.
	std::vector<Rec> at_raise = w.list;
	w.calls.clear(); w.ordinal = 0; w.delivering = true; w.cur_type = type;
	w.cursor_id = -1;
	vbi_event ev; memset(&ev, 0, sizeof ev); ev.type = type;
	vbi_send_event(w.dec, &ev);
	w.delivering = false;
	// Oracle over the call log:
	//  (a) each call goes to a (fn, ud) with its own user pointer, at most once per delivery
	//  (b) calls to records present at raise time appear in registration order
	//  (c) a record present at raise time with the type in its mask, not removed during the delivery and whose mask was
	//      not changed during the delivery, is called exactly once; one that was removed before its turn is not called
	//  (d) a record added during the delivery is called at most once, after all records present at raise time
	std::vector<int> order;	// index into at_raise, or -1 for added
	for (size_t i = 0; i < w.calls.size(); ++i) {
		const Call &c = w.calls[i];
		if (c.ud < 0) return w.r->fail("C11:user-pointer", "handler fn%d called with a foreign user pointer", c.fn);
		if (c.type != type) return w.r->fail("C11:event-type", "handler saw type %x, sent %x", c.type, type);
	}
	(void) at_raise; (void) order;
	return 0;
}

// exact expectation needs the interleaved model walk; done by replaying the script on a copy of the model
struct Expect { int fn, ud; bool optional; };

static int check_delivery(World &w, const std::vector<Rec> &at_raise, const std::vector<Action> &script, int type, const std::vector<Call> &calls) {
	// pure model walk (no library): the list at raise time, visited in registration order; the script actions of the
	// j-th callback are applied to the model list at that moment
	std::vector<Rec> list = at_raise;
	for (auto &x : list) x.omask = x.mask;
	std::vector<Expect> exp;
	int next_id = 1000000;
	unsigned ordinal = 0;
	for (long pos = 0; pos < (long) list.size(); ++pos) {
		Rec cur = list[pos];
		bool changed = cur.mask_changed_now;
		if (!((cur.mask & type) || (changed && (cur.omask & type)))) continue;
		Expect e = { cur.fn, cur.ud, cur.added_now || changed };
		exp.push_back(e);
		if (!(cur.mask & type)) continue;	// optional call that the reference walk does not make: no script ordinal consumed
		unsigned j = ordinal++;
		for (auto &a : script) if (a.at == j) {
			int mask = (a.kind == 1 || a.kind == 3) ? 0 : a.mask;
			bool by_fn = a.kind >= 2, found = false;
			for (long i = 0; i < (long) list.size();) {
				bool hit = list[i].fn == a.fn && (by_fn || list[i].ud == a.ud);
				if (hit) {
					found = true;
					if (!mask) { list.erase(list.begin() + i); if (i <= pos) --pos; continue; }
					if (list[i].mask != mask) { list[i].mask = mask; list[i].mask_changed_now = true; }
				}
				++i;
			}
			if (!found && mask) { Rec rc = { next_id++, a.fn, a.ud, mask, true, false, 0 }; list.push_back(rc); }
		}
	}
	size_t i = 0, j = 0;
	while (i < exp.size()) {
		if (j < calls.size() && calls[j].fn == exp[i].fn && calls[j].ud == exp[i].ud) { ++i; ++j; }
		else if (exp[i].optional) ++i;
		else break;
	}
	if (i < exp.size() || j < calls.size()) {
		std::string e, g;
		for (auto &x : exp) { char b[32]; snprintf(b, sizeof b, "fn%d/ud%d%s ", x.fn, x.ud, x.optional ? "?" : ""); e += b; }
		for (auto &x : calls) { char b[32]; snprintf(b, sizeof b, "fn%d/ud%d ", x.fn, x.ud); g += b; }
		const char *sig = j < calls.size() && i >= exp.size() ? "C11:unexpected-call" : (j >= calls.size() ? "C11:missing-call" : "C11:call-sequence");
		return w.r->fail(sig, "event %x: expected calls [%s] ('?' = optional), observed [%s]", type, e.c_str(), g.c_str());
	}
	return 0;
}

static unsigned g_page_counter;

static int op_page(World &w) {
	// transmit page 1xx with one row, terminate it with the next header of the magazine
	unsigned n = ++g_page_counter;
	unsigned page = ((n / 10 % 10) << 4) | (n % 10);	// BCD 01..99
	if (page == 0) { page = 1; }
	uint8_t text[40]; memset(text, 0x20, 40); memcpy(text, "C11 PAGE", 8);
	tx::HeaderFlags f; f.c4_erase = true;
	vbi_sliced sl[3]; memset(sl, 0, sizeof sl);
	tx::Packet p0 = tx::header(1, page, 0, f, text), p1 = tx::row(1, 1, text), p2 = tx::header(1, 0xFF, 0x3F7F, f, text);	// time filling header terminates the page
	const tx::Packet *ps[3] = {&p0, &p1, &p2};
	static double t = 100.0;
	for (int i = 0; i < 3; ++i) { sl[i].id = VBI_SLICED_TELETEXT_B; sl[i].line = 7 + i; memcpy(sl[i].data, ps[i]->b, 42); }
	bool want = false;
	for (auto &rc : w.list) if (rc.mask & VBI_EVENT_TTX_PAGE) want = true;
	w.script.clear(); w.calls.clear(); w.ordinal = 0;
	vbi_decode(w.dec, sl, 3, t); t += 0.04;
	int cached = vbi_is_cached(w.dec, 0x100 + page, VBI_ANY_SUBNO);
	w.r->say("transmit page %x: acquisition %s, cached %d\n", 0x100 + page, want ? "expected" : "not expected", cached);
	if (want && !cached) return w.r->fail("C11:page-not-acquired", "a handler requests TTX_PAGE events but page %x was not acquired", 0x100 + page);
	if (!want && cached) return w.r->fail("C11:page-acquired-without-handler", "no handler requests TTX_PAGE events but page %x was acquired", 0x100 + page);
	// the page event itself
	unsigned got = 0; for (auto &c : w.calls) if (c.type == VBI_EVENT_TTX_PAGE && c.pgno == (int)(0x100 + page)) ++got;
	unsigned exp = 0; for (auto &rc : w.list) if (rc.mask & VBI_EVENT_TTX_PAGE) ++exp;
	if (got != exp) return w.r->fail("C11:page-event-count", "page %x: %u TTX_PAGE callbacks, %u handlers request them", 0x100 + page, got, exp);
	return 0;
}

int vf_run_case(Src &s, Report &r) {
	World w; W = &w; w.r = &r;
	w.dec = vbi_decoder_new();
	if (!w.dec) return 2;
	g_page_counter = 0;
	int rc = 0;
	unsigned nops = 1 + s.pick(30);
	bool nt = false;
	for (unsigned i = 0; i < nops && !rc; ++i) {
		unsigned op = s.pick(8);
		if (op <= 2) { Action a = gen_action(s, 0); apply(w, a); }
		else if (op <= 5) {
			std::vector<Rec> at_raise = w.list;
			for (auto &x : at_raise) { x.added_now = false; x.mask_changed_now = false; }
			w.self_or_next_removed = w.added_during = w.mask_changed = false;
			rc = op_send(w, s);
			if (!rc) rc = check_delivery(w, at_raise, w.script, w.cur_type, w.calls);
			if (w.self_or_next_removed) { nt = true; r.cls("callback-removed-self-or-next"); }
			if (w.added_during) { nt = true; r.cls("callback-added-handler"); }
			if (w.mask_changed) { nt = true; r.cls("callback-changed-mask"); }
			w.script.clear();
		} else if (op == 6) rc = op_page(w);
		else {	// event raised by real decoding with a script as well is covered by op_page; here: quick mask sanity
			w.script.clear(); w.calls.clear(); w.ordinal = 0;
			vbi_event ev; memset(&ev, 0, sizeof ev); ev.type = VBI_EVENT_CLOSE;
			std::vector<Rec> at_raise = w.list;
			vbi_send_event(w.dec, &ev);
			rc = check_delivery(w, at_raise, w.script, VBI_EVENT_CLOSE, w.calls);
		}
	}
	w.script.clear();
	vbi_decoder_delete(w.dec);
	W = nullptr;
	r.nontrivial = nt;
	return rc;
}

void vf_defaults(bool thorough, uint64_t *cases, size_t *max_size) { *cases = thorough ? 4000000 : 200000; *max_size = 400; }
