/* C side of the C10 harness: everything that needs the private headers
   (cache-priv.h, vbi.h).  The model and the oracle live in C10.cc. */
#include "site_def.h"
#ifdef HAVE_CONFIG_H
#  include "config.h"
#endif
#include <string.h>
#include <stdio.h>
#include "src/version.h"
#include "src/event.h"
#include "src/cache-priv.h"
#include "src/vbi.h"
#include "C10_shim.h"

static cache_page g_tmp;	/* large: built here, copied by the cache */

/* What a stored page must hold, stated independently of cache_page_size(): the formatter reads the page extension
   (data.ext_lop.ext) of a page that received X/28/0, X/28/1 or X/28/4 (teletext.c: x28_designations & 0x11, packet.c: 0x13),
   the enhancement triplets of a page that received X/26, the rows and links otherwise; other functions their own member. */
static unsigned int needed_size(const cache_page *cp)
{
	const unsigned int hdr = sizeof(*cp) - sizeof(cp->data);

	switch (cp->function) {
	case PAGE_FUNCTION_UNKNOWN:
	case PAGE_FUNCTION_LOP:
		if (cp->x28_designations & ((1 << 0) | (1 << 1) | (1 << 4)))
			return hdr + sizeof(cp->data.ext_lop);
		if (cp->x26_designations)
			return hdr + sizeof(cp->data.enh_lop);
		return hdr + sizeof(cp->data.lop);
	case PAGE_FUNCTION_GPOP: case PAGE_FUNCTION_POP: return hdr + sizeof(cp->data.pop);
	case PAGE_FUNCTION_GDRCS: case PAGE_FUNCTION_DRCS: return hdr + sizeof(cp->data.drcs);
	case PAGE_FUNCTION_AIT: return hdr + sizeof(cp->data.ait);
	default: return sizeof(*cp);
	}
}

static void fill(cache_page *cp, const c10_desc *d)
{
	unsigned int size, hdr, i;
	uint8_t *p;

	memset(cp, 0, sizeof(*cp));
	cp->function = (enum ttx_page_function) d->function;
	cp->pgno = d->pgno;
	cp->subno = d->subno;
	cp->national = d->tag & 7;
	cp->flags = d->tag * 0x01010101u;
	cp->lop_packets = d->tag | 1;
	cp->x26_designations = d->x26;
	cp->x27_designations = d->tag & 3;
	cp->x28_designations = d->x28;
	size = needed_size(cp);
	hdr = sizeof(*cp) - sizeof(cp->data);
	p = (uint8_t *) &cp->data;
	for (i = 0; i < size - hdr; ++i)
		p[i] = (uint8_t)(d->tag * 31 + i * 7 + (i >> 8));
}

unsigned int c10_size(const c10_desc *d)
{
	cache_page hdr;
	memset(&hdr, 0, sizeof(hdr) - sizeof(hdr.data));
	hdr.function = (enum ttx_page_function) d->function;
	hdr.x26_designations = d->x26;
	hdr.x28_designations = d->x28;
	return cache_page_size(&hdr);
}

void *c10_put(void *ca, void *cn, const c10_desc *d)
{
	fill(&g_tmp, d);
	return _vbi_cache_put_page((vbi_cache *) ca, (cache_network *) cn, &g_tmp);
}

void *c10_get(void *ca, void *cn, int pgno, int subno, int mask)
{
	return _vbi_cache_get_page((vbi_cache *) ca, (cache_network *) cn, pgno, subno, mask);
}

void *c10_ref(void *cp) { return cache_page_ref((cache_page *) cp); }
void c10_unref(void *cp) { cache_page_unref((cache_page *) cp); }

/* 1 = page content is exactly what fill() produces for (function, pgno, stored subno, x26, x28, tag) */
int c10_matches(void *cpv, const c10_desc *d, int stored_subno)
{
	const cache_page *cp = (const cache_page *) cpv;
	c10_desc e = *d;
	unsigned int size, hdr;

	fill(&g_tmp, &e);
	if ((int) cp->function != d->function || cp->pgno != d->pgno || cp->subno != stored_subno)
		return 0;
	if (cp->national != g_tmp.national || cp->flags != g_tmp.flags || cp->lop_packets != g_tmp.lop_packets
	    || cp->x26_designations != g_tmp.x26_designations || cp->x27_designations != g_tmp.x27_designations
	    || cp->x28_designations != g_tmp.x28_designations)
		return 0;
	size = needed_size(&g_tmp);
	hdr = sizeof(*cp) - sizeof(cp->data);
	if (cache_page_size(cp) < size)
		return 0;	/* the cache stored (and allocated) less than the page needs */
	return 0 == memcmp(&cp->data, &g_tmp.data, size - hdr);
}

void c10_page_ident(void *cpv, int *pgno, int *subno, unsigned *ref_count, void **network)
{
	const cache_page *cp = (const cache_page *) cpv;
	*pgno = cp->pgno; *subno = cp->subno; *ref_count = cp->ref_count; *network = cp->network;
}

void *c10_add_network(void *ca) { return _vbi_cache_add_network((vbi_cache *) ca, NULL, VBI_VIDEOSTD_SET_625_50); }
void *c10_network_ref(void *cn) { return cache_network_ref((cache_network *) cn); }
void c10_network_unref(void *cn) { cache_network_unref((cache_network *) cn); }
void c10_set_limit(void *ca, unsigned long limit) { ((vbi_cache *) ca)->memory_limit = limit; }
unsigned long c10_memory_used(void *ca) { return ((vbi_cache *) ca)->memory_used; }
unsigned long c10_memory_limit(void *ca) { return ((vbi_cache *) ca)->memory_limit; }
void c10_set_page_type(void *cn, int pgno, int type) { cache_network_page_stat((cache_network *) cn, pgno)->page_type = (uint8_t) type; }
unsigned c10_net_cached_pages(void *cn) { return ((cache_network *) cn)->n_cached_pages; }

/* read-only lookup (no MRU side effects) */
void *c10_find(void *cav, void *cn, int pgno, int subno)
{
	vbi_cache *ca = (vbi_cache *) cav;
	struct node *list = &ca->hash[pgno % HASH_SIZE];
	cache_page *cp, *cp1;

	FOR_ALL_NODES (cp, cp1, list, hash_node)
		if (cp->pgno == pgno && cp->subno == subno && cp->network == (cache_network *) cn)
			return cp;
	return NULL;
}

struct fe_ctx { c10_visit *v; int max, n, stop_after; };
static int fe_cb(cache_page *cp, vbi_bool wrapped, void *ud)
{
	struct fe_ctx *c = (struct fe_ctx *) ud;
	if (c->n < c->max) {
		c->v[c->n].pgno = cp->pgno; c->v[c->n].subno = cp->subno; c->v[c->n].wrapped = wrapped;
	}
	++c->n;
	return c->n >= c->stop_after ? 1 : 0;
}
int c10_foreach(void *ca, void *cn, int pgno, int subno, int dir, c10_visit *v, int max, int stop_after, int *ret)
{
	struct fe_ctx c; c.v = v; c.max = max; c.n = 0; c.stop_after = stop_after;
	*ret = _vbi_cache_foreach_page((vbi_cache *) ca, (cache_network *) cn, pgno, subno, dir, fe_cb, &c);
	return c.n;
}

#define AFAIL(...) do { snprintf(a->err, sizeof a->err, __VA_ARGS__); return 1; } while (0)

/* structural audit of every list and counter */
int c10_audit(void *cav, c10_audit_t *a)
{
	vbi_cache *ca = (vbi_cache *) cav;
	cache_page *cp, *cp1;
	cache_network *cn, *cn1;
	unsigned int n_pri = 0, n_ref = 0, n_hash = 0, n_nets = 0, n_nonzombie_nets = 0, i;
	unsigned long mem = 0;

	memset(a, 0, sizeof(*a));
	FOR_ALL_NODES (cp, cp1, &ca->priority, pri_node) {
		++n_pri;
		if (cp->ref_count != 0) AFAIL("page %x.%x on the priority list has ref_count %u", cp->pgno, cp->subno, cp->ref_count);
		if (CACHE_PRI_ZOMBIE == cp->priority) AFAIL("zombie page %x.%x on the priority list", cp->pgno, cp->subno);
		mem += cache_page_size(cp);
		if (n_pri > 100000) AFAIL("priority list does not terminate");
	}
	FOR_ALL_NODES (cp, cp1, &ca->referenced, pri_node) {
		++n_ref;
		if (cp->ref_count == 0) AFAIL("page %x.%x on the referenced list has ref_count 0", cp->pgno, cp->subno);
		if (n_ref > 100000) AFAIL("referenced list does not terminate");
	}
	for (i = 0; i < HASH_SIZE; ++i) {
		FOR_ALL_NODES (cp, cp1, &ca->hash[i], hash_node) {
			cache_page *q, *q1;
			unsigned int found = 0;
			++n_hash;
			if ((unsigned)(cp->pgno % HASH_SIZE) != i) AFAIL("page %x.%x in hash bucket %u", cp->pgno, cp->subno, i);
			if (CACHE_PRI_ZOMBIE == cp->priority) AFAIL("zombie page %x.%x still hashed", cp->pgno, cp->subno);
			/* must be on exactly one of the two page lists */
			FOR_ALL_NODES (q, q1, &ca->priority, pri_node) if (q == cp) ++found;
			FOR_ALL_NODES (q, q1, &ca->referenced, pri_node) if (q == cp) ++found;
			if (found != 1) AFAIL("hashed page %x.%x is on %u page lists", cp->pgno, cp->subno, found);
			if (n_hash > 100000) AFAIL("hash chain does not terminate");
		}
	}
	{	/* non-zombie pages must be hashed exactly once */
		unsigned int nz = 0;
		FOR_ALL_NODES (cp, cp1, &ca->priority, pri_node) ++nz;
		FOR_ALL_NODES (cp, cp1, &ca->referenced, pri_node) if (CACHE_PRI_ZOMBIE != cp->priority) ++nz;
		if (nz != n_hash) AFAIL("%u non-zombie pages but %u hashed pages", nz, n_hash);
	}
	if (ca->n_cached_pages != n_pri + n_ref) AFAIL("ca->n_cached_pages %u, lists hold %u", ca->n_cached_pages, n_pri + n_ref);
	if (ca->memory_used != mem) AFAIL("ca->memory_used %lu, unreferenced pages sum to %lu", ca->memory_used, mem);
	FOR_ALL_NODES (cn, cn1, &ca->networks, node) {
		unsigned int pages = 0, refd = 0;
		++n_nets;
		if (!cn->zombie) ++n_nonzombie_nets;
		if (cn->cache != ca) AFAIL("network with foreign cache pointer");
		FOR_ALL_NODES (cp, cp1, &ca->priority, pri_node) if (cp->network == cn) ++pages;
		FOR_ALL_NODES (cp, cp1, &ca->referenced, pri_node) if (cp->network == cn) { ++pages; ++refd; }
		if (cn->n_cached_pages != pages) AFAIL("network %p n_cached_pages %u, owns %u pages", (void *) cn, cn->n_cached_pages, pages);
		if (cn->n_referenced_pages != refd) AFAIL("network %p n_referenced_pages %u, %u referenced pages", (void *) cn, cn->n_referenced_pages, refd);
		/* per page number statistics */
		{
			unsigned int pg, total = 0;
			for (pg = 0x100; pg <= 0x8FF; ++pg) total += cache_network_page_stat(cn, pg)->n_subpages;
			if (total != pages) AFAIL("network %p page statistics count %u subpages, owns %u pages", (void *) cn, total, pages);
		}
		FOR_ALL_NODES (cp, cp1, &ca->priority, pri_node) if (cp->network == cn) {
			const struct ttx_page_stat *ps = cache_network_const_page_stat(cn, cp->pgno);
			if (0 == ps->n_subpages) AFAIL("page %x.%x cached but n_subpages 0", cp->pgno, cp->subno);
		}
		if (n_nets > 10000) AFAIL("network list does not terminate");
	}
	/* every page belongs to a listed network */
	FOR_ALL_NODES (cp, cp1, &ca->priority, pri_node) {
		unsigned int f = 0;
		FOR_ALL_NODES (cn, cn1, &ca->networks, node) if (cp->network == cn) ++f;
		if (f != 1) AFAIL("page %x.%x belongs to an unlisted network", cp->pgno, cp->subno);
	}
	FOR_ALL_NODES (cp, cp1, &ca->referenced, pri_node) {
		unsigned int f = 0;
		FOR_ALL_NODES (cn, cn1, &ca->networks, node) if (cp->network == cn) ++f;
		if (f != 1) AFAIL("referenced page %x.%x belongs to an unlisted network", cp->pgno, cp->subno);
	}
	if (ca->n_cached_networks != n_nonzombie_nets) AFAIL("ca->n_cached_networks %u, %u non-zombie networks listed", ca->n_cached_networks, n_nonzombie_nets);
	a->n_priority = n_pri; a->n_referenced = n_ref; a->n_hashed = n_hash; a->n_networks = n_nets; a->memory = mem;
	return 0;
}

/* decoder flavoured access */
void *c10_decoder_new(void) { return vbi_decoder_new(); }
void c10_decoder_delete(void *v) { vbi_decoder_delete((vbi_decoder *) v); }
void *c10_decoder_cache(void *v) { return ((vbi_decoder *) v)->ca; }
void *c10_decoder_network(void *v) { return ((vbi_decoder *) v)->cn; }
void c10_decoder_switch(void *v) { vbi_chsw_reset((vbi_decoder *) v, 0); }
int c10_is_cached(void *v, int pgno, int subno) { return vbi_is_cached((vbi_decoder *) v, pgno, subno); }
int c10_hi_subno(void *v, int pgno) { return vbi_cache_hi_subno((vbi_decoder *) v, pgno); }
