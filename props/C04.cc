// C04 - Raw VBI decoding recovers every standard signal bit-exactly, on the right line.
// Generated sampling configurations (models/raw_gen.h) -> the repository's reference signal generator -> vbi3_raw_decoder,
// legacy vbi_raw_decoder, vbi3_bit_slicer and legacy vbi_bit_slicer; oracle = exact round trip in both directions.
#include "../models/raw_gen.h"
extern "C" {
#include "src/bit_slicer.h"
}

const char *vf_prop_id = "C04";
const char *vf_rule =
	"configuration = (one of 14 documented service combinations incl. single services and single-field sets, sampling rate log-uniform from the documented "
	"minimum to 36 MHz or one of 7 customary rates, horizontal window starting 1-6 us before and ending 0-3 us after the nominal signals, one of the 25 pixel "
	"formats, sequential / interlaced, synchronous or not, customary or widened line ranges, strict 0-2, each line blank (1/3) or carrying an all-0 / all-1 / "
	"alternating / long-run / random payload); then a remove-service / add-service history. Non-trivial: the rate is none of the four rates of the existing "
	"test, or the format is not YUV420, or the history step ran; distinct = hash of consumed choices.";

using namespace vf;
using namespace rawgen;

static const _vbi_service_par *par_of(unsigned id) { for (const _vbi_service_par *p = _vbi_service_table; p->id; ++p) if (p->id & id) return p; return nullptr; }

static bool payload_equal(const vbi_sliced &a, const vbi_sliced &b) {
	unsigned bits = vbi_sliced_payload_bits(a.id);
	if (memcmp(a.data, b.data, bits >> 3)) return false;
	if (bits & 7) { unsigned m = (1u << (bits & 7)) - 1; if ((a.data[bits >> 3] ^ b.data[bits >> 3]) & m) return false; }
	return true;
}

// predicted accumulated sampling drift of the payload bits, in bit periods, caused by the truncated integer step (known finding)
static double step_drift_bits(const _vbi_service_par *p, double rate) {
	double step = rate * 256.0 / p->bit_rate; double frac = step - std::floor(step);
	double drift_samples = frac * (p->frc_bits + p->payload) / 256.0;
	return drift_samples / (rate / p->bit_rate);
}

static int compare(Report &r, const Cfg &c, vbi_service_set active, const vbi_sliced *out, int n_out, const vbi_sliced *guard_ref, int n_guard, const char *who) {
	// expected records: the transmitted lines of the active services, ascending
	std::vector<vbi_sliced> exp;
	for (auto &l : c.in) if (l.id & active) exp.push_back(l);
	if (n_out < 0 || n_out > n_guard) return r.fail("C04:bad-count", "%s returned %d records", who, n_out);
	for (int i = n_out; i < n_guard; ++i) if (memcmp(&out[i], &guard_ref[i], sizeof(vbi_sliced))) return r.fail("C04:wrote-beyond-count", "%s: record %d beyond the %d reported ones was modified", who, i, n_out);
	size_t e = 0;
	unsigned last_line = 0;
	for (int i = 0; i < n_out; ++i) {
		const vbi_sliced &o = out[i];
		if (!(o.id & c.requested) || (o.id & ~c.requested)) return r.fail("C04:service-not-requested", "%s: record %d has id 0x%x, requested services 0x%x", who, i, o.id, c.requested);
		unsigned bytes = (vbi_sliced_payload_bits(o.id) + 7) >> 3;
		if (bytes == 0 || bytes > sizeof o.data) return r.fail("C04:bad-id", "%s: record %d id 0x%x has no payload size", who, i, o.id);
		if (memcmp(o.data + bytes, guard_ref[i].data + bytes, sizeof o.data - bytes)) return r.fail("C04:wrote-beyond-payload", "%s: record %d (id 0x%x): bytes behind the %u payload bytes were modified", who, i, o.id, bytes);
		if (c.sp.synchronous) {
			if (o.line <= last_line) return r.fail("C04:line-order", "%s: record %d line %u after line %u", who, i, o.line, last_line);
			last_line = o.line;
			while (e < exp.size() && exp[e].line < o.line) {
				return r.fail("C04:line-missing", "%s: transmitted line %u (service 0x%x) was not decoded (next record is line %u); predicted step drift %.2f bit", who, exp[e].line, exp[e].id, o.line, par_of(exp[e].id) ? step_drift_bits(par_of(exp[e].id), c.sp.sampling_rate) : 0.0);
			}
			if (e >= exp.size() || exp[e].line != o.line) return r.fail("C04:extra-record", "%s: record %d on line %u (id 0x%x) but nothing was transmitted there", who, i, o.line, o.id);
		} else {
			if (o.line != 0) return r.fail("C04:line-number-without-sync", "%s: record %d reports line %u although the field order is unknown", who, i, o.line);
			// same order as transmitted; services that need the field number may be skipped
			while (e < exp.size() && exp[e].id != o.id && (par_of(exp[e].id)->flags & _VBI_SP_FIELD_NUM)) ++e;
			if (e >= exp.size()) return r.fail("C04:extra-record", "%s: record %d (id 0x%x) matches no transmitted line", who, i, o.id);
		}
		if (exp[e].id != o.id) return r.fail("C04:wrong-service", "%s: line %u transmitted as 0x%x decoded as 0x%x", who, exp[e].line, exp[e].id, o.id);
		if (!payload_equal(exp[e], o)) {
			const _vbi_service_par *p = par_of(o.id);
			return r.fail("C04:payload", "%s: line %u service 0x%x: payload differs: sent %s.. got %s..; predicted step drift %.2f bit", who, exp[e].line, o.id, hex(exp[e].data, 8).c_str(), hex(o.data, 8).c_str(), p ? step_drift_bits(p, c.sp.sampling_rate) : 0.0);
		}
		++e;
	}
	for (; e < exp.size(); ++e) {
		if (!c.sp.synchronous && (par_of(exp[e].id)->flags & _VBI_SP_FIELD_NUM)) continue;
		return r.fail("C04:line-missing", "%s: transmitted line %u (service 0x%x) was not decoded; predicted step drift %.2f bit", who, exp[e].line, exp[e].id, par_of(exp[e].id) ? step_drift_bits(par_of(exp[e].id), c.sp.sampling_rate) : 0.0);
	}
	return 0;
}

int vf_run_case(Src &s, Report &r) {
	Cfg c;
	// known finding C04:marginal-oversampling: below 2.2 samples per payload symbol (Teletext below 15.3 MHz, VPS below 11 MHz) decoding fails in
	// narrow rate bands and for alternating payloads; the generator keeps the margin (13.5 MHz exactly stays, with random payloads as in the existing test)
	bool burst = false, marginal = false;	// known finding C04:cc525-locks-on-colour-burst
	if (!gen_cfg(s, c, true, exclusions_on() ? 2.2 : 0.0, &burst, exclusions_on(), &marginal)) return 2;
	if (burst && exclusions_on()) { ++r.excluded_known; r.cls("excluded:caption-525-video-image-window-covering-the-colour-burst"); burst = false; }
	bool vps_band = marginal;
	// known finding C04:step-truncation-drift: the integer sampling step drifts over the payload
	double worst = 0; for (const Blk *b = c.set->b; b->service; ++b) worst = std::max(worst, step_drift_bits(par_of(b->service), c.sp.sampling_rate));
	bool drifty = worst >= 0.20;
	if (drifty && exclusions_on()) {
		// move to the nearest lower rate whose step has (almost) no fraction for the fastest service, keeping everything else
		++r.excluded_known; r.cls("excluded:rate-with-step-drift>=0.2bit");
		const _vbi_service_par *fast = nullptr; for (const Blk *b = c.set->b; b->service; ++b) { const _vbi_service_par *p = par_of(b->service); if (!fast || p->bit_rate > fast->bit_rate) fast = p; }
		double rate = c.sp.sampling_rate;
		for (int k = 0; k < 4000; ++k) {
			double step = std::floor(rate * 256.0 / fast->bit_rate) - k % 2000;	// candidate integer steps downward
			double cand = std::ceil(step * fast->bit_rate / 256.0) + 1;
			double w = 0; for (const Blk *b = c.set->b; b->service; ++b) w = std::max(w, step_drift_bits(par_of(b->service), (int) cand));
			if (cand >= c.set->min_rate && w < 0.20) { rate = cand; break; }
			if (k == 3999) return 2;
		}
		double scale = rate / c.sp.sampling_rate;
		c.sp.sampling_rate = (int) rate; c.sp.offset = (int)(c.sp.offset * scale);	// the window in microseconds stays (samples per line cover at least as much time)
		drifty = false;
	}
	size_t size;
	uint8_t *raw = make_image(c, &size);
	if (!raw) return 2;
	int rc = 0;
	const int NOUT = 64;
	vbi_sliced out[NOUT], guard[NOUT];
	for (int i = 0; i < NOUT; ++i) memset(&guard[i], 0xA5 ^ i, sizeof guard[i]);
	r.say("set %s rate %d Hz offset %d spl %u fmt %d %s %s strict %u lines %zu start %d+%d %d+%d\n", c.set->name, c.sp.sampling_rate, c.sp.offset, c.samples_per_line, c.sp.sampling_format,
	      c.sp.interlaced ? "interlaced" : "sequential", c.sp.synchronous ? "sync" : "nosync", c.strict, c.in.size(), c.sp.start[0], c.sp.count[0], c.sp.start[1], c.sp.count[1]);

	vbi3_raw_decoder *rd = vbi3_raw_decoder_new(&c.sp);
	vbi_service_set granted = rd ? vbi3_raw_decoder_add_services(rd, c.requested, (int) c.strict) : 0;
	bool history = false, legacy16 = false;
	if (!rd) { free(raw); return 2; }
	if (granted & ~c.requested) rc = r.fail("C04:granted-unrequested", "add_services granted 0x%x, requested 0x%x", granted, c.requested);
	if (!rc) {
		memcpy(out, guard, sizeof out);
		int n = (int) vbi3_raw_decoder_decode(rd, out, NOUT, raw);
		rc = compare(r, c, granted, out, n, guard, NOUT, "vbi3_raw_decoder_decode");
	}
	// a blank image gives no records
	if (!rc) {
		Cfg blank = c; blank.in.clear(); size_t bs; uint8_t *braw = make_image(blank, &bs);
		if (braw) { memcpy(out, guard, sizeof out); int n = (int) vbi3_raw_decoder_decode(rd, out, NOUT, braw); if (n != 0) rc = r.fail("C04:blank-image-decoded", "a blank image produced %d records (first id 0x%x line %u)", n, out[0].id, out[0].line); free(braw); }
	}
	// second frame with the same decoder: every line carries some other service that is admissible there (or nothing), then the first frame again
	if (!rc && granted && s.chance(1, 2)) {
		Cfg c2 = c; c2.in.clear();
		for (int field = 0; field < 2; ++field) for (int k = 0; k < c.sp.count[field]; ++k) {
			unsigned line = (unsigned)(c.sp.start[field] + k);
			std::vector<unsigned> cand;
			for (const Blk *b = c.set->b; b->service; ++b) {
				if (!(b->service & granted) || std::find(cand.begin(), cand.end(), b->service) != cand.end()) continue;
				bool okline = false;
				for (const _vbi_service_par *p = _vbi_service_table; p->id; ++p) if ((p->id & b->service) && p->first[field] && line >= p->first[field] && line <= p->last[field]) okline = true;
				if (okline) cand.push_back(b->service);
			}
			if (cand.empty() || s.chance(1, 3)) continue;
			{	// known finding C04:cc525-locks-on-colour-burst (relaxed run-in test): another service on a line where Caption 525 is a candidate is taken for Caption
				bool cc = false; for (unsigned id : cand) if (id & VBI_SLICED_CAPTION_525) cc = true;
				if (cc && cand.size() > 1) { if (exclusions_on()) { ++r.excluded_known; r.cls("excluded:other-service-on-a-caption-525-line"); cand.clear(); cand.push_back(VBI_SLICED_CAPTION_525); } else burst = true; }
			}
			vbi_sliced sl; memset(&sl, 0, sizeof sl); sl.id = cand[s.pick((uint32_t) cand.size())]; sl.line = line;
			for (unsigned i = 0; i < sizeof sl.data; ++i) sl.data[i] = s.u8();
			c2.in.push_back(sl);
		}
		size_t sz2; uint8_t *raw2 = make_image(c2, &sz2);
		if (raw2) {
			history = true;
			memcpy(out, guard, sizeof out); int n = (int) vbi3_raw_decoder_decode(rd, out, NOUT, raw2);
			rc = compare(r, c2, granted, out, n, guard, NOUT, "decode of a second frame with other services on the lines");
			if (!rc) { memcpy(out, guard, sizeof out); n = (int) vbi3_raw_decoder_decode(rd, out, NOUT, raw); rc = compare(r, c, granted, out, n, guard, NOUT, "decode of the first frame again after a different frame"); }
			free(raw2);
		}
	}
	// history: remove one service, decode, add it again, decode
	if (!rc && granted && s.chance(1, 2)) {
		history = true;
		std::vector<unsigned> ids; for (const Blk *b = c.set->b; b->service; ++b) if ((b->service & granted) && std::find(ids.begin(), ids.end(), b->service) == ids.end()) ids.push_back(b->service);
		unsigned victim = ids[s.pick((uint32_t) ids.size())];
		vbi_service_set left = vbi3_raw_decoder_remove_services(rd, victim);
		r.say("history: remove 0x%x from granted 0x%x -> 0x%x\n", victim, granted, left);
		if (left != (granted & ~victim)) rc = r.fail("C04:remove-services", "remove_services(0x%x) from 0x%x left 0x%x", victim, granted, left);
		if (!rc) { memcpy(out, guard, sizeof out); int n = (int) vbi3_raw_decoder_decode(rd, out, NOUT, raw); rc = compare(r, c, left, out, n, guard, NOUT, "decode after remove_services"); }
		if (!rc) {
			vbi_service_set again = vbi3_raw_decoder_add_services(rd, victim, (int) c.strict);
			if (again != granted) rc = r.fail("C04:add-after-remove", "adding 0x%x again gives 0x%x, before 0x%x", victim, again, granted);
			if (!rc) { memcpy(out, guard, sizeof out); int n = (int) vbi3_raw_decoder_decode(rd, out, NOUT, raw); rc = compare(r, c, granted, out, n, guard, NOUT, "decode after add_services"); }
		}
	}
	vbi3_raw_decoder_delete(rd);

	// legacy interface
	if (!rc) {
		vbi_raw_decoder lrd; vbi_raw_decoder_init(&lrd);
		lrd.scanning = c.sp.scanning; lrd.sampling_format = c.sp.sampling_format; lrd.sampling_rate = c.sp.sampling_rate; lrd.bytes_per_line = c.sp.bytes_per_line; lrd.offset = c.sp.offset;
		lrd.start[0] = c.sp.start[0]; lrd.start[1] = c.sp.start[1]; lrd.count[0] = c.sp.count[0]; lrd.count[1] = c.sp.count[1]; lrd.interlaced = c.sp.interlaced; lrd.synchronous = c.sp.synchronous;
		vbi_service_set lg = vbi_raw_decoder_add_services(&lrd, c.requested, (int) c.strict);
		if (lg != granted) rc = r.fail("C04:legacy-grant-differs", "vbi_raw_decoder_add_services grants 0x%x, vbi3 grants 0x%x", lg, granted);
		else { memcpy(out, guard, sizeof out); int n = vbi_raw_decode(&lrd, raw, out); rc = compare(r, c, granted, out, n, guard, NOUT, "vbi_raw_decode (legacy)"); }
		vbi_raw_decoder_destroy(&lrd);
	}

	// single line slicers on every transmitted line of a granted service
	if (!rc) for (auto &l : c.in) {
		if (!(l.id & granted)) continue;
		const _vbi_service_par *p = par_of(l.id);
		int field = l.line >= (unsigned)(c.sp.scanning == 625 ? 313 : 263) ? 1 : 0;
		if (c.sp.count[field] == 0 || (int) l.line < c.sp.start[field] || (int) l.line >= c.sp.start[field] + c.sp.count[field]) continue;
		unsigned idx = l.line - (unsigned) c.sp.start[field];
		unsigned row = c.sp.interlaced ? idx * 2 + (unsigned) field : (field ? (unsigned) c.sp.count[0] + idx : idx);
		const uint8_t *lp = raw + (size_t) row * (size_t) c.sp.bytes_per_line;
		unsigned sample_offset = 0, cri_end = ~0u;	// as the raw decoder configures its slicers
		uint8_t buf[64]; memset(buf, 0xC3, sizeof buf);
		vbi3_bit_slicer *bs = vbi3_bit_slicer_new();
		if (bs && vbi3_bit_slicer_set_params(bs, c.sp.sampling_format, (unsigned) c.sp.sampling_rate, sample_offset, c.samples_per_line, p->cri_frc >> p->frc_bits, p->cri_frc_mask >> p->frc_bits,
				p->cri_bits, p->cri_rate, cri_end, p->cri_frc & ((1u << p->frc_bits) - 1), p->frc_bits, p->payload, p->bit_rate, (vbi3_modulation) p->modulation)) {
			vbi_sliced o; memset(&o, 0, sizeof o); o.id = l.id;
			if (!vbi3_bit_slicer_slice(bs, o.data, sizeof o.data, lp)) rc = r.fail("C04:slicer-missed-line", "vbi3_bit_slicer_slice found nothing on line %u (service 0x%x); predicted step drift %.2f bit", l.line, l.id, step_drift_bits(p, c.sp.sampling_rate));
			else if (!payload_equal(l, o)) rc = r.fail("C04:slicer-payload", "vbi3_bit_slicer_slice line %u service 0x%x: sent %s.. got %s..; predicted step drift %.2f bit", l.line, l.id, hex(l.data, 8).c_str(), hex(o.data, 8).c_str(), step_drift_bits(p, c.sp.sampling_rate));
		}
		if (bs) vbi3_bit_slicer_delete(bs);
		if (rc) break;
		// legacy slicer (known finding C04:legacy-slicer-16bit-formats: it finds nothing in any 16 bit RGB format)
		bool fmt16 = c.bpp == 2 && !(VBI_PIXFMT_SET(c.sp.sampling_format) & VBI_PIXFMT_SET_YUV);
		if (fmt16 && exclusions_on()) { ++r.excluded_known; r.cls("excluded:legacy-slicer-on-16-bit-rgb"); continue; }
		legacy16 = fmt16;
		vbi_bit_slicer ls; memset(&ls, 0, sizeof ls);
		vbi_bit_slicer_init(&ls, (int) c.samples_per_line, c.sp.sampling_rate, (int) p->cri_rate, (int) p->bit_rate, p->cri_frc, p->cri_frc_mask, (int) p->cri_bits, (int) p->frc_bits, (int) p->payload, (vbi_modulation) p->modulation, c.sp.sampling_format);
		vbi_sliced o; memset(&o, 0, sizeof o); o.id = l.id;
		if (!vbi_bit_slice(&ls, (uint8_t *) lp, o.data)) rc = r.fail("C04:legacy-slicer-missed-line", "vbi_bit_slice found nothing on line %u (service 0x%x); predicted step drift %.2f bit", l.line, l.id, step_drift_bits(p, c.sp.sampling_rate));
		else if (!payload_equal(l, o)) rc = r.fail("C04:legacy-slicer-payload", "vbi_bit_slice line %u service 0x%x: sent %s.. got %s..; predicted step drift %.2f bit", l.line, l.id, hex(l.data, 8).c_str(), hex(o.data, 8).c_str(), step_drift_bits(p, c.sp.sampling_rate));
		if (rc) break;
	}
	free(raw);
	if (rc) { if (drifty) r.sig = "C04:step-truncation-drift"; else if (vps_band) r.sig = "C04:marginal-oversampling"; else if (burst) r.sig = "C04:cc525-locks-on-colour-burst"; else if (legacy16 && r.sig.find("legacy-slicer") != std::string::npos) r.sig = "C04:legacy-slicer-16bit-formats"; return rc; }
	bool test_rate = c.sp.sampling_rate == 35468950 || c.sp.sampling_rate == 27000000 || c.sp.sampling_rate == 13500000 || c.sp.sampling_rate == 3000000;
	r.nontrivial = (!test_rate || c.sp.sampling_format != VBI_PIXFMT_YUV420 || history) && granted != 0 && !c.in.empty();
	r.cls(std::string("set:") + c.set->name);
	if (!granted) r.cls("nothing-granted");
	r.cls(c.sp.sampling_format == VBI_PIXFMT_YUV420 ? "fmt:yuv420" : "fmt:other");
	char b[32]; snprintf(b, sizeof b, "rate:%d-%dMHz", c.sp.sampling_rate / 5000000 * 5, c.sp.sampling_rate / 5000000 * 5 + 5); r.cls(b);
	return 0;
}

void vf_defaults(bool thorough, uint64_t *cases, size_t *max_size) { *cases = thorough ? 600000 : 15000; *max_size = 1200; }

// Exhaustive sub-check: the sampling parameters the library itself computes for a set of services (vbi_sampling_par_from_services, which
// vbi_raw_decoder_parameters(), the V4L2 interface and the proxy daemon use to open a device "for" these services) describe a set of scan
// lines covering every service reported as supported, and both raw decoders accept the services with exactly these parameters.
// Every subset of the service table entries of the 625 line systems and of the 525 line systems is enumerated.
extern "C" {
#include "src/sampling_par.h"
}
int vf_exhaustive(Report &r, bool, int w, int nw, VfExh &e) {
	e.what = "vbi_sampling_par_from_services() and vbi_raw_decoder_parameters() for every subset of the service table entries of the 625 line systems "
		 "and of the 525 line systems: the computed scan line window must contain the lines of every service reported as supported, and "
		 "vbi3_raw_decoder_add_services() / vbi_raw_decoder_add_services() must accept these services with the computed parameters";
	uint64_t n = 0;
	for (int scanning : {625, 525}) {
		vbi_videostd_set vs = _vbi_videostd_set_from_scanning(scanning);
		std::vector<const _vbi_service_par *> ent;
		for (const _vbi_service_par *p = _vbi_service_table; p->id; ++p) if (p->videostd_set & vs) ent.push_back(p);
		unsigned total = 1u << ent.size();
		for (unsigned mask = 1 + (unsigned) w; mask < total; mask += (unsigned) nw) {
			vbi_service_set S = 0; for (size_t i = 0; i < ent.size(); ++i) if (mask & (1u << i)) S |= ent[i]->id;
			for (int api = 0; api < 2; ++api) {
				vbi_raw_decoder rd0; vbi_sampling_par sp; memset(&sp, 0, sizeof sp);
				unsigned max_rate = 0; vbi_service_set got;
				if (api == 0) got = vbi_sampling_par_from_services(&sp, &max_rate, vs, S);
				else { vbi_raw_decoder_init(&rd0); int mr = 0; got = vbi_raw_decoder_parameters(&rd0, S, scanning, &mr); max_rate = (unsigned) mr;
				       sp.scanning = rd0.scanning; sp.sampling_format = rd0.sampling_format; sp.sampling_rate = rd0.sampling_rate; sp.bytes_per_line = rd0.bytes_per_line; sp.offset = rd0.offset;
				       sp.start[0] = rd0.start[0]; sp.start[1] = rd0.start[1]; sp.count[0] = rd0.count[0]; sp.count[1] = rd0.count[1]; sp.interlaced = rd0.interlaced; sp.synchronous = rd0.synchronous; }
				const char *who = api ? "vbi_raw_decoder_parameters" : "vbi_sampling_par_from_services";
				++n; ++e.evaluations; if (ent.size() > 1 && (mask & (mask - 1))) ++e.nontrivial;
				if (got & ~0u & ~S) { /* an entry with several bits is reported whole, e.g. Teletext B for B_L25 */ }
				for (size_t i = 0; i < ent.size(); ++i) {
					const _vbi_service_par *p = ent[i];
					if (!(p->id & S)) continue;
					if ((p->id & got) != p->id) { if (api) vbi_raw_decoder_destroy(&rd0); return r.fail("C04:parameters-drop-a-service", "%s(0x%x, %d lines): service 0x%x (%s) is not reported as supported (0x%x)", who, S, scanning, p->id, p->label, got); }
					for (int f = 0; f < 2; ++f) {
						if (p->first[f] == 0 || p->last[f] == 0) continue;
						if ((int) p->first[f] < sp.start[f] || (int) p->last[f] >= sp.start[f] + sp.count[f]) { if (api) vbi_raw_decoder_destroy(&rd0);
							return r.fail("C04:parameters-do-not-cover-a-service", "%s(0x%x, %d lines) reports 0x%x as supported with start %d+%d count %d+%d, but service 0x%x (%s) is transmitted on lines %u-%u of field %d",
								who, S, scanning, got, sp.start[0], sp.start[1], sp.count[0], sp.count[1], p->id, p->label, p->first[f], p->last[f], f + 1); }
					}
				}
				// the decoders accept what was promised (the blank-line pseudo services have no slicer)
				vbi_service_set want = got & ~(vbi_service_set)(VBI_SLICED_VBI_625 | VBI_SLICED_VBI_525);
				if (api == 0) {
					vbi3_raw_decoder *rd = vbi3_raw_decoder_new(&sp);
					if (!rd) return r.fail("C04:parameters-rejected", "%s(0x%x): vbi3_raw_decoder_new() refuses the computed parameters", who, S);
					vbi_service_set acc = vbi3_raw_decoder_add_services(rd, want, 0);
					vbi3_raw_decoder_delete(rd);
					if (acc != want) return r.fail("C04:computed-parameters-not-accepted", "%s(0x%x, %d lines) reports 0x%x with start %d+%d count %d+%d; vbi3_raw_decoder_add_services(0x%x, strict 0) accepts only 0x%x", who, S, scanning, got, sp.start[0], sp.start[1], sp.count[0], sp.count[1], want, acc);
				} else {
					vbi_service_set acc = vbi_raw_decoder_add_services(&rd0, want, 0);
					vbi_raw_decoder_destroy(&rd0);
					if (acc != want) return r.fail("C04:computed-parameters-not-accepted", "%s(0x%x, %d lines) reports 0x%x with start %d+%d count %d+%d; vbi_raw_decoder_add_services(0x%x, strict 0) accepts only 0x%x", who, S, scanning, got, sp.start[0], sp.start[1], sp.count[0], sp.count[1], want, acc);
				}
			}
		}
	}
	(void) n;
	e.complete = true;
	return 0;
}
