// C20 part B: vbi_raw_decode() in one thread, vbi_raw_decoder_add_services / _remove_services / _check_services in others.
#include "../models/raw_gen.h"
#include <thread>
#include <atomic>
#include <unistd.h>

using namespace vf;
using namespace rawgen;

int c20_raw_case(Src &s, Report &r) {
	Cfg c;
	// multi-service sets only, no marginal rates: this part is about the locking, not about the slicer
	for (int tries = 0;; ++tries) {
		if (!gen_cfg(s, c, false, 2.2, nullptr, true)) return 2;
		unsigned nsvc = 0; vbi_service_set seen = 0; for (const Blk *b = c.set->b; b->service; ++b) if (!(seen & b->service)) { seen |= b->service; ++nsvc; }
		if (nsvc >= 2 || tries > 8) break;
	}
	c.sp.synchronous = TRUE; c.strict = 0;
	{	// a rate at which the slicers are exact (the rate dependent slicer findings belong to C04): 27 MHz, same window in microseconds
		double scale = 27000000.0 / c.sp.sampling_rate;
		c.sp.offset = (int)(c.sp.offset * scale); c.samples_per_line = (unsigned)(c.samples_per_line * scale) + 2; c.sp.sampling_rate = 27000000;
		c.sp.bytes_per_line = (int)(c.samples_per_line * c.bpp);
	}
	size_t sz; uint8_t *raw = make_image(c, &sz);
	if (!raw) return 2;
	std::vector<vbi_service_set> svcs; for (const Blk *b = c.set->b; b->service; ++b) if (std::find(svcs.begin(), svcs.end(), (vbi_service_set) b->service) == svcs.end()) svcs.push_back(b->service);
	vbi_raw_decoder rd; vbi_raw_decoder_init(&rd);
	rd.scanning = c.sp.scanning; rd.sampling_format = c.sp.sampling_format; rd.sampling_rate = c.sp.sampling_rate; rd.bytes_per_line = c.sp.bytes_per_line; rd.offset = c.sp.offset;
	rd.start[0] = c.sp.start[0]; rd.start[1] = c.sp.start[1]; rd.count[0] = c.sp.count[0]; rd.count[1] = c.sp.count[1]; rd.interlaced = c.sp.interlaced; rd.synchronous = c.sp.synchronous;
	vbi_service_set granted = vbi_raw_decoder_add_services(&rd, c.requested, 0);
	if (!granted) { vbi_raw_decoder_destroy(&rd); free(raw); return 2; }
	unsigned ndec = 20 + s.pick(120), nthreads = 1 + s.pick(2);
	struct Op { unsigned delay, what; vbi_service_set svc; };
	std::vector<std::vector<Op>> ops(nthreads);
	for (auto &v : ops) { unsigned k = 10 + s.pick(80); for (unsigned i = 0; i < k; ++i) { v.push_back({ s.chance(1, 2) ? 0u : s.pick(6), s.pick(3), svcs[s.pick((uint32_t) svcs.size())] }); if (v.back().what == 1 && v.back().delay >= 4) v.back().svc = 0;	/* remove_services(0): the customary query for the current service set */ } }
	std::atomic<bool> done{false}; std::atomic<int> changes{0}, changes_during{0}; std::atomic<int> decoding{0};
	std::string failure;
	unsigned lines = (unsigned)(c.sp.count[0] + c.sp.count[1]);
	std::thread D([&]() {
		std::vector<vbi_sliced> out(lines ? lines : 1);
		for (unsigned k = 0; k < ndec && failure.empty(); ++k) {
			decoding.store(1);
			int n = vbi_raw_decode(&rd, raw, out.data());
			decoding.store(0);
			// one consistent service set: the services seen in the output, each with all of its transmitted lines, in order, correct payload
			vbi_service_set T = 0; for (int i = 0; i < n; ++i) T |= out[(size_t) i].id;
			size_t e = 0;
			for (int i = 0; i < n && failure.empty(); ++i) {
				while (e < c.in.size() && !(c.in[e].id & T)) ++e;
				if (e >= c.in.size() || c.in[e].line != out[(size_t) i].line || c.in[e].id != out[(size_t) i].id || memcmp(c.in[e].data, out[(size_t) i].data, (vbi_sliced_payload_bits(out[(size_t) i].id)) / 8)) {
					char b[256]; snprintf(b, sizeof b, "decode %u: record %d (id 0x%x line %u) does not continue the transmitted lines of the service set 0x%x seen in this result", k, i, out[(size_t) i].id, out[(size_t) i].line, T); failure = b; break; }
				++e;
			}
			for (; e < c.in.size() && failure.empty(); ++e) if (c.in[e].id & T) { char b[256]; snprintf(b, sizeof b, "decode %u: line %u of service 0x%x is missing although other lines of that service were decoded (services in the result 0x%x): torn service set", k, c.in[e].line, c.in[e].id, T); failure = b; }
			if (s.eof()) sched_yield();
		}
		done.store(true);
	});
	std::vector<std::thread> S;
	for (unsigned t = 0; t < nthreads; ++t) S.emplace_back([&, t]() {
		size_t i = 0;
		while (!done.load() && i < ops[t].size() * 40) {
			const Op &op = ops[t][i % ops[t].size()]; ++i;
			if (op.delay) usleep(op.delay * 20); else sched_yield();
			if (decoding.load()) changes_during.fetch_add(1);
			switch (op.what) {
			case 0: vbi_raw_decoder_add_services(&rd, op.svc, 0); break;
			case 1: vbi_raw_decoder_remove_services(&rd, op.svc); break;
			default: vbi_raw_decoder_check_services(&rd, op.svc, 0); break;
			}
			changes.fetch_add(1);
		}
	});
	D.join(); for (auto &t : S) t.join();
	vbi_raw_decoder_destroy(&rd);
	free(raw);
	if (!failure.empty()) return r.fail("C20:raw-decode-torn-service-set", "%s; set %s rate %d", failure.c_str(), c.set->name, c.sp.sampling_rate);
	r.nontrivial = changes_during.load() > 0;
	r.cls("raw:decode-vs-service-changes");
	if (changes_during.load()) r.cls("raw:service-change-during-decode");
	return 0;
}
