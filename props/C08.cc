// C08 - Closed Caption display memory follows EIA-608 for every command sequence.
// Generated caption programs on both fields and all eight channels are fed pair by pair to vbi_decode(); after every pair the page of
// each channel of that field is fetched and compared with the displayed memory of the reference decoder in models/cc608_model.h
// wherever the standard makes the content visible; VBI_EVENT_CAPTION must accompany every change of a fetched page.
#include "../engine/engine.h"
#include "../models/cc608_model.h"
extern "C" {
#include "src/libzvbi.h"
}
#include <deque>

const char *vf_prop_id = "C08";
const char *vf_rule =
	"caption program = per field a sequence of segments, each opened by a mode command of its channel (RCL, RU2/3/4, RDC, EOC; TR, RTD) and continued with "
	"PACs (15 rows x indent / colour / italics x underline), words of 1-9 standard characters, special characters, transparent spaces, mid-row codes, background and "
	"foreground attribute codes behind a space, FON, tab offsets, BS, DER, CR, EDM, ENM, EOC, NUL pairs; control pairs doubled on field 1 (now and then single, or "
	"repeated on purpose), sent once on field 2, XDS packets between field 2 segments; the two fields interleaved frame by frame. Non-trivial: a mode switch with text "
	"on screen, or a roll-up with at least two carriage returns on a non-empty window, or a window move / resize, or both fields carrying captions; distinct = hash of consumed choices.";

using namespace vf;
using namespace cc608;

enum {
	X_POPLOAD = 1, X_RDC_CLEAN = 2, X_RU_DEPTH = 4, X_RU_MOVE = 8, X_INDENT = 16, X_CR_POP = 32, X_FON = 64, X_BA = 128, X_TEXT_PAC = 256, X_TR = 512,
	X_EDM_TEXT = 1024, X_FIELDS = 2048, X_MR_ITALIC = 4096, X_NUL_DEDUP = 8192, X_BS_WORD = 16384, X_TS_EMPTY = 32768, X_STALE = 65536,
};
static const unsigned ACTIVE = X_POPLOAD | X_RDC_CLEAN | X_STALE;	// restrictions in force = the known findings (all others were repaired in the library)
static unsigned restrictions() {
	static int v = -1;
	if (v < 0) { const char *e = getenv("VF_C08_RELAX"); unsigned relax = e ? (unsigned) strtoul(e, nullptr, 0) : 0; v = (int)(~relax & ACTIVE); if (!exclusions_on()) v = 0; }
	return (unsigned) v;
}
static const unsigned KNOWN_MASK = X_POPLOAD | X_RDC_CLEAN | X_STALE;	// restrictions that stand for recorded known findings (the others are development aids and must be 0 in the end)

static inline uint8_t par(unsigned c) { c &= 0x7F; unsigned p = c; p ^= p >> 4; p ^= p >> 2; p ^= p >> 1; return (uint8_t)(c | ((~p & 1) << 7)); }

struct Pair { uint8_t a, b; };
struct Ctx { unsigned caption_events[10]; };
static Ctx *g_ctx;
static void on_event(vbi_event *ev, void *) { if (g_ctx && ev->type == VBI_EVENT_CAPTION && ev->ev.caption.pgno >= 1 && ev->ev.caption.pgno <= 8) ++g_ctx->caption_events[ev->ev.caption.pgno]; }

struct FieldGen {
	std::deque<Pair> fifo;
	bool force_segment = true;
	bool need_enm[4] = {false, false, false, false}, need_pac[4] = {true, true, true, true};	// indexed by channel & 3 within the field (bit 0 = channel bit, bit 1 unused)
};

static const char *MODE[] = {"unknown", "pop-on", "roll-up", "paint-on", "text"};

static std::string row_text(const Cell *row) { std::string o; for (int c = 0; c < COLS; ++c) { if (!row[c].set) o += '.'; else if (row[c].uc == 0x20) o += '_'; else if (row[c].uc < 0x7F) o += (char) row[c].uc; else o += '#'; } return o; }
static std::string page_row_text(const vbi_page &pg, int row) { std::string o; for (int c = 0; c < 34; ++c) { const vbi_char &x = pg.text[row * pg.columns + c]; if (x.unicode == 0x20) o += (x.opacity == VBI_TRANSPARENT_SPACE) ? '.' : '_'; else if (x.unicode < 0x7F) o += (char) x.unicode; else o += '#'; } return o; }

int vf_run_case(Src &s, Report &r) {
	const unsigned X = restrictions();
	vbi_decoder *dec = vbi_decoder_new();
	if (!dec) return 2;
	Ctx ctx; memset(&ctx, 0, sizeof ctx); g_ctx = &ctx;
	vbi_event_handler_register(dec, VBI_EVENT_CAPTION, on_event, nullptr);
	Model m;
	FieldGen fg[2];
	double t = 1000.0;
	int rc = 0;
	unsigned nframes = 20 + s.pick(220);
	bool use_field[2]; { unsigned k = (X & X_FIELDS) ? 1 + s.pick(2) : 1 + s.pick(3); use_field[0] = k & 1; use_field[1] = k & 2; }
	bool nt_modeswitch = false, nt_roll = false, nt_window = false; unsigned crs_on_text = 0; bool captions_on[2] = {false, false};
	uint64_t excluded = 0;
	bool taint_rowbuf[8] = {false}, taint_stale[8] = {false};	// set when an operation the exclusions would have replaced was sent (witness replays only)
	static vbi_page prev[8]; static bool have_prev[8]; memset(have_prev, 0, sizeof have_prev);
	static vbi_page pg;

	auto ctl = [&](int f, unsigned b0, unsigned b1, bool allow_single = true) {
		FieldGen &g = fg[f];
		g.fifo.push_back({par(b0), par(b1)});
		if (f == 0 && !(allow_single && s.chance(1, 16))) g.fifo.push_back({par(b0), par(b1)});
	};
	auto text = [&](int f, const std::vector<uint8_t> &cs) { for (size_t i = 0; i < cs.size(); i += 2) fg[f].fifo.push_back({par(cs[i]), par(i + 1 < cs.size() ? cs[i + 1] : 0)}); };
	auto misc = [&](int f, int bit, unsigned code) { ctl(f, 0x14 | (bit << 3) | (unsigned) f, 0x20 | code); };	// 001 c10f 010 xxxx
	auto gen_pac = [&](int f, int bit, int row) {
		static const unsigned hi[15] = {1, 1, 2, 2, 5, 5, 6, 6, 7, 7, 0, 3, 3, 4, 4}, lo[15] = {0, 1, 0, 1, 0, 1, 0, 1, 0, 1, 0, 0, 1, 0, 1};
		unsigned c2 = 0x40 | (lo[row] << 5);
		if (s.chance(1, 2)) c2 |= 0x10 | (s.pick(8) << 1); else c2 |= s.pick(8) << 1;
		c2 |= s.chance(1, 4) ? 1 : 0;
		ctl(f, 0x10 | (bit << 3) | hi[row], c2);
	};

	// Known finding C08:stale-legibility-space: the solid space the library stores next to a word stays behind when the word is erased.
	// Erasing cells a..b of the cursor row is excluded when it would leave such a space without a character next to it.
	auto orphan = [&](Chan &c, int a, int b, bool check_left, bool check_right) {
		if (c.text) return false;
		Cell *row = c.W()[c.row];
		auto set = [&](int x) { return x >= 0 && x < COLS && !(x >= a && x <= b) && row[x].set; };
		if (check_left && a < COLS && row[a].set && !set(a - 1) && !set(a - 2)) return true;
		if (check_right && b >= 0 && b < COLS && row[b].set && !set(b + 1) && !set(b + 2)) return true;
		return false;
	};
	// choose and queue the next operation of field f; the model is up to date for this field because its queue is empty
	auto gen_op = [&](int f) {
		FieldGen &g = fg[f];
		int cur = m.cur[f];
		Chan *cc = cur >= 0 ? &m.ch[cur] : nullptr;
		if (s.chance(1, 8)) { unsigned k = 1 + s.pick(3); for (unsigned i = 0; i < k; ++i) g.fifo.push_back({0x80, 0x80}); return; }
		bool new_seg = g.force_segment || !cc || (s.chance(1, 10) && !cc->pending);
		if (new_seg) {
			if (f == 1 && cc && s.chance(1, 6)) {	// an XDS packet between two segments
				unsigned cls = 1 + 2 * s.pick(6), type = 1 + s.pick(8), n = s.pick(5), sum = cls + type;
				g.fifo.push_back({par(cls), par(type)});
				for (unsigned i = 0; i < n; ++i) { unsigned a = s.range(0x20, 0x7F), b = s.range(0x20, 0x7F); sum += a + b; g.fifo.push_back({par(a), par(b)}); }
				sum += 0x0F; g.fifo.push_back({par(0x0F), par((0x80 - (sum & 0x7F)) & 0x7F)});
				g.force_segment = true; r.cls("op:xds-packet");
				return;
			}
			g.force_segment = false;
			int bit = (cc && s.chance(3, 4)) ? (cur & 1) : (int) s.pick(2);
			bool to_text = s.chance(1, 5);
			if (to_text) {
				Chan &tc = m.ch[4 + f * 2 + bit];
				bool tr = s.chance(1, 3);
				if (tr && (X & X_TR) && !tc.empty(tc.disp)) { tr = false; ++excluded; }
				misc(f, bit, tr ? 10 : 11); r.cls(tr ? "op:TR" : "op:RTD");
				return;
			}
			Chan &tc = m.ch[f * 2 + bit]; int k = f * 2 + bit;
			unsigned what = s.pick(10);
			if (what < 3) {	// RCL
				misc(f, bit, 0); r.cls("op:RCL");
				if (tc.mode != POP_ON) { g.need_enm[bit] = (tc.mode == ROLL_UP || tc.mode == PAINT_ON); g.need_pac[bit] = true; if (tc.mode != UNKNOWN && !tc.empty(tc.disp)) nt_modeswitch = true; }
			} else if (what < 6) {	// RUx
				int depth = 2 + (int) s.pick(3);
				if (tc.mode == ROLL_UP && depth != tc.depth) {
					if ((X & X_RU_DEPTH) && !tc.empty(tc.disp)) { depth = tc.depth; ++excluded; }
					else if (!tc.empty(tc.disp)) nt_window = true;
				}
				if ((tc.mode == POP_ON || tc.mode == PAINT_ON) && !tc.empty(tc.disp)) nt_modeswitch = true;
				misc(f, bit, 3 + (unsigned) depth); r.cls("op:RUx");
				g.need_pac[bit] = false; g.need_enm[bit] = false;
			} else if (what < 8) {	// RDC
				if (tc.mode != PAINT_ON) {
					if (!(tc.empty(0) && tc.empty(1)) || g.need_enm[bit]) { if (X & X_RDC_CLEAN) { misc(f, bit, 12); misc(f, bit, 14); ++excluded; } else taint_rowbuf[k] = true; }
					else if (!tc.empty(tc.disp)) nt_modeswitch = true;
					g.need_pac[bit] = true;
				}
				misc(f, bit, 9); r.cls("op:RDC"); g.need_enm[bit] = false;
			} else {	// EOC
				if (tc.mode == ROLL_UP || tc.mode == PAINT_ON) {
					if (X & X_POPLOAD) { misc(f, bit, 0); r.cls("op:RCL"); g.need_enm[bit] = true; g.need_pac[bit] = true; ++excluded; return; }
					taint_rowbuf[k] = true;
				}
				if (g.need_enm[bit]) { if (X & X_POPLOAD) { misc(f, bit, 14); ++excluded; } else taint_rowbuf[k] = true; g.need_enm[bit] = false; }
				misc(f, bit, 15); r.cls("op:EOC");
				if (!tc.empty(tc.disp) || !tc.empty(tc.disp ^ 1)) nt_modeswitch = true;
				g.need_pac[bit] = true;
			}
			return;
		}
		// continue on the current channel
		int bit = cur & 1;
		Chan &c = *cc;
		bool caption = !c.text;
		if (caption && c.mode == POP_ON && g.need_enm[bit]) {
			if (X & X_POPLOAD) { misc(f, bit, 14); g.need_enm[bit] = false; ++excluded; return; }
			taint_rowbuf[cur] = true; g.need_enm[bit] = false;
		}
		if (caption && g.need_pac[bit] && c.mode != ROLL_UP) { gen_pac(f, bit, (int) s.pick(15)); g.need_pac[bit] = false; r.cls("op:PAC"); return; }
		unsigned w = s.pick(40);
		if (w < 14) {	// word
			std::vector<uint8_t> cs; unsigned n = 1 + s.pick(9);
			for (unsigned i = 0; i < n; ++i) cs.push_back((uint8_t)(s.chance(1, 8) ? (const uint8_t[]){0x2A, 0x5C, 0x5E, 0x5F, 0x60, 0x7B, 0x7C, 0x7D, 0x7E, 0x7F}[s.pick(10)] : s.range(0x21, 0x7A)));
			if (!s.chance(1, 7)) cs.push_back(0x20);
			text(f, cs); r.cls("op:word");
		} else if (w < 19) {	// PAC
			int row = (int) s.pick(15);
			if (s.chance(1, 4)) row = (const int[]){0, 1, 2, 14}[s.pick(4)];
			if (c.mode == TEXT && (X & X_TEXT_PAC)) { ++excluded; return; }
			if (c.mode == ROLL_UP) {
				int base = std::max(row, c.depth - 1);
				if (base != c.row && !c.empty(c.disp)) { if (X & X_RU_MOVE) { ++excluded; return; } nt_window = true; }
			} else if ((X & X_INDENT) && c.mode != TEXT && !c.row_empty(c.mode == POP_ON ? c.disp ^ 1 : c.disp, row)) { ++excluded; return; }
			gen_pac(f, bit, row); r.cls("op:PAC");
		} else if (w < 21) {	// mid-row code
			unsigned code = s.pick(16);
			if ((X & X_MR_ITALIC) && (code >> 1) == 7 && c.pen.fg != WHITE) { ++excluded; return; }
			ctl(f, 0x11 | (bit << 3), 0x20 | code); r.cls("op:mid-row");
		} else if (w < 23) {	// special character
			unsigned k = s.pick(16); if (k == 9) k = 7;
			ctl(f, 0x11 | (bit << 3), 0x30 | k, false); r.cls("op:special-char");
		} else if (w < 24) {
			if ((X & X_TS_EMPTY) && !c.text && c.W()[c.row][c.col].set) { ++excluded; return; }
			if (orphan(c, c.col, c.col, true, true)) { if (X & X_STALE) { ++excluded; return; } taint_stale[cur] = true; }
			ctl(f, 0x11 | (bit << 3), 0x39, false); r.cls("op:transparent-space");
		} else if (w < 26) {	// background attribute behind a space
			if (X & X_BA) { ++excluded; return; }
			if (c.wrote_last_col || c.col >= COLS - 2) return;
			text(f, {0x20}); ctl(f, 0x10 | (bit << 3), 0x20 | s.pick(16)); r.cls("op:background-attr");
		} else if (w < 27) {	// BT / FA / FAU behind a space
			if (c.wrote_last_col || c.col >= COLS - 2) return;
			if (c.pen.it || c.pen.fl) return;	// whether FA / FAU end italics and flashing is not generated
			text(f, {0x20}); ctl(f, 0x17 | (bit << 3), 0x2D + s.pick(3)); r.cls("op:foreground-attr");
		} else if (w < 28) { if (X & X_FON) { ++excluded; return; } ctl(f, 0x14 | (bit << 3) | (unsigned) f, 0x28); r.cls("op:FON");
		} else if (w < 30) {	// tab offset
			if (c.wrote_last_col) return;
			if ((X & X_INDENT) && c.mode != TEXT) { bool occ = false; for (int x = c.col; x < std::min(c.col + 3, (int) COLS); ++x) if (c.W()[c.row][x].set) occ = true; if (occ) { ++excluded; return; } }
			ctl(f, 0x17 | (bit << 3), 0x21 + s.pick(3)); r.cls("op:tab-offset");
		} else if (w < 32) {	// BS
			if (c.wrote_last_col) return;
			if ((X & X_BS_WORD) && c.word_len < 2) { ++excluded; return; }
			if (c.col > 0 && orphan(c, c.col - 1, c.col - 1, true, true)) { if (X & X_STALE) { ++excluded; return; } taint_stale[cur] = true; }
			misc(f, bit, 1); r.cls("op:BS");
		} else if (w < 33) {
			if (c.wrote_last_col) return;
			if (c.col > 0 && orphan(c, c.col, COLS - 1, true, false)) { if (X & X_STALE) { ++excluded; return; } taint_stale[cur] = true; }
			misc(f, bit, 4); r.cls("op:DER");
		} else if (w < 36) {	// CR
			if ((c.mode == POP_ON || c.mode == PAINT_ON) && (X & X_CR_POP)) { ++excluded; return; }
			if ((c.mode == ROLL_UP || (c.mode == TEXT && c.row == ROWS - 1)) && !c.empty(c.disp)) { if (++crs_on_text >= 2) nt_roll = true; }
			misc(f, bit, 13); r.cls("op:CR");
		} else if (w < 37) {	// EDM
			if (c.text && (X & X_EDM_TEXT)) { ++excluded; return; }
			misc(f, s.chance(1, 4) ? bit ^ 1 : bit, 12); r.cls("op:EDM");
		} else if (w < 38) {	// ENM
			if (c.text && (X & X_EDM_TEXT)) { ++excluded; return; }
			misc(f, s.chance(1, 4) ? bit ^ 1 : bit, 14); r.cls("op:ENM");
		} else if (w < 39) {	// EOC
			if (c.text) return;
			if (c.mode != POP_ON) { if (X & X_POPLOAD) { ++excluded; return; } taint_rowbuf[cur] = true; }
			misc(f, bit, 15); g.need_pac[bit] = true; r.cls("op:EOC");
		} else {	// the same control code again after NUL pairs: a new command, not a repetition
			if (f != 0 || (X & X_NUL_DEDUP)) { if (f == 0) ++excluded; return; }
			if (c.mode != ROLL_UP && c.mode != TEXT) return;
			unsigned b0 = 0x14 | (bit << 3), b1 = 0x2D;
			g.fifo.push_back({par(b0), par(b1)}); g.fifo.push_back({0x80, 0x80}); g.fifo.push_back({par(b0), par(b1)}); g.fifo.push_back({0x80, 0x80});
			r.cls("op:CR-NUL-CR");
		}
	};

	auto compare = [&](int chn, const char *after) -> int {
		Chan &c = m.ch[chn];
		if (!vbi_fetch_cc_page(dec, &pg, chn + 1, TRUE)) return r.fail("C08:fetch-failed", "vbi_fetch_cc_page(%d) returned FALSE", chn + 1);
		if (pg.rows != 15 || pg.columns != 34) return r.fail("C08:page-geometry", "channel %d: page is %d x %d", chn + 1, pg.rows, pg.columns);
		// event rule: a changed page must have been announced
		bool changed = have_prev[chn] && memcmp(prev[chn].text, pg.text, sizeof(vbi_char) * 15 * 34) != 0;
		if (changed && ctx.caption_events[chn + 1] == 0)
			return r.fail("C08:page-changed-without-event", "channel %d: the fetched page changed %s but no VBI_EVENT_CAPTION with pgno %d was raised", chn + 1, after, chn + 1);
		ctx.caption_events[chn + 1] = 0;
		memcpy(&prev[chn], &pg, sizeof pg); have_prev[chn] = true;
		if (c.mode != POP_ON && c.mode != UNKNOWN && c.pending) return 0;	// a word is being typed: the library shows it when it is complete
		Cell (*D)[COLS] = c.D();
		for (int row = 0; row < ROWS; ++row) for (int col = -1; col <= COLS; ++col) {
			const vbi_char &x = pg.text[row * 34 + col + 1];
			const Cell *mc = (col >= 0 && col < COLS) ? &D[row][col] : nullptr;
			const char *why = nullptr;
			if (mc && mc->set) {
				if (x.unicode != mc->uc) why = "character";
				else if (x.opacity != mc->pen.op) why = "opacity";
				else if (mc->pen.op != OP_TRANSPARENT_FULL && x.background != mc->pen.bg) why = "background";
				else if (mc->uc != 0x20 && (x.foreground != mc->pen.fg)) why = "foreground";
				else if (mc->uc != 0x20 && (!!x.underline != mc->pen.ul)) why = "underline";
				else if (mc->uc != 0x20 && (!!x.italic != mc->pen.it)) why = "italic";
				else if (mc->uc != 0x20 && (!!x.flash != mc->pen.fl)) why = "flash";
			} else if (c.text) {
				if (x.unicode != 0x20 || x.opacity != VBI_OPAQUE || x.background != VBI_BLACK) why = "empty text cell";
			} else {
				bool neighbour = (col > 0 && D[row][col - 1].set) || (col < COLS - 1 && D[row][col + 1].set);
				if (x.unicode != 0x20) why = "character in an empty cell";
				else if (x.opacity != VBI_TRANSPARENT_SPACE && !neighbour) why = "solid cell away from any character";
			}
			if (why) {
				std::string sig = std::string("C08:") + MODE[c.mode] + ":" + why; for (auto &ch : sig) if (ch == ' ') ch = '-';
				if (taint_rowbuf[chn]) sig = "C08:non-displayed-memory-as-row-buffer"; else if (taint_stale[chn]) sig = "C08:stale-legibility-space";
				r.say("model row %2d: %s\npage  row %2d:%s\n", row + 1, row_text(D[row]).c_str(), row + 1, page_row_text(pg, row).c_str());
				return r.fail(sig.c_str(), "channel %d (%s) %s: row %d column %d differs in %s: fetched U+%04X fg %d bg %d ul %d it %d fl %d opacity %d, reference %s U+%04X fg %d bg %d ul %d it %d fl %d opacity %d",
					chn + 1, MODE[c.mode], after, row + 1, col + 1, why, x.unicode, x.foreground, x.background, x.underline, x.italic, x.flash, x.opacity,
					(mc && mc->set) ? "cell" : "empty", mc ? mc->uc : 0, mc ? mc->pen.fg : 0, mc ? mc->pen.bg : 0, mc ? mc->pen.ul : 0, mc ? mc->pen.it : 0, mc ? mc->pen.fl : 0, mc ? mc->pen.op : 0);
			}
		}
		return 0;
	};

	for (unsigned fr = 0; fr < nframes && !rc; ++fr) {
		vbi_sliced sl[2]; int n = 0; Pair sent[2]; int sent_f[2];
		for (int f = 0; f < 2; ++f) {
			if (!use_field[f]) continue;
			if (fg[f].fifo.empty()) gen_op(f);
			if (fg[f].fifo.empty()) continue;
			Pair p = fg[f].fifo.front(); fg[f].fifo.pop_front();
			memset(&sl[n], 0, sizeof sl[n]); sl[n].id = VBI_SLICED_CAPTION_525; sl[n].line = f ? 284 : 21; sl[n].data[0] = p.a; sl[n].data[1] = p.b;
			sent[n] = p; sent_f[n] = f; ++n;
		}
		// one call per frame (the decoder takes irregular timestamps for a channel change); the channels of the two fields are disjoint
		for (int i = 0; i < n; ++i) m.feed(sent_f[i], sent[i].a & 0x7F, sent[i].b & 0x7F);
		vbi_decode(dec, n ? sl : nullptr, n, t);
		for (int i = 0; i < n && !rc; ++i) {
			int f = sent_f[i];
			r.say("frame %3u field %d: %02x %02x", fr, f + 1, sent[i].a & 0x7F, sent[i].b & 0x7F);
			if (m.cur[f] >= 0) { Chan &c = m.ch[m.cur[f]]; r.say("  -> %s%d %s row %d col %d%s\n", c.text ? "T" : "CC", (m.cur[f] & 3) + 1, MODE[c.mode], c.row + 1, c.col + 1, c.pending ? " (word pending)" : ""); if (!c.text && !c.empty(c.disp)) captions_on[f] = true; }
			else r.say("\n");
			char after[64]; snprintf(after, sizeof after, "after pair %02x %02x of frame %u field %d", sent[i].a & 0x7F, sent[i].b & 0x7F, fr, f + 1);
			for (int k = 0; k < 4 && !rc; ++k) { int chn = (k & 1) + f * 2 + (k & 2) * 2; rc = compare(chn, after); }
			if (r.verbose && getenv("VF_C08_TRACE") && m.cur[f] >= 0) { Chan &c = m.ch[m.cur[f]]; vbi_fetch_cc_page(dec, &pg, m.cur[f] + 1, TRUE); r.say("      model %s\n      page %s\n", row_text(c.D()[c.row]).c_str(), page_row_text(pg, c.row).c_str()); }
		}
		t += 1.0 / 30;
	}
	g_ctx = nullptr;
	vbi_decoder_delete(dec);
	r.excluded_known += (X & KNOWN_MASK) ? excluded : 0;
	if (rc) return rc;
	r.nontrivial = nt_modeswitch || nt_roll || nt_window || (captions_on[0] && captions_on[1]);
	if (nt_modeswitch) r.cls("mode-switch-with-text-on-screen");
	if (nt_roll) r.cls("rolled-twice-with-text");
	if (nt_window) r.cls("window-moved-or-resized");
	if (captions_on[0] && captions_on[1]) r.cls("captions-on-both-fields");
	return 0;
}

void vf_defaults(bool thorough, uint64_t *cases, size_t *max_size) { *cases = thorough ? 3000000 : 150000; *max_size = 3000; }
