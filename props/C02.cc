// C02 - A transmitted Teletext page is cached and fetched exactly as sent.
// Generated networks (serial / parallel, up to 8 magazines interleaved at packet level, retransmissions with and
// without erase) -> real vbi_decode(); oracle = assembly model + Level 1 display model (models/ttx_model.h).
#include "../engine/engine.h"
#include "../models/ttx_gen.h"
#include "../models/ttx_model.h"
extern "C" {
#include "src/libzvbi.h"
}
#include <set>

const char *vf_prop_id = "C02";
const char *vf_rule =
	"network = serial or parallel mode, 1-8 magazines, per magazine 1-4 pages (BCD 100-899, subpage 0 or 01-79, national option 0-6, C5/C6 "
	"sometimes) with rows 1-24 absent or from a row grammar (text incl. national option positions, colours, mosaics with hold/release across colour "
	"and size changes, contiguous/separated, double height/width/size, box pairs, new/black background, flash/steady, conceal), optional X/27/0; "
	"schedule = packet level interleaving of the magazines, rows in permuted order or omitted, time filling headers, 2-4 transmission cycles with "
	"edited / omitted rows and toggled erase flag. Non-trivial: >= 2 magazines interleaved at packet level or a no-erase retransmission with a changed "
	"and an omitted row, and at least one row with interacting spacing attributes.";

using namespace vf;

struct PageDef { unsigned mag, page, sub, national; bool c5, c6; uint8_t header[32]; bool have[25]; uint8_t row[25][40]; bool have_x27; unsigned link_pg[6], link_sub[6]; };
struct Stored { bool have[25]; uint8_t row[25][40]; uint8_t header[32]; unsigned national; bool c5, c6; bool have_x27; unsigned link_pg[6], link_sub[6]; };
struct Ev { int pgno, subno; };
static std::vector<Ev> *g_events;
static void on_event(vbi_event *e, void *) { if (e->type == VBI_EVENT_TTX_PAGE && g_events) { Ev v = { e->ev.ttx_page.pgno, e->ev.ttx_page.subno }; g_events->push_back(v); } }

static unsigned norm_uc(unsigned u) { return (u == 0xEE20 || u == 0xEE00) ? 0x20 : u; }

static int compare_page(Report &r, vbi_decoder *dec, unsigned pgno, unsigned subno, const Stored &st, int level, const char *when) {
	vbi_page pg; memset(&pg, 0, sizeof pg);
	if (!vbi_fetch_vt_page(dec, &pg, (vbi_pgno) pgno, (vbi_subno) subno, (vbi_wst_level) level, 25, TRUE))
		return r.fail("C02:not-cached", "%s: page %x.%x cannot be fetched (level %d)", when, pgno, subno, level);
	if ((unsigned) pg.pgno != pgno || (unsigned) pg.subno != subno) return r.fail("C02:page-number", "%s: fetched page reports %x.%x, transmitted %x.%x", when, pg.pgno, pg.subno, pgno, subno);
	int subset = ttx::subset_for_national(st.national);
	bool newsflash = st.c5 || st.c6;
	for (int row = 0; row <= 24; ++row) {
		// row 24: with FLOF links (X/27/0) and no transmitted row 24 the decoder composes a navigation bar of its own there
		if (row == 24 && st.have_x27 && !st.have[24]) break;
		int raw[40];
		if (row == 0) {
			char buf[16]; snprintf(buf, sizeof buf, "\2%x.%02x\7", pgno, subno & 0xFF);
			for (int i = 0; i < 8; ++i) raw[i] = buf[i];
			for (int i = 0; i < 32; ++i) raw[8 + i] = st.header[i];
		} else for (int i = 0; i < 40; ++i) raw[i] = st.have[row] ? st.row[row][i] : 0x20;
		ttx::RowOut out; ttx::format_row(raw, subset, subset, row, &out);
		for (int pass = 0; pass < (out.double_height ? 2 : 1); ++pass) {
			const ttx::Cell *cells = pass ? out.lower : out.c;
			int y = row + pass;
			if (y > 24) break;
			for (int col = (row == 0 ? 8 : 0); col < 40; ++col) {
				const vbi_char &g = pg.text[y * pg.columns + col];
				const ttx::Cell &m = cells[col];
				const char *what = nullptr;
				if (norm_uc(g.unicode) != norm_uc(m.unicode)) what = "character";
				else if (g.foreground != m.fg) what = "foreground";
				else if (g.background != m.bg) what = "background";
				else if ((bool) g.flash != m.flash) what = "flash";
				else if ((bool) g.conceal != m.conceal) what = "conceal";
				else if ((int) g.size != m.size) what = "size";
				else if (newsflash && row > 0 && (m.boxed != (g.opacity != VBI_TRANSPARENT_SPACE))) what = "boxing";
				if (what) {
					std::string rs; for (int i = 0; i < 40; ++i) { char b[4]; snprintf(b, sizeof b, "%02x", raw[i] & 0xFF); rs += b; }
					char sg[48]; snprintf(sg, sizeof sg, "C02:cell-%s", what);
					return r.fail(sg, "%s: page %x.%x level %d row %d col %d (%s row): %s differs: fetched U+%04X fg %u bg %u flash %u conceal %u size %u opacity %u, "
						"reference U+%04X fg %u bg %u flash %d conceal %d size %d boxed %d; row codes %s", when, pgno, subno, level, y, col, pass ? "lower double height" : "own",
						what, g.unicode, g.foreground, g.background, g.flash, g.conceal, g.size, g.opacity, m.unicode, m.fg, m.bg, m.flash, m.conceal, m.size, m.boxed, rs.c_str());
				}
			}
		}
		if (out.double_height) ++row;	// the row below a double height row is not displayed
	}
	// with a transmitted row 24 the links are tied to the colours used in that row; without it all four links are reported
	if (st.have_x27 && !st.have[24]) {
		for (int i = 0; i < 4; ++i) {
			unsigned lp = st.link_pg[i];
			if (lp < 0x100 || lp > 0x899 || (lp & 0xFF) == 0xFF) continue;
			if ((unsigned) pg.nav_link[i].pgno != lp) return r.fail("C02:flof-link", "%s: page %x.%x FLOF link %d is %x, transmitted %x", when, pgno, subno, i, pg.nav_link[i].pgno, lp);
		}
	}
	// the sixth link of X/27/0 is the index page; without FLOF links the network's initial page (100 as long as no packet 8/30 names another) is reported
	{ unsigned want = st.have_x27 ? st.link_pg[5] : 0x100;
	  if ((unsigned) pg.nav_link[5].pgno != want) return r.fail("C02:flof-link", "%s: page %x.%x index link (nav_link[5]) is %x, %s %x", when, pgno, subno, pg.nav_link[5].pgno, st.have_x27 ? "the sixth link of X/27/0 is" : "no X/27/0 was transmitted, the initial page is", want); }
	return 0;
}

int vf_run_case(Src &s, Report &r) {
	bool serial = s.chance(1, 3);
	unsigned nmag = 1 + s.pick(serial ? 3 : 8);
	unsigned richness = 1 + s.pick(3);
	std::vector<PageDef> pages;
	bool interacting = false;
	uint8_t hdr_tmpl[32]; for (int i = 0; i < 32; ++i) hdr_tmpl[i] = (uint8_t) s.range(0x20, 0x7E);
	// half of the networks show the page number in the header, as real ones do: only then can the decoder compare the headers of
	// successive pages (its channel change heuristic in store_lop); the rest of the text then has no digits, so that the page number
	// is found where it is. The choice is taken from the template bytes under the clock, which the clock digits overwrite anyway.
	bool pn_in_header = hdr_tmpl[31] & 1; unsigned pn_off = hdr_tmpl[30] % 21;
	if (pn_in_header) for (int i = 0; i < 24; ++i) if (hdr_tmpl[i] >= '0' && hdr_tmpl[i] <= '9') hdr_tmpl[i] = (uint8_t) ('A' + hdr_tmpl[i] - '0');
	if (pn_in_header) r.cls("page-number-in-header");
	std::set<unsigned> used;
	for (unsigned m = 0; m < nmag; ++m) {
		unsigned mag = 1 + (m + s.pick(8)) % 8;
		unsigned np = 1 + s.pick(4);
		for (unsigned k = 0; k < np; ++k) {
			PageDef p; memset(&p, 0, sizeof p);
			p.mag = mag; p.page = (s.pick(10) << 4) | s.pick(10);
			p.sub = s.chance(1, 3) ? ((s.pick(8) << 4) | s.pick(10)) : 0; if (p.sub == 0x00 && s.chance(1, 8)) p.sub = 0x01;
			if ((p.sub >> 4) > 7) p.sub &= 0x7F;
			// a page number is either a single page (subcode 0) or a set of subpages 01-79, never both (the cache keeps one
			// version of a page without subpages, EN 300 706 A.1); all (page, subpage) pairs are distinct
			{ unsigned guard = 0; bool clash;
			  do { clash = false; for (auto &o : pages) if (o.mag == mag && o.page == p.page && (o.sub == 0 || p.sub == 0 || o.sub == p.sub)) clash = true;
			       if (clash) { p.page = ((p.page + 1) % 0x9A); if ((p.page & 15) > 9) p.page = (p.page & 0xF0) + 0x10; if (p.page > 0x99) p.page = 0; }
			  } while (clash && ++guard < 200); }
			unsigned key = (mag << 16) | (p.page << 8);
			p.national = s.pick(7);
			p.c5 = s.chance(1, 10); p.c6 = !p.c5 && s.chance(1, 10);
			memcpy(p.header, hdr_tmpl, 32);
			if (pn_in_header) { p.header[pn_off] = (uint8_t) ('0' + mag); p.header[pn_off + 1] = (uint8_t) ('0' + (p.page >> 4)); p.header[pn_off + 2] = (uint8_t) ('0' + (p.page & 15)); }
			// clock bytes vary
			for (int i = 24; i < 32; ++i) p.header[i] = (uint8_t) s.range(0x30, 0x39);
			for (int y = 1; y <= 24; ++y) { p.have[y] = !s.chance(1, 4); if (p.have[y]) { ttxgen::gen_row(s, p.row[y], richness, &interacting); for (int i = 0; i < 40; ++i) if (p.row[y][i] == 0x1B) p.row[y][i] = 0x20; } }
			p.have_x27 = s.chance(1, 4);
			if (p.have_x27 && s.chance(1, 2)) p.have[24] = false;
			for (int i = 0; i < 6; ++i) { p.link_pg[i] = ((1 + s.pick(8)) << 8) | (s.pick(10) << 4) | s.pick(10); p.link_sub[i] = 0x3F7F; }
			(void) key;
			pages.push_back(p);
		}
	}
	// a magazine never carries the same page number in two consecutive transmissions (such a header does not terminate the page)
	vbi_decoder *dec = vbi_decoder_new();
	if (!dec) return 2;
	std::vector<Ev> events; g_events = &events;
	vbi_event_handler_register(dec, VBI_EVENT_TTX_PAGE, on_event, nullptr);
	std::map<unsigned, Stored> model;	// key pgno<<16 | subno
	struct Open { bool active; unsigned pgno, subno; Stored st; size_t ev_at; bool erase; };
	Open open[9]; for (auto &o : open) o.active = false;
	int rc = 0;
	double t = 1000.0;
	std::vector<vbi_sliced> frame;
	unsigned frame_cap = 1 + s.pick(16);
	auto flush_frame = [&]() { if (!frame.empty()) { vbi_decode(dec, frame.data(), (int) frame.size(), t); t += 0.04; frame.clear(); frame_cap = 1 + s.pick(16); } };
	auto send = [&](const tx::Packet &p) { vbi_sliced sl; memset(&sl, 0, sizeof sl); sl.id = VBI_SLICED_TELETEXT_B; sl.line = 7 + (unsigned) frame.size(); memcpy(sl.data, p.b, 42); frame.push_back(sl); if (frame.size() >= frame_cap) flush_frame(); };
	bool nt_interleave = false, nt_noerase = false;

	auto complete = [&](unsigned mag) -> int {
		Open &o = open[mag];
		if (!o.active) return 0;
		o.active = false;
		flush_frame();
		model[(o.pgno << 16) | o.subno] = o.st;
		char when[96]; snprintf(when, sizeof when, "after the header terminating %x.%x", o.pgno, o.subno);
		for (int level : {VBI_WST_LEVEL_1, VBI_WST_LEVEL_1p5, VBI_WST_LEVEL_2p5, VBI_WST_LEVEL_3p5})
			if (compare_page(r, dec, o.pgno, o.subno, o.st, level, when)) return 1;
		unsigned n = 0; for (size_t i = o.ev_at; i < events.size(); ++i) if ((unsigned) events[i].pgno == o.pgno && (unsigned) events[i].subno == o.subno) ++n;
		if (n != 1) return r.fail(n ? "C02:page-event-duplicate" : "C02:page-event-missing", "%u page events for the transmission of %x.%x", n, o.pgno, o.subno);
		vbi_page pg; memset(&pg, 0, sizeof pg);
		if (!vbi_fetch_vt_page(dec, &pg, (vbi_pgno) o.pgno, VBI_ANY_SUBNO, VBI_WST_LEVEL_1, 25, FALSE) || (unsigned) pg.subno != o.subno)
			return r.fail("C02:wildcard-subpage", "wildcard fetch of %x after receiving subpage %x returned subpage %x", o.pgno, o.subno, pg.subno);
		if (!vbi_is_cached(dec, (int) o.pgno, (int) o.subno)) return r.fail("C02:is-cached", "vbi_is_cached(%x, %x) is false", o.pgno, o.subno);
		return 0;
	};

	unsigned ncycles = 2 + s.pick(3);
	for (unsigned cyc = 0; cyc < ncycles && !rc; ++cyc) {
		// edit pages for retransmission
		std::vector<bool> erase(pages.size());
		std::vector<std::vector<int>> order(pages.size());
		for (size_t pi = 0; pi < pages.size(); ++pi) {
			PageDef &p = pages[pi];
			erase[pi] = cyc == 0 ? s.chance(1, 2) : s.chance(1, 3);
			bool changed = false, omitted = false;
			for (int y = 1; y <= 24; ++y) {
				if (cyc > 0 && p.have[y] && s.chance(1, 5)) { bool dummy = false; ttxgen::gen_row(s, p.row[y], richness, &dummy); for (int i = 0; i < 40; ++i) if (p.row[y][i] == 0x1B) p.row[y][i] = 0x20; changed = true; }
				bool sendit = p.have[y] && !(cyc > 0 && s.chance(1, 4));
				if (p.have[y] && !sendit) omitted = true;
				if (sendit) order[pi].push_back(y);
			}
			if (cyc > 0 && !erase[pi] && changed && omitted) nt_noerase = true;
			// rows in permuted order
			if (s.chance(1, 3)) for (size_t i = order[pi].size(); i > 1; --i) std::swap(order[pi][i - 1], order[pi][s.pick((uint32_t) i)]);
		}
		// per magazine queues of packets; scheduler picks the next magazine
		struct Q { std::vector<size_t> pgs; size_t pi = 0; size_t ri = 0; bool header_sent = false; };
		std::map<unsigned, Q> q;
		for (size_t pi = 0; pi < pages.size(); ++pi) q[pages[pi].mag].pgs.push_back(pi);
		std::vector<unsigned> mags; for (auto &kv : q) mags.push_back(kv.first);
		unsigned cur_mag = mags[0];
		unsigned live = (unsigned) mags.size();
		unsigned last_emit_mag = 0;
		while (live && !rc) {
			// choose the magazine to emit from
			std::vector<unsigned> alive; for (auto m : mags) if (q[m].pi < q[m].pgs.size()) alive.push_back(m);
			if (alive.empty()) break;
			if (!serial) cur_mag = alive[s.pick((uint32_t) alive.size())];
			else if (q[cur_mag].pi >= q[cur_mag].pgs.size()) cur_mag = alive[0];
			Q &qq = q[cur_mag];
			PageDef &p = pages[qq.pgs[qq.pi]];
			unsigned pgno = (p.mag << 8) | p.page;
			if (!qq.header_sent) {
				// header: terminates the open page of this magazine (and in serial mode the page of any magazine)
				Open &o = open[p.mag];
				if (o.active && o.pgno == pgno) {	// same page number twice in a row in this magazine: insert a time filling header first
					tx::HeaderFlags ff; ff.c11_serial = serial; ff.c4_erase = false; uint8_t txt[32]; memset(txt, 0x20, 32);
					send(tx::header(p.mag, 0xFF, 0x3F7F, ff, txt));
					if ((rc = complete(p.mag))) break;
				}
				tx::HeaderFlags f; f.c4_erase = erase[qq.pgs[qq.pi]]; f.c5_newsflash = p.c5; f.c6_subtitle = p.c6; f.c11_serial = serial; f.national = p.national;
				if (p.c5 || p.c6) f.c7_suppress_header = false;
				send(tx::header(p.mag, p.page, p.sub, f, p.header));
				if ((rc = complete(p.mag))) break;
				// (serial mode: a header of another magazine MAY complete the page earlier; it is checked at the next header of its own magazine)
				if (rc) break;
				Open &n = open[p.mag];
				n.active = true; n.pgno = pgno; n.subno = p.sub; n.ev_at = events.size(); n.erase = f.c4_erase;
				auto it = model.find((pgno << 16) | p.sub);
				if (!f.c4_erase && it != model.end()) n.st = it->second;
				else { memset(&n.st, 0, sizeof n.st); }
				memcpy(n.st.header, p.header, 32); n.st.national = p.national; n.st.c5 = p.c5; n.st.c6 = p.c6;
				qq.header_sent = true; qq.ri = 0;
				if (last_emit_mag && last_emit_mag != p.mag) nt_interleave = true;
				last_emit_mag = p.mag;
				r.say("cycle %u: header %x.%x national %u%s%s%s\n", cyc, pgno, p.sub, p.national, f.c4_erase ? " erase" : "", p.c5 ? " newsflash" : "", p.c6 ? " subtitle" : "");
				continue;
			}
			std::vector<int> &ord = order[qq.pgs[qq.pi]];
			if (qq.ri < ord.size()) {
				int y = ord[qq.ri++];
				send(tx::row(p.mag, (unsigned) y, p.row[y]));
				Open &o = open[p.mag];
				if (o.active) { o.st.have[y] = true; memcpy(o.st.row[y], p.row[y], 40); }
				if (last_emit_mag != p.mag) nt_interleave = true;
				last_emit_mag = p.mag;
				if (r.verbose && y <= 23) r.say("  %x row %d: %s\n", pgno, y, hex(p.row[y], 40).c_str());
				continue;
			}
			if (p.have_x27 && qq.ri == ord.size()) {
				++qq.ri;
				send(tx::x27(p.mag, 0, p.link_pg, p.link_sub, 0x0F));
				Open &o = open[p.mag];
				if (o.active) { o.st.have_x27 = true; memcpy(o.st.link_pg, p.link_pg, sizeof p.link_pg); memcpy(o.st.link_sub, p.link_sub, sizeof p.link_sub); }
				continue;
			}
			// page done; next page of this magazine
			qq.header_sent = false; ++qq.pi;
			if (qq.pi >= qq.pgs.size()) --live;
			if (s.chance(1, 6)) {	// time filling header
				tx::HeaderFlags ff; ff.c11_serial = serial; uint8_t txt[32]; memset(txt, 0x20, 32);
				send(tx::header(p.mag, 0xFF, 0x3F7F, ff, txt));
				if ((rc = complete(p.mag))) break;
			}
		}
		// end of cycle: a time filling header in every magazine terminates what is still open
		for (unsigned m = 1; m <= 8 && !rc; ++m) if (open[m].active) {
			tx::HeaderFlags ff; ff.c11_serial = serial; uint8_t txt[32]; memset(txt, 0x20, 32);
			send(tx::header(m, 0xFF, 0x3F7F, ff, txt));
			rc = complete(m);
		}
	}
	flush_frame();
	g_events = nullptr;
	vbi_decoder_delete(dec);
	if (rc) return rc;
	r.nontrivial = (nt_interleave || nt_noerase) && interacting;
	if (nt_interleave) r.cls("magazines-interleaved");
	if (nt_noerase) r.cls("noerase-retransmission-changed+omitted");
	if (interacting) r.cls("interacting-attributes");
	r.cls(serial ? "serial" : "parallel");
	return 0;
}

void vf_defaults(bool thorough, uint64_t *cases, size_t *max_size) { *cases = thorough ? 1500000 : 40000; *max_size = 12000; }
