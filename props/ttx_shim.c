/* helpers that need the private headers (cache-priv.h, vbi.h), shared by the Teletext properties */
#include "site_def.h"
#ifdef HAVE_CONFIG_H
#  include "config.h"
#endif
#include <string.h>
#include <stdio.h>
#include "src/version.h"
#include "src/event.h"
#include "src/cache-priv.h"
#include "src/vbi.h"
#include "ttx_shim.h"

int ttxshim_list_pages(void *decoder, int *pgno, int *subno, int max)
{
	vbi_decoder *vbi = (vbi_decoder *) decoder;
	vbi_cache *ca = vbi->ca;
	int n = 0;
	unsigned int i;

	for (i = 0; i < HASH_SIZE; ++i) {
		cache_page *cp, *cp1;
		FOR_ALL_NODES (cp, cp1, &ca->hash[i], hash_node) {
			if (cp->network != vbi->cn)
				continue;
			if (n < max) { pgno[n] = cp->pgno; subno[n] = cp->subno; }
			++n;
		}
	}
	return n;
}
