// C01 - Service decoder survives every input: no crash, abort, hang, bad access or leak.
// Operation lists over one vbi_decoder: semi-valid Teletext / Caption / XDS / ITV trigger / VPS / WSS lines (protocol valid
// material first, then corruption) interleaved with every read side call; oracle = ASan / UBSan / assert / watchdog, bounded
// allocation while running, allocation back at the baseline after vbi_decoder_delete().
#include "../engine/engine.h"
#include "../models/ttx_gen.h"
#include "../models/bsd_enc.h"
#include "../models/ttx_l25.h"
#include "ttx_shim.h"
#include <set>
extern "C" {
#include "src/libzvbi.h"
size_t __sanitizer_get_current_allocated_bytes(void) __attribute__((weak));
void __sanitizer_print_memory_profile(size_t, size_t) __attribute__((weak));
}

const char *vf_prop_id = "C01";
const char *vf_rule =
	"operation list of up to ~400 operations on one decoder: feed 1-8 sliced lines (Teletext packets with valid address: headers incl. MIP / MOT / BTT / trigger / hex / "
	"time filling pages and subcodes >= 0x100, text rows, X/26 with every triplet mode incl. object invocations and DRCS, X/27/0-5, X/28/0-4, M/29, 8/30, POP / DRCS / AIT "
	"style bodies of Hamming coded bytes; Caption pairs from the command grammar, XDS packets incl. odd and over-long ones, ITV trigger strings with checksum on T2, EACEM "
	"triggers on page 1E7; VPS, WSS 625, WSS CPR-1204, unknown ids; then k random byte corruptions or 42 random bytes), time steps (regular, zero, jumps, backwards), and "
	"read side calls (fetch at all levels / rows / navigation, caption fetch, classify, title, link and home resolution, is_cached, hi_subno, every export module to memory, "
	"print, draw into exactly sized canvases, search with literals and regexes incl. cancelling, channel switch, handler (un)registration, region / level / brightness setters). "
	"Non-trivial: a page was cached or a caption character placed and a read side call returned TRUE on it; distinct = hash of consumed choices.";

using namespace vf;

static unsigned g_events, g_ttx_pages, g_cc_events;
static void on_event(vbi_event *e, void *) { ++g_events; if (e->type == VBI_EVENT_TTX_PAGE) ++g_ttx_pages; if (e->type == VBI_EVENT_CAPTION) ++g_cc_events; }
static void on_event2(vbi_event *, void *) { ++g_events; }
static int g_progress_left;
static int on_progress(vbi_page *) { return g_progress_left-- > 0; }

struct St {
	Src &s; Report &r; vbi_decoder *dec; double t; unsigned ttx_lines = 0; size_t base = 0;
	std::vector<unsigned> recent;	// recently sent page numbers
	bool read_ok = false;
	St(Src &s_, Report &r_) : s(s_), r(r_), dec(nullptr), t(100.0) {}
};

static unsigned gen_pgno(St &st) {
	Src &s = st.s;
	switch (s.pick(8)) {
	case 0: { static const unsigned sp[] = {0x1F0, 0x1E7, 0x1FD, 0x1FE, 0x2FD, 0x2FE, 0x1FF, 0x100, 0x8FE, 0x1DF, 0x1E0}; return sp[s.pick(11)]; }
	case 1: if (!st.recent.empty()) return st.recent[s.pick((uint32_t) st.recent.size())]; /* fall through */
	case 2: return 0x100 + s.pick(0x800);
	default: return ((1 + s.pick(8)) << 8) | (s.pick(10) << 4) | s.pick(10);
	}
}
static unsigned gen_subcode(Src &s) { switch (s.pick(5)) { case 0: return 0; case 1: return s.pick(0x7A); case 2: return 0x3F7F; case 3: return s.u16() & 0x3F7F; default: return 1 + s.pick(9); } }

static unsigned ham_rand_byte(Src &s) { return enc::ham8(s.pick(16)); }

// one Teletext packet from the semi-valid builder
static void gen_ttx(St &st, uint8_t out[42]) {
	Src &s = st.s;
	unsigned mag = 1 + s.pick(8);
	unsigned kind = s.pick(16);
	tx::Packet p; memset(p.b, 0, 42);
	switch (kind) {
	case 0: case 1: case 2: {	// header
		unsigned pgno = gen_pgno(st); mag = pgno >> 8;
		tx::HeaderFlags f; f.c4_erase = s.chance(1, 2); f.c5_newsflash = s.chance(1, 8); f.c6_subtitle = s.chance(1, 8); f.c7_suppress_header = s.chance(1, 8); f.c8_update = s.chance(1, 8);
		f.c9_interrupted = s.chance(1, 8); f.c10_inhibit = s.chance(1, 8); f.c11_serial = s.chance(1, 3); f.national = s.pick(8);
		uint8_t txt[32]; for (int i = 0; i < 32; ++i) txt[i] = (uint8_t) s.range(0x20, 0x7F);
		if (s.chance(1, 2)) { char b[8]; snprintf(b, sizeof b, "%03X", pgno & 0xFFF); memcpy(txt + 4, b, 3); }
		p = tx::header(mag, pgno & 0xFF, gen_subcode(s), f, txt);
		st.recent.push_back(pgno); if (st.recent.size() > 8) st.recent.erase(st.recent.begin());
		break; }
	case 3: case 4: case 5: {	// text row
		uint8_t row[40]; bool d; ttxgen::gen_row(s, row, s.pick(4), &d);
		if (s.chance(1, 6)) { const char *u = s.chance(1, 2) ? "www.example.com/a?b=c " : " someone@example.org 123/4 "; memcpy(row + s.pick(12), u, strlen(u)); }
		if (s.chance(1, 8)) { int n = 1 + (int) s.pick(39); for (int i = 0; i < n; ++i) row[i] = (uint8_t) s.range(0x30, 0x39); }
		p = tx::row(mag, 1 + s.pick(25), row); break; }
	case 6: {	// POP / DRCS / AIT / MOT / BTT style body: Hamming 8/4 coded bytes
		enc::address(p.b, mag, 1 + s.pick(25)); for (int i = 2; i < 42; ++i) p.b[i] = (uint8_t) ham_rand_byte(s);
		if (s.chance(1, 2)) for (int i = 2 + (int) s.pick(20); i < 42; ++i) p.b[i] = enc::par((uint8_t) s.range(0x20, 0x7F));
		break; }
	case 7: case 8: {	// X/26 .. triplets incl. object invocation, DRCS, termination
		unsigned t[13];
		for (auto &x : t) {
			unsigned addr = s.chance(1, 2) ? s.pick(40) : 40 + s.pick(24);
			unsigned mode = s.pick(32), data = s.pick(128);
			if (s.chance(1, 6)) { addr = 40 + s.pick(24); mode = 0x11 + s.pick(3); }	// object invocation
			if (s.chance(1, 10)) { addr = 63; mode = 0x1F; }
			x = addr | mode << 6 | data << 11;
		}
		p = tx::triplets(mag, 26, s.chance(1, 8) ? s.pick(16) : s.pick(3), t); break; }
	case 9: {	// X/27/0..3 links or X/27/4-5 triplets
		if (s.chance(2, 3)) { unsigned pg[6], sc[6]; for (int i = 0; i < 6; ++i) { pg[i] = gen_pgno(st); sc[i] = gen_subcode(s); } p = tx::x27(mag, s.pick(4), pg, sc, s.pick(16)); }
		else { unsigned t[13]; for (auto &x : t) x = s.u32() & 0x3FFFF; p = tx::triplets(mag, 27, 4 + s.pick(2), t); }
		break; }
	case 10: case 11: {	// X/28/0..4, M/29/0..4
		unsigned t[13]; for (auto &x : t) x = s.u32() & 0x3FFFF;
		if (s.chance(1, 2)) t[0] &= ~0x7Fu;
		p = tx::triplets(mag, s.chance(1, 2) ? 28 : 29, s.pick(5), t); break; }
	case 12: {	// 8/30
		if (s.chance(1, 2)) { bsd::base_830(p.b, 0); bsd::enc_8301(p.b, s.u16(), s.pick(64), 40000 + s.pick(30000), s.pick(30), s.pick(70), s.pick(70)); }
		else { bsd::base_830(p.b, 2); bsd::F2 f = { s.pick(4), s.pick(2), s.pick(2), s.pick(4), s.pick(2), 0, s.u16(), s.u32() & 0xFFFFF, s.u8() }; bsd::enc_8302(p.b, f); }
		if (s.chance(1, 4)) p.b[2] = enc::ham8(s.pick(16));
		for (int i = 22; i < 42; ++i) p.b[i] = enc::par((uint8_t) s.range(0x20, 0x7F));
		break; }
	case 13: {	// EACEM trigger text for page 1E7
		char buf[64]; int n = snprintf(buf, sizeof buf, "<http://%c.tv/%u>[n:%c%c][%s:%u]%s", 'a' + (int) s.pick(26), s.pick(100), 'A' + (int) s.pick(26), 'a' + (int) s.pick(26),
			s.chance(1, 2) ? "countdown" : "e", s.pick(100000), s.chance(1, 3) ? "[delete]" : "");
		uint8_t row[40]; memset(row, 0x20, 40); memcpy(row, buf, (size_t) std::min(n, 40));
		p = tx::row(1, 1 + s.pick(23), row); break; }
	case 14: {	// packets 30 / 31 of other channels (independent data lines)
		enc::address(p.b, mag, 30 + s.pick(2)); for (int i = 2; i < 42; ++i) p.b[i] = s.chance(1, 2) ? (uint8_t) ham_rand_byte(s) : s.u8(); break; }
	default: for (int i = 0; i < 42; ++i) p.b[i] = s.u8(); break;
	}
	unsigned k = s.chance(1, 3) ? 1 + s.pick(4) : 0;
	for (unsigned i = 0; i < k; ++i) { if (s.chance(1, 2)) p.b[s.pick(42)] ^= (uint8_t)(1 << s.pick(8)); else p.b[s.pick(42)] = s.u8(); }
	memcpy(out, p.b, 42);
}

// A consistent Level 2.5 / 3.5 neighbourhood in one magazine: MOT page with POP and DRCS links, a POP page (pointer tables and object
// definitions), a DRCS page, and a normal page whose X/26 invokes objects and DRCS characters - what enhance() and the DRCS code need to run.
static uint8_t par7(unsigned c) { return enc::par((uint8_t) c); }

// caption byte pairs for one field; returns pairs appended to `out`
static void gen_cc(St &st, std::vector<std::pair<uint8_t, uint8_t>> &out) {
	Src &s = st.s;
	unsigned kind = s.pick(10);
	auto ctrl = [&](unsigned b1, unsigned b2, bool twice) { out.push_back({ par7(b1), par7(b2) }); if (twice) out.push_back({ par7(b1), par7(b2) }); };
	unsigned ch = s.pick(2) << 3;
	switch (kind) {
	case 0: ctrl(0x14 | ch, 0x20 + s.pick(16), s.chance(3, 4)); break;	// misc control: RCL BS AOF AON DER RU2-4 FON RDC TR RTD EDM CR ENM EOC
	case 1: ctrl(0x10 + s.pick(8) + ch, 0x40 + s.pick(64), s.chance(3, 4)); break;	// PAC
	case 2: ctrl(0x11 | ch, 0x20 + s.pick(16), true); break;	// mid row
	case 3: ctrl(0x11 + s.pick(3) + ch, 0x30 + s.pick(16), true); break;	// special / extended characters
	case 4: ctrl(0x17 | ch, 0x21 + s.pick(3), true); break;	// tab offsets
	case 5: case 6: { unsigned n = 1 + s.pick(16); for (unsigned i = 0; i < n; ++i) out.push_back({ par7(s.range(0x20, 0x7F)), par7(s.chance(1, 6) ? 0 : s.range(0x20, 0x7F)) }); break; }
	case 7: {	// XDS packet: class/type, payload of any length incl. odd and too long, checksum right or wrong
		unsigned cls = 1 + s.pick(14), type = s.pick(0x80), n = s.chance(1, 4) ? 30 + s.pick(12) : s.pick(33);
		unsigned sum = cls + type;
		out.push_back({ par7(cls), par7(type) });
		for (unsigned i = 0; i < n; i += 2) { unsigned a = s.range(0x20, 0x7F), b = (i + 1 < n) ? s.range(0x20, 0x7F) : 0; if (s.chance(1, 12)) b = 0; out.push_back({ par7(a), par7(b) }); sum += a + b; if (s.chance(1, 16)) out.push_back({ par7(0x14), par7(0x2C) }); if (s.chance(1, 16)) out.push_back({ par7(cls + 1), par7(type) }); }
		sum += 0x0F; unsigned ck = (0x80 - (sum & 0x7F)) & 0x7F; if (s.chance(1, 4)) ck ^= 1 + s.pick(0x7E);
		out.push_back({ par7(0x0F), par7(ck) });
		break; }
	case 8: {	// ITV trigger on T2: text restart, string, carriage return
		char buf[96]; int n = snprintf(buf, sizeof buf, "<http://tv.%c.com/%u>[t:p][n:%c%c][e:%u]", 'a' + (int) s.pick(26), s.pick(1000), 'A' + (int) s.pick(26), 'b', 20000101 + s.pick(300000));
		unsigned sum = 0; for (int i = 0; i + 1 < n; i += 2) sum += ((unsigned)(uint8_t) buf[i] << 8) + (uint8_t) buf[i + 1]; if (n & 1) sum += (unsigned)(uint8_t) buf[n - 1] << 8;
		while (sum >> 16) sum = (sum & 0xFFFF) + (sum >> 16);
		unsigned ck = ~sum & 0xFFFF; if (s.chance(1, 4)) ck ^= 1 + s.pick(0xFFFF);
		n += snprintf(buf + n, sizeof buf - (size_t) n, "[%04X]", ck);
		ctrl(0x15, 0x2A, true);	// text restart, channel T2 (field 1, second channel)
		for (int i = 0; i < n; i += 2) out.push_back({ par7((uint8_t) buf[i]), par7(i + 1 < n ? (uint8_t) buf[i + 1] : 0) });
		ctrl(0x15, 0x2D, true);	// carriage return
		break; }
	default: { unsigned n = 1 + s.pick(6); for (unsigned i = 0; i < n; ++i) out.push_back({ s.u8(), s.u8() }); break; }
	}
}

static const char *REGEX[] = { "a", "[0-9]+", "(ab|cd)*e", ".", "\\.", "x?y+z*", "[^a-z]", "^A", "z$", "\\x41", "[[:digit:]]", "((((a))))", "a|", "[z-a]", "*a", "\\p1,2", "[", "(", "A{2}" };

static int read_side(St &st) {
	Src &s = st.s; vbi_decoder *dec = st.dec;
	unsigned op = s.pick(18);
	st.r.say("  read op %u\n", op);
	switch (op) {
	case 0: case 1: case 2: {
		vbi_page pg; unsigned pgno = s.chance(1, 2) ? gen_pgno(st) : (s.chance(1, 2) ? 0x900 : s.u16());
		int subno = s.chance(1, 2) ? VBI_ANY_SUBNO : (int) gen_subcode(s);
		int level = (int) s.pick(5); static const vbi_wst_level LV[] = { VBI_WST_LEVEL_1, VBI_WST_LEVEL_1p5, VBI_WST_LEVEL_2p5, VBI_WST_LEVEL_3p5, VBI_WST_LEVEL_3p5 };
		if (vbi_fetch_vt_page(dec, &pg, (vbi_pgno) pgno, subno, LV[level], (int) s.pick(27), s.chance(1, 2))) {
			st.read_ok = true;
			for (int i = 0; i < pg.rows * pg.columns; ++i) if (pg.text[i].foreground >= 40 || pg.text[i].background >= 40) { int fg = pg.text[i].foreground, bg = pg.text[i].background; vbi_unref_page(&pg); return st.r.fail("C01:fetched-page-colour-index-out-of-range", "page %x level %d cell %d: foreground %d background %d, the colour map has 40 entries", pgno, level, i, fg, bg); }
			// follow-up calls on the fetched page
			unsigned what = s.pick(8);
			if (what == 0) { vbi_link ld; vbi_resolve_link(&pg, (int) s.pick((uint32_t) pg.columns), (int) s.pick((uint32_t)(pg.rows ? pg.rows : 1)), &ld); }
			else if (what == 1) { vbi_link ld; vbi_resolve_home(&pg, &ld); }
			else if (what == 2) { char buf[4096]; vbi_print_page(&pg, buf, (int) s.pick(sizeof buf), s.chance(1, 2) ? "UTF-8" : "ISO-8859-1", s.chance(1, 2), s.chance(1, 2)); }
			else if (what == 3 && pg.rows > 0 && pg.columns > 0) {
				int col = (int) s.pick((uint32_t) pg.columns), row = (int) s.pick((uint32_t) pg.rows), w = 1 + (int) s.pick((uint32_t)(pg.columns - col)), h = 1 + (int) s.pick((uint32_t)(pg.rows - row));
				bool pal = s.chance(1, 4); size_t bpp = pal ? 1 : 4; size_t stride = (size_t) w * 12 * bpp;
				uint8_t *canvas = (uint8_t *) malloc(stride * (size_t) h * 10);
				vbi_draw_vt_page_region(&pg, pal ? VBI_PIXFMT_PAL8 : VBI_PIXFMT_RGBA32_LE, canvas, (int) stride, col, row, w, h, s.chance(1, 2), s.chance(1, 2));
				free(canvas);
			} else if (what == 4) {	// every export module to memory
				vbi_export_info *xi = vbi_export_info_enum((int) s.pick(8));
				if (xi) { vbi_export *e = vbi_export_new(xi->keyword, nullptr); if (e) {
					if (s.chance(1, 2)) vbi_export_option_set(e, "reveal", (int) s.pick(2));
					void *buf = nullptr; size_t sz = 0; if (vbi_export_alloc(e, &buf, &sz, &pg)) free(buf);
					if (s.chance(1, 3)) { uint8_t small[64]; vbi_export_mem(e, small, s.pick(65), &pg); }
					vbi_export_delete(e); } }
			} else if (what == 5) { char buf[256]; vbi_print_page_region(&pg, buf, (int) s.pick(sizeof buf), "UTF-8", s.chance(1, 2), 0, (int) s.pick(41), (int) s.pick(25), 1 + (int) s.pick(41), 1 + (int) s.pick(25)); }
			vbi_unref_page(&pg);
		}
		break; }
	case 3: {
		vbi_page pg; int ch = (int) s.pick(10);
		if (vbi_fetch_cc_page(dec, &pg, ch, s.chance(1, 2))) {
			st.read_ok = true;
			if (s.chance(1, 2) && pg.rows > 0 && pg.columns > 0) { size_t stride = (size_t) pg.columns * 16 * 4; uint8_t *cv = (uint8_t *) malloc(stride * (size_t) pg.rows * 26); vbi_draw_cc_page_region(&pg, VBI_PIXFMT_RGBA32_LE, cv, (int) stride, 0, 0, pg.columns, pg.rows); free(cv); }
			if (s.chance(1, 3)) { vbi_export *e = vbi_export_new(s.chance(1, 2) ? "text" : "html", nullptr); if (e) { void *b = nullptr; size_t z = 0; if (vbi_export_alloc(e, &b, &z, &pg)) free(b); vbi_export_delete(e); } }
		}
		break; }
	case 4: { vbi_subno sub = 0; char *lang = nullptr; vbi_classify_page(dec, (vbi_pgno) gen_pgno(st), &sub, &lang); break; }
	case 5: { char buf[64]; vbi_page_title(dec, (int) gen_pgno(st), (int) gen_subcode(s), buf); break; }
	case 6: vbi_is_cached(dec, (int) gen_pgno(st), (int) gen_subcode(s)); break;
	case 7: vbi_cache_hi_subno(dec, (int) gen_pgno(st)); break;
	case 8: case 9: {
		uint16_t pat[32]; unsigned n = 0; bool regex = s.chance(1, 2);
		if (regex) { const char *p = REGEX[s.pick(sizeof REGEX / sizeof *REGEX)]; for (; p[n] && n < 30; ++n) pat[n] = (uint8_t) p[n]; }
		else { n = 1 + s.pick(6); for (unsigned i = 0; i < n; ++i) pat[i] = (uint16_t) s.range(0x20, 0x7E); }
		pat[n] = 0;
		vbi_search *sr = vbi_search_new(dec, (vbi_pgno) gen_pgno(st), s.chance(1, 2) ? VBI_ANY_SUBNO : (int) gen_subcode(s), pat, s.chance(1, 2), regex, s.chance(1, 2) ? on_progress : nullptr);
		if (sr) { unsigned k = 1 + s.pick(6); for (unsigned i = 0; i < k; ++i) { vbi_page *pg = nullptr; g_progress_left = (int) s.pick(8); int rc = vbi_search_next(sr, &pg, s.chance(1, 4) ? -1 : 1); if (rc == VBI_SEARCH_SUCCESS) st.read_ok = true; } vbi_search_delete(sr); }
		break; }
	case 10: vbi_channel_switched(dec, 0); break;
	case 11: vbi_set_brightness(dec, (int) s.pick(256)); vbi_set_contrast(dec, (int) s.pick(256) - 128); break;
	case 12: vbi_teletext_set_default_region(dec, (int) s.pick(100)); break;
	case 13: vbi_teletext_set_level(dec, (int) s.pick(6)); break;
	case 14: if (s.chance(1, 2)) vbi_event_handler_register(dec, (int) s.u32(), on_event2, (void *)(uintptr_t)(1 + s.pick(3))); else vbi_event_handler_unregister(dec, on_event2, (void *)(uintptr_t)(1 + s.pick(3))); break;
	case 15: { vbi_page pg; if (vbi_fetch_vt_page(dec, &pg, 0x100, VBI_ANY_SUBNO, VBI_WST_LEVEL_3p5, 25, 1)) { st.read_ok = true; vbi_unref_page(&pg); } break; }
	default: break;
	}
	return 0;
}

int vf_run_case(Src &s, Report &r) {
	St st(s, r);
	g_events = g_ttx_pages = g_cc_events = 0;
	st.dec = vbi_decoder_new();
	if (!st.dec) return 2;
	vbi_event_handler_register(st.dec, s.chance(1, 8) ? (int) s.u32() : -1, on_event, nullptr);
	st.base = __sanitizer_get_current_allocated_bytes ? __sanitizer_get_current_allocated_bytes() : 0;
	unsigned nops = 4 + s.pick(400);
	bool periodic = s.chance(1, 6);
	int rc = 0;
	std::vector<vbi_sliced> cycle;
	unsigned l25_kind = 0;
	for (unsigned op = 0; op < nops && !s.eof() && !rc; ++op) {
		unsigned what = s.pick(10);
		if (r.verbose) r.say(" op %u kind %u t=%.2f\n", op, what, st.t);
		if (what <= 5) {	// feed a frame
			std::vector<vbi_sliced> fr;
			unsigned nl = 1 + s.pick(8);
			std::vector<std::pair<uint8_t, uint8_t>> cc1, cc2;
			for (unsigned i = 0; i < nl; ++i) {
				vbi_sliced sl; memset(&sl, 0, sizeof sl);
				unsigned svc = s.pick(12);
				if (svc <= 6) { sl.id = s.chance(1, 8) ? VBI_SLICED_TELETEXT_B_L10_625 : VBI_SLICED_TELETEXT_B; sl.line = 7 + i; gen_ttx(st, sl.data); ++st.ttx_lines; }
				else if (svc <= 8) { gen_cc(st, s.chance(1, 2) ? cc1 : cc2); continue; }
				else if (svc == 9) { sl.id = VBI_SLICED_VPS; sl.line = 16; for (int k = 0; k < 13; ++k) sl.data[k] = s.u8(); if (s.chance(1, 2)) bsd::enc_vps(sl.data, s.chance(1, 2) ? 0xDC1 : s.u16() & 0xFFF, s.u32() & 0xFFFFF, s.pick(4), s.u8()); }
				else if (svc == 10) { sl.id = s.chance(1, 2) ? VBI_SLICED_WSS_625 : VBI_SLICED_WSS_CPR1204; sl.line = 23; for (int k = 0; k < 3; ++k) sl.data[k] = s.u8(); }
				else { sl.id = s.chance(1, 2) ? 0 : s.u32(); sl.line = s.u16(); for (auto &b : sl.data) b = s.u8(); }
				fr.push_back(sl);
			}
			// caption pairs go out one per frame and field
			size_t ncc = std::max(cc1.size(), cc2.size());
			bool pal = s.chance(1, 4);
			for (size_t k = 0; k < std::max<size_t>(ncc, 1); ++k) {
				std::vector<vbi_sliced> f2 = k == 0 ? fr : std::vector<vbi_sliced>();
				if (k < cc1.size()) { vbi_sliced sl; memset(&sl, 0, sizeof sl); sl.id = pal ? VBI_SLICED_CAPTION_625_F1 : VBI_SLICED_CAPTION_525_F1; sl.line = pal ? 22 : 21; sl.data[0] = cc1[k].first; sl.data[1] = cc1[k].second; f2.push_back(sl); }
				if (k < cc2.size()) { vbi_sliced sl; memset(&sl, 0, sizeof sl); sl.id = pal ? VBI_SLICED_CAPTION_625_F2 : VBI_SLICED_CAPTION_525_F2; sl.line = pal ? 335 : 284; sl.data[0] = cc2[k].first; sl.data[1] = cc2[k].second; f2.push_back(sl); }
				if (r.verbose) for (auto &x : f2) r.say("   line id 0x%x %s\n", x.id, hex(x.data, (x.id & VBI_SLICED_TELETEXT_B) ? 42 : 3).c_str());
				vbi_decode(st.dec, f2.empty() ? nullptr : f2.data(), (int) f2.size(), st.t);
				if (periodic) for (auto &x : f2) cycle.push_back(x);
				st.t += 1 / 25.0;
			}
		} else if (what == 9 && (l25_kind = s.u8()) >= 64) {	// a Level 2.5 neighbourhood, a few packets per frame: MOT + POP + DRCS with random content, or a consistent object graph
			std::vector<tx::Packet> pk; unsigned l25_page = l25_kind >= 128 ? l25::gen_l25(s, pk, &st.recent) : l25_kind >= 96 ? l25::gen_objgraph(s, pk, &st.recent) : l25_kind >= 80 ? l25::gen_eacem(s, pk) : l25::gen_top(s, pk, &st.recent);
			if (l25_kind < 128) r.cls(l25_kind >= 96 ? "level-2.5-object-graph" : l25_kind >= 80 ? "eacem-trigger-page" : "top-neighbourhood");
			size_t i = 0;
			while (i < pk.size()) {
				std::vector<vbi_sliced> f2; unsigned n = 1 + s.pick(12);
				for (unsigned k = 0; k < n && i < pk.size(); ++k, ++i) { vbi_sliced sl; memset(&sl, 0, sizeof sl); sl.id = VBI_SLICED_TELETEXT_B; sl.line = 7 + k; memcpy(sl.data, pk[i].b, 42); if (s.chance(1, 40)) sl.data[s.pick(42)] ^= (uint8_t)(1 << s.pick(8)); f2.push_back(sl); ++st.ttx_lines; }
				if (r.verbose) for (auto &x : f2) r.say("   l25 pkt %s\n", hex(x.data, 42).c_str());
				vbi_decode(st.dec, f2.data(), (int) f2.size(), st.t); st.t += 1 / 25.0;
				// (a trigger with a countdown that is repeated unchanged is a new trigger each time, it fires later: such a page is no part of the periodic broadcast whose steady state is judged)
				if (periodic && !(l25_kind >= 80 && l25_kind < 96)) for (auto &x : f2) cycle.push_back(x);
			}
			r.cls("level-2.5-neighbourhood");
			if (l25_kind >= 64 && l25_kind < 80) {	// TOP: the index page 900 (every subpage until it is empty), page titles
				for (int sub = 0; sub < 4; ++sub) { vbi_page pg; if (vbi_fetch_vt_page(st.dec, &pg, 0x900, sub, VBI_WST_LEVEL_2p5, 25, 1)) { st.read_ok = true; vbi_unref_page(&pg); } }
				char title[64]; vbi_page_title(st.dec, (int) l25_page, 0, title);
				if (!st.recent.empty()) vbi_page_title(st.dec, (int) st.recent[s.pick((uint32_t) st.recent.size())], 0, title);
			}
			for (int lv : {VBI_WST_LEVEL_2p5, VBI_WST_LEVEL_3p5}) if (s.chance(2, 3)) { vbi_page pg; if (vbi_fetch_vt_page(st.dec, &pg, (vbi_pgno) l25_page, VBI_ANY_SUBNO, (vbi_wst_level) lv, 25, 1)) {
				st.read_ok = true;
				for (int i = 0; i < pg.rows * pg.columns; ++i) if (pg.text[i].foreground >= 40 || pg.text[i].background >= 40) { vbi_unref_page(&pg); vbi_decoder_delete(st.dec); return r.fail("C01:fetched-page-colour-index-out-of-range", "page %x level %d row %d column %d: foreground %u background %u unicode %04x size %u, the colour map has 40 entries", l25_page, lv, i / pg.columns, i % pg.columns, pg.text[i].foreground, pg.text[i].background, pg.text[i].unicode, pg.text[i].size); }
				if (s.chance(1, 3)) { size_t stride = 41 * 12 * 4; uint8_t *cv = (uint8_t *) malloc(stride * 25 * 10); vbi_draw_vt_page_region(&pg, VBI_PIXFMT_RGBA32_LE, cv, (int) stride, 0, 0, pg.columns, pg.rows, 1, 1); free(cv); }
				if (s.chance(1, 3)) { vbi_export *e = vbi_export_new(s.chance(1, 2) ? "png" : "html", nullptr); if (e) { void *b = nullptr; size_t z = 0; if (vbi_export_alloc(e, &b, &z, &pg)) free(b); vbi_export_delete(e); } }
				vbi_unref_page(&pg); } }
		} else if (what == 6) {	// time
			switch (s.pick(5)) { case 0: st.t += 1 / 30.0; break; case 1: break; case 2: st.t += s.pick(1000) / 10.0; break; case 3: st.t -= s.pick(100) / 10.0; break; default: st.t = s.chance(1, 2) ? 0.0 : 1e9; break; }
		} else rc = read_side(st);
		if ((op & 15) == 15 && __sanitizer_get_current_allocated_bytes) {
			size_t now = __sanitizer_get_current_allocated_bytes();
			size_t limit = st.base + 64 * 1024 + 4096 * (size_t) st.ttx_lines + 8192 * (size_t) op;
			if (now > limit) rc = r.fail("C01:unbounded-growth", "after %u operations (%u Teletext lines) %zu bytes are allocated beyond the decoder's own %zu", op, st.ttx_lines, now - st.base, st.base);
		}
	}
	// a periodic broadcast reaches a steady state: repeating the recorded cycle twice more must not grow the allocation
	if (!rc && periodic && !cycle.empty() && cycle.size() <= 400 && __sanitizer_get_current_allocated_bytes) {
		if (r.verbose) for (auto &x : cycle) r.say("  cycle line: id 0x%x line %u %s\n", x.id, x.line, hex(x.data, (x.id & VBI_SLICED_TELETEXT_B) ? 42 : 13).c_str());
		auto replay_cycle = [&]() { for (auto &x : cycle) { vbi_sliced y = x; vbi_decode(st.dec, &y, 1, st.t); st.t += 1 / 25.0; } };
		auto dump = [&](const char *w) { if (!r.verbose) return; int pg[64], sb[64]; int n = ttxshim_list_pages(st.dec, pg, sb, 64); std::string l; for (int i = 0; i < n && i < 64; ++i) { char b[32]; snprintf(b, sizeof b, " %x.%x", pg[i], sb[i]); l += b; } r.say("  %s: %zu bytes, %d pages:%s\n", w, __sanitizer_get_current_allocated_bytes(), n, l.c_str()); };
		dump("before");
		int pg0[4], sb0[4]; int pages0 = ttxshim_list_pages(st.dec, pg0, sb0, 4);
		// every distinct header line can put at most one (page, subpage) key into the cache
		std::set<std::string> hdrs; for (auto &x : cycle) if (x.id & VBI_SLICED_TELETEXT_B) hdrs.insert(std::string((const char *) x.data, 10));
		size_t A[3]; int P[3];
		for (int k = 0; k < 3; ++k) { for (int c = 0; c < 12; ++c) replay_cycle(); A[k] = __sanitizer_get_current_allocated_bytes(); P[k] = ttxshim_list_pages(st.dec, pg0, sb0, 4); }
		dump("after 36 cycles");
		if (r.verbose && getenv("VF_MEMPROFILE") && __sanitizer_print_memory_profile) __sanitizer_print_memory_profile(100, 12);
		if (P[2] > pages0 + (int) hdrs.size()) rc = r.fail("C01:periodic-broadcast-piles-up-pages", "repeating the same %zu lines (%zu distinct Teletext packets that may be headers): %d pages cached before, %d / %d / %d after 12 / 24 / 36 repetitions", cycle.size(), hdrs.size(), pages0, P[0], P[1], P[2]);
		else if (P[0] == P[1] && P[1] == P[2] && A[2] > A[1] && A[1] > A[0]) rc = r.fail("C01:periodic-broadcast-grows", "repeating the same %zu lines with a constant number of %d cached pages: allocated bytes %zu -> %zu -> %zu after 12 / 24 / 36 repetitions", cycle.size(), P[2], A[0], A[1], A[2]);
		r.cls("periodic-broadcast-subcheck");
	}
	vbi_decoder_delete(st.dec);
	if (rc) return rc;
	r.nontrivial = (g_ttx_pages > 0 || g_cc_events > 0) && st.read_ok;
	if (g_ttx_pages) r.cls("teletext-page-cached");
	if (g_cc_events) r.cls("caption-displayed");
	if (st.read_ok) r.cls("read-side-call-succeeded");
	return 0;
}

void vf_defaults(bool thorough, uint64_t *cases, size_t *max_size) { *cases = thorough ? 5000000 : 150000; *max_size = 6000; }
