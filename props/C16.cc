// C16 - Export and rendering are faithful, bounded and independent of the output target.
// Pages come from the real decoder (Level 1 - 3.5 pages incl. a Level 2.5 neighbourhood with objects and DRCS, caption pages);
// oracles: differential over the four export targets, exactly sized heap buffers (ASan) and guard bytes, independent text
// extraction from pg->text for vbi_print_page_region, guard pixels and full-page comparison for region rendering.
#include "../engine/engine.h"
#include "../models/ttx_gen.h"
#include "../models/ttx_l25.h"
extern "C" {
#include "src/libzvbi.h"
}
#include <unistd.h>
#include <iconv.h>

const char *vf_prop_id = "C16";
const char *vf_rule =
	"page = Teletext page fetched at level 1 / 1.5 / 2.5 / 3.5 from a decoder fed with rows of the C02 grammar (double size, conceal, flash, boxes, mosaics) or with a "
	"Level 2.5 neighbourhood (MOT, POP objects, DRCS), or a caption page; then one of: (A) an export module (text, html, png, ppm, xpm, vtx ... as enumerated) with a random "
	"option vector exported to vbi_export_alloc, vbi_export_mem with buffer sizes 0 / 1 / needed-1 / needed / needed+1 / random, vbi_export_stdio and vbi_export_file; "
	"(B) vbi_print_page_region in table mode with a random region, encoding and buffer size; (C) vbi_draw_vt_page_region / vbi_draw_cc_page_region of a random region into "
	"a guarded canvas with random stride and pixel format. Non-trivial: buffer size needed-1 or needed, or a region edge next to an enlarged character, or a page with "
	"enhancement / DRCS data; distinct = hash of consumed choices.";

using namespace vf;

static void on_event(vbi_event *, void *) {}
static std::string g_tmpdir;
void vf_init() {
	const char *root = getenv("VERIF_ROOT");
	char b[512]; snprintf(b, sizeof b, "%s/build/c16-tmp-%d", root ? root : "/tmp", (int) getpid());
	g_tmpdir = b; std::string cmd = "mkdir -p " + g_tmpdir; if (system(cmd.c_str())) {}
}

static uint8_t par7(unsigned c) { return enc::par((uint8_t) c); }

// returns a fetched page in *pg (caller unrefs for Teletext); kind 0 = none
static int make_page(Src &s, vbi_decoder *dec, vbi_page *pg, bool *enhanced) {
	double t = 50.0;
	*enhanced = false;
	auto feed = [&](const std::vector<tx::Packet> &pk) { for (auto &p : pk) { vbi_sliced sl; memset(&sl, 0, sizeof sl); sl.id = VBI_SLICED_TELETEXT_B; sl.line = 7; memcpy(sl.data, p.b, 42); vbi_decode(dec, &sl, 1, t); t += 0.04; } };
	unsigned kind = s.pick(8);
	if (kind == 0) {	// caption
		std::vector<std::pair<unsigned, unsigned>> pr;
		auto ctl = [&](unsigned a, unsigned b) { pr.push_back({a, b}); pr.push_back({a, b}); };
		ctl(0x14, 0x25 + s.pick(3)); ctl(0x14, 0x70 + s.pick(16)); if (s.chance(1, 2)) ctl(0x11, 0x20 + s.pick(16));
		unsigned n = 2 + s.pick(30); for (unsigned i = 0; i < n; i += 2) pr.push_back({s.range(0x20, 0x7F), s.range(0x20, 0x7F)});
		if (s.chance(1, 2)) { ctl(0x14, 0x2D); for (unsigned i = 0; i < 6; ++i) pr.push_back({s.range(0x41, 0x5A), s.range(0x61, 0x7A)}); }
		for (auto &q : pr) { vbi_sliced sl; memset(&sl, 0, sizeof sl); sl.id = VBI_SLICED_CAPTION_525_F1; sl.line = 21; sl.data[0] = par7(q.first); sl.data[1] = par7(q.second); vbi_decode(dec, &sl, 1, t); t += 1 / 30.0; }
		return vbi_fetch_cc_page(dec, pg, 1, TRUE) ? 2 : 0;
	}
	unsigned pgno;
	std::vector<tx::Packet> pk;
	if (kind <= 2) { pgno = l25::gen_l25(s, pk); *enhanced = true; }
	else if (kind == 3) { pgno = l25::gen_objgraph(s, pk); *enhanced = true; }
	else {
		unsigned mag = 1 + s.pick(8), page = s.pick(10) << 4 | s.pick(10); pgno = mag << 8 | page;
		tx::HeaderFlags f; f.c4_erase = true; f.national = s.pick(7); f.c5_newsflash = s.chance(1, 8); f.c6_subtitle = s.chance(1, 8);
		uint8_t txt[32]; for (auto &c : txt) c = (uint8_t) s.range(0x20, 0x7E);
		pk.push_back(tx::header(mag, page, 0, f, txt));
		unsigned rich = s.pick(4);
		for (unsigned y = 1; y <= 24; ++y) if (!s.chance(1, 4)) { uint8_t row[40]; bool d; ttxgen::gen_row(s, row, rich, &d); pk.push_back(tx::row(mag, y, row)); }
		tx::HeaderFlags ff; pk.push_back(tx::header(mag, 0xFF, 0x3F7F, ff, txt));
	}
	feed(pk);
	static const vbi_wst_level LV[] = { VBI_WST_LEVEL_1, VBI_WST_LEVEL_1p5, VBI_WST_LEVEL_2p5, VBI_WST_LEVEL_3p5 };
	return vbi_fetch_vt_page(dec, pg, (vbi_pgno) pgno, VBI_ANY_SUBNO, LV[s.pick(4)], s.chance(1, 6) ? 1 + (int) s.pick(25) : 25, s.chance(1, 2)) ? 1 : 0;
}

static bool enlarged(const vbi_char &c) { return c.size != VBI_NORMAL_SIZE; }

// ---------- (A) export targets ----------
static int check_export(Src &s, Report &r, vbi_page *pg, bool *nt) {
	int nmod = 0; while (vbi_export_info_enum(nmod)) ++nmod;
	if (!nmod) return 0;
	vbi_export_info *xi = vbi_export_info_enum((int) s.pick((uint32_t) nmod));
	vbi_export *e = vbi_export_new(xi->keyword, nullptr);
	if (!e) return 0;
	std::string opts;
	for (int i = 0;; ++i) {
		vbi_option_info *oi = vbi_export_option_info_enum(e, i);
		if (!oi) break;
		if (!s.chance(1, 2)) continue;
		char b[96];
		if (oi->menu.str || oi->menu.num || oi->menu.dbl) { int ent = (int) s.pick((uint32_t)(oi->max.num + 2)); vbi_export_option_menu_set(e, oi->keyword, ent); snprintf(b, sizeof b, " %s=#%d", oi->keyword, ent); }
		else if (oi->type == VBI_OPTION_BOOL) { int v = (int) s.pick(2); vbi_export_option_set(e, oi->keyword, v); snprintf(b, sizeof b, " %s=%d", oi->keyword, v); }
		else if (oi->type == VBI_OPTION_INT) { int v = oi->min.num + (int) s.pick((uint32_t)(oi->max.num - oi->min.num + 1)); vbi_export_option_set(e, oi->keyword, v); snprintf(b, sizeof b, " %s=%d", oi->keyword, v); }
		else if (oi->type == VBI_OPTION_STRING) {
			static const char *STR[] = { "", "#", "x", "32", "0x2A", "UTF-8", "ISO-8859-1", "ASCII", "KOI8-R", "nonsense", "Station <&\"> name", "0" };
			const char *v = STR[s.pick(12)]; vbi_export_option_set(e, oi->keyword, v); snprintf(b, sizeof b, " %s='%s'", oi->keyword, v);
		} else b[0] = 0;
		opts += b;
	}
	r.say("export module %s options%s\n", xi->keyword, opts.c_str());
	int rc = 0;
	void *ref = nullptr; size_t n = 0;
	bool ok = vbi_export_alloc(e, &ref, &n, pg) != nullptr;
	if (ok && !ref) rc = r.fail("C16:alloc-null", "%s: vbi_export_alloc succeeded without a buffer", xi->keyword);
	if (!rc) {	// exporting does not change the state of the export context or the page: a second call gives the same bytes
		void *ref2 = nullptr; size_t n2 = 0; bool ok2 = vbi_export_alloc(e, &ref2, &n2, pg) != nullptr;
		if (ok2 != ok || (ok && (n2 != n || memcmp(ref, ref2, n)))) rc = r.fail("C16:repeated-export-differs", "%s%s: two vbi_export_alloc calls in a row: %s / %zu bytes, then %s / %zu bytes%s", xi->keyword, opts.c_str(), ok ? "ok" : "failed", n, ok2 ? "ok" : "failed", n2, (ok && ok2 && n == n2) ? ", content differs" : "");
		free(ref2);
	}
	// caller buffers of exactly s bytes
	static const int SZ[] = { 0, 1, -1, -2, -3, -4 };
	for (int k = 0; k < 6 && !rc; ++k) {
		size_t sz = SZ[k] >= 0 ? (size_t) SZ[k] : SZ[k] == -1 ? (n ? n - 1 : 0) : SZ[k] == -2 ? n : SZ[k] == -3 ? n + 1 : (size_t) s.pick((uint32_t)(n + 64));
		if (k >= 1 && !s.chance(2, 3)) continue;
		uint8_t *buf = (uint8_t *) malloc(sz ? sz : 1);
		memset(buf, 0xEE, sz ? sz : 1);
		ssize_t got = vbi_export_mem(e, sz ? buf : (s.chance(1, 2) ? buf : nullptr), sz, pg);
		if (ok) {
			if (got != (ssize_t) n) rc = r.fail("C16:mem-size-differs", "%s%s: vbi_export_mem with a %zu byte buffer returned %zd, vbi_export_alloc produced %zu bytes", xi->keyword, opts.c_str(), sz, got, n);
			else if (sz >= n && memcmp(buf, ref, n)) rc = r.fail("C16:mem-data-differs", "%s%s: vbi_export_mem (%zu byte buffer) and vbi_export_alloc data differ", xi->keyword, opts.c_str(), sz);
			if (sz + 1 == n || sz == n) *nt = true;
		} else if (got >= 0 && (size_t) got <= sz && sz > 0) rc = r.fail("C16:mem-succeeds-alloc-fails", "%s%s: vbi_export_alloc failed but vbi_export_mem returned %zd", xi->keyword, opts.c_str(), got);
		free(buf);
	}
	// stdio stream and file
	if (!rc) {
		char *mbuf = nullptr; size_t mlen = 0; FILE *fp = open_memstream(&mbuf, &mlen);
		bool sok = vbi_export_stdio(e, fp, pg); fclose(fp);
		if (sok != ok) rc = r.fail("C16:stdio-result-differs", "%s%s: vbi_export_stdio %s, vbi_export_alloc %s", xi->keyword, opts.c_str(), sok ? "succeeded" : "failed", ok ? "succeeded" : "failed");
		else if (ok && (mlen != n || memcmp(mbuf, ref, n))) rc = r.fail("C16:stdio-data-differs", "%s%s: stream output %zu bytes, allocated output %zu bytes%s", xi->keyword, opts.c_str(), mlen, n, mlen == n ? ", content differs" : "");
		free(mbuf);
	}
	if (!rc && s.chance(1, 2)) {
		std::string path = g_tmpdir + "/out.bin";
		bool fok = vbi_export_file(e, path.c_str(), pg);
		if (fok != ok) rc = r.fail("C16:file-result-differs", "%s%s: vbi_export_file %s, vbi_export_alloc %s", xi->keyword, opts.c_str(), fok ? "succeeded" : "failed", ok ? "succeeded" : "failed");
		else if (ok) {
			FILE *fp = fopen(path.c_str(), "rb"); std::vector<uint8_t> d;
			if (fp) { uint8_t b[4096]; size_t k; while ((k = fread(b, 1, sizeof b, fp)) > 0) d.insert(d.end(), b, b + k); fclose(fp); }
			if (d.size() != n || memcmp(d.data(), ref, n)) rc = r.fail("C16:file-data-differs", "%s%s: file holds %zu bytes, allocated output %zu bytes%s", xi->keyword, opts.c_str(), d.size(), n, d.size() == n ? ", content differs" : "");
		}
		unlink(path.c_str());
	}
	free(ref);
	vbi_export_delete(e);
	r.cls(std::string("export:") + xi->keyword);
	return rc;
}

// ---------- (B) vbi_print_page_region, table mode ----------
static int check_print(Src &s, Report &r, vbi_page *pg, bool *nt) {
	if (pg->columns <= 0 || pg->rows <= 0) return 0;
	int col = (int) s.pick((uint32_t) pg->columns), row = (int) s.pick((uint32_t) pg->rows);
	int w = 1 + (int) s.pick((uint32_t)(pg->columns - col)), h = 1 + (int) s.pick((uint32_t)(pg->rows - row));
	static const char *ENC[] = { "UTF-8", "ISO-8859-1", "ASCII", "UCS-2LE" };
	const char *encn = ENC[s.pick(3)];
	// expected characters from pg->text: graphics, DRCS and covered cells become spaces (documentation of the function)
	std::vector<unsigned> exp;
	for (int y = row; y < row + h; ++y) {
		for (int x = col; x < col + w; ++x) {
			const vbi_char &c = pg->text[y * pg->columns + x];
			unsigned u = c.unicode;
			if (c.size == VBI_OVER_TOP || c.size == VBI_OVER_BOTTOM || c.size == VBI_DOUBLE_HEIGHT2 || c.size == VBI_DOUBLE_SIZE2) u = 0x20;
			if (u >= 0xE600) u = 0x20;	// graphics, DRCS and the other private codes
			exp.push_back(u);
		}
		if (y + 1 < row + h) exp.push_back('\n');
	}
	size_t need_max = exp.size() * 4 + 16;
	int size = s.chance(1, 2) ? (int) need_max : (int) s.pick((uint32_t) need_max);
	if (s.chance(1, 3)) {	// exactly the bytes of the first k rows (the row separator is the next byte), or one byte more or less
		auto enc_len = [&](unsigned u) -> size_t { if (strcmp(encn, "UTF-8")) return 1; return u < 0x80 ? 1 : u < 0x800 ? 2 : 3; };
		size_t k = 1 + s.pick((uint32_t) h), bytes = 0, rows = 0;
		for (size_t i = 0; i < exp.size() && rows < k; ++i) { if (exp[i] == '\n') { if (++rows == k) break; bytes += 1; } else bytes += enc_len(exp[i]); }
		size = (int) bytes + (int) s.pick(3) - 1; if (size < 0) size = 0;
		*nt = true;
	}
	char *buf = (char *) malloc(size > 0 ? (size_t) size : 1);	// exactly sized: one byte written behind it is an ASan report
	int got = vbi_print_page_region(pg, buf, size, encn, TRUE, 0, col, row, w, h);
	int rc = 0;
	if (got < 0 || got > size) rc = r.fail("C16:print-size", "vbi_print_page_region returned %d for a buffer of %d bytes", got, size);
	else if (got > 0) {
		// convert back
		iconv_t cd = iconv_open("UCS-4LE", encn);
		std::vector<unsigned> out((size_t) got + 4);
		char *ip = buf; size_t il = (size_t) got; char *op = (char *) out.data(); size_t ol = out.size() * 4;
		size_t res = iconv(cd, &ip, &il, &op, &ol); iconv_close(cd);
		size_t nout = out.size() - ol / 4;
		if (res == (size_t) -1) rc = r.fail("C16:print-encoding", "vbi_print_page_region output is not valid %s", encn);
		else {
			// a character the encoding cannot represent is replaced by a space
			auto representable = [&](unsigned u) { if (!strcmp(encn, "UTF-8")) return true; if (!strcmp(encn, "ASCII")) return u < 0x80; return u < 0x100; };
			if (nout != exp.size()) rc = r.fail("C16:print-length", "region %d,%d %dx%d in %s: %zu characters printed, the region has %zu (rows x columns + line feeds)", col, row, w, h, encn, nout, exp.size());
			else for (size_t i = 0; i < nout; ++i) {
				unsigned want = representable(exp[i]) ? exp[i] : 0x20;
				if (out[i] != want) { rc = r.fail("C16:print-character", "region %d,%d %dx%d in %s: character %zu is U+%04X, the page cell holds U+%04X (expected U+%04X)", col, row, w, h, encn, i, out[i], exp[i], want); break; }
			}
			if ((int) need_max == size) *nt = *nt || false;
		}
	} else if (size >= (int) need_max) rc = r.fail("C16:print-failed", "vbi_print_page_region failed with a buffer of %d bytes for %zu characters in %s", size, exp.size(), encn);
	free(buf);
	r.cls("print-region");
	return rc;
}

// ---------- (C) region rendering ----------
static int check_draw(Src &s, Report &r, vbi_page *pg, bool teletext, bool *nt) {
	if (pg->columns <= 0 || pg->rows <= 0) return 0;
	const int CW = teletext ? 12 : 16, CH = teletext ? 10 : 26;
	int col = (int) s.pick((uint32_t) pg->columns), row = (int) s.pick((uint32_t) pg->rows);
	int w = 1 + (int) s.pick((uint32_t)(pg->columns - col)), h = 1 + (int) s.pick((uint32_t)(pg->rows - row));
	unsigned fsel = s.pick(6);
	vbi_pixfmt fmt = fsel <= 2 ? VBI_PIXFMT_RGBA32_LE : fsel <= 4 ? VBI_PIXFMT_PAL8 : (vbi_pixfmt)(s.chance(1, 2) ? VBI_PIXFMT_YUV420 : VBI_PIXFMT_RGB24);
	bool supported = fmt == VBI_PIXFMT_RGBA32_LE || fmt == VBI_PIXFMT_PAL8;
	size_t bpp = fmt == VBI_PIXFMT_PAL8 ? 1 : 4;
	const int G = 3;	// guard pixels around the region
	size_t pw = (size_t)(w * CW + 2 * G + (int) s.pick(8)), ph = (size_t)(h * CH + 2 * G);
	// one region in six is drawn with rowstride -1, documented as "pg->columns * character width * bytes per pixel": a canvas as wide as the page
	bool def_stride = s.chance(1, 6);
	int Gx = G; if (def_stride) { pw = (size_t)(pg->columns * CW); Gx = 0; }
	size_t stride = pw * bpp;
	int stride_arg = def_stride ? -1 : (int) stride;
	std::vector<uint8_t> cv(stride * ph, 0xA7);
	uint8_t *origin = cv.data() + (size_t) G * stride + (size_t) Gx * bpp;
	int reveal = (int) s.pick(2), flash = (int) s.pick(2);
	if (teletext) vbi_draw_vt_page_region(pg, fmt, origin, stride_arg, col, row, w, h, reveal, flash);
	else vbi_draw_cc_page_region(pg, fmt, origin, stride_arg, col, row, w, h);
	int rc = 0;
	for (size_t y = 0; y < ph && !rc; ++y) for (size_t x = 0; x < pw; ++x) {
		bool inside = supported && y >= (size_t) G && y < (size_t)(G + h * CH) && x >= (size_t) Gx && x < (size_t)(Gx + w * CW);
		if (inside) continue;
		for (size_t b = 0; b < bpp; ++b) if (cv[y * stride + x * bpp + b] != 0xA7) {
			rc = r.fail(supported ? "C16:draw-outside-region" : "C16:draw-unsupported-format", "%s region %d,%d %dx%d format %d: pixel (%zu, %zu) relative to the region origin (-%d, -%d) was written, the region is %d x %d pixels%s",
				teletext ? "Teletext" : "caption", col, row, w, h, fmt, x, y, Gx, G, w * CW, h * CH, def_stride ? " (rowstride -1)" : "");
			break;
		}
		if (rc) break;
	}
	// every pixel of the region is defined by the page: a second rendering over a different canvas content gives the same pixels
	if (!rc && supported) {
		std::vector<uint8_t> cv2(stride * ph, 0x5B);
		uint8_t *o2 = cv2.data() + (size_t) G * stride + (size_t) Gx * bpp;
		if (teletext) vbi_draw_vt_page_region(pg, fmt, o2, stride_arg, col, row, w, h, reveal, flash);
		else vbi_draw_cc_page_region(pg, fmt, o2, stride_arg, col, row, w, h);
		for (int y = 0; y < h * CH && !rc; ++y) {
			const uint8_t *a = origin + (size_t) y * stride, *b = o2 + (size_t) y * stride;
			if (memcmp(a, b, (size_t) w * CW * bpp)) { size_t x = 0; while (a[x] == b[x]) ++x; size_t cx = (size_t) col + x / bpp / CW; const vbi_char &cc = pg->text[(row + y / CH) * pg->columns + (int) cx];
				rc = r.fail("C16:region-pixel-not-drawn", "%s region %d,%d %dx%d format %d: pixel row %d byte %zu keeps the previous canvas content (cell row %d column %zu: U+%04X size %d opacity %d)", teletext ? "Teletext" : "caption", col, row, w, h, fmt, y, x, row + y / CH, cx, cc.unicode, cc.size, cc.opacity); }
		}
	}
	// same pixels as the full page rendering for regions that do not cut an enlarged character
	if (!rc && supported) {
		bool cut = false;
		for (int y = row; y < row + h; ++y) {
			const vbi_char &l = pg->text[y * pg->columns + col], &rr = pg->text[y * pg->columns + col + w - 1];
			if (l.size == VBI_OVER_TOP || l.size == VBI_OVER_BOTTOM) cut = true;
			if (rr.size == VBI_DOUBLE_WIDTH || rr.size == VBI_DOUBLE_SIZE || rr.size == VBI_DOUBLE_SIZE2) cut = true;
			if (enlarged(l) || enlarged(rr)) *nt = true;
		}
		if (!cut) {
			size_t fstride = (size_t) pg->columns * CW * bpp;
			std::vector<uint8_t> full(fstride * (size_t) pg->rows * CH, 0xA7);	// cells covered by a neighbour are not drawn: same fill as the region canvas
			if (teletext) vbi_draw_vt_page_region(pg, fmt, full.data(), (int) fstride, 0, 0, pg->columns, pg->rows, reveal, flash);
			else vbi_draw_cc_page_region(pg, fmt, full.data(), (int) fstride, 0, 0, pg->columns, pg->rows);
			for (int y = 0; y < h * CH && !rc; ++y) {
				const uint8_t *a = origin + (size_t) y * stride, *b = full.data() + ((size_t)(row * CH + y)) * fstride + (size_t) col * CW * bpp;
				// the last column of the full page is an edge of its own: skip when the region ends elsewhere but the page cell is enlarged
				if (memcmp(a, b, (size_t) w * CW * bpp)) { size_t x = 0; while (a[x] == b[x]) ++x; size_t cx = (size_t) col + x / bpp / CW; const vbi_char &cc = pg->text[(row + y / CH) * pg->columns + (int) cx];
					rc = r.fail("C16:region-differs-from-full-page", "%s region %d,%d %dx%d format %d: pixel row %d differs from the full page rendering at byte %zu (cell row %d column %zu: U+%04X size %d fg %d bg %d flash %d conceal %d; region pixel %02x full page %02x)", teletext ? "Teletext" : "caption", col, row, w, h, fmt, y, x, row + y / CH, cx, cc.unicode, cc.size, cc.foreground, cc.background, cc.flash, cc.conceal, a[x], b[x]); }
			}
		}
	}
	if (def_stride) r.cls("draw-with-default-rowstride");
	r.cls(teletext ? "draw-teletext-region" : "draw-caption-region");
	return rc;
}

int vf_run_case(Src &s, Report &r) {
	vbi_decoder *dec = vbi_decoder_new();
	if (!dec) return 2;
	vbi_event_handler_register(dec, -1, on_event, nullptr);
	vbi_page pg; bool enh = false;
	int kind = make_page(s, dec, &pg, &enh);
	int rc = 0; bool nt = false;
	if (kind) {
		unsigned nchecks = 1 + s.pick(3);
		for (unsigned i = 0; i < nchecks && !rc; ++i) {
			switch (s.pick(3)) {
			case 0: rc = check_export(s, r, &pg, &nt); break;
			case 1: rc = check_print(s, r, &pg, &nt); break;
			default: rc = check_draw(s, r, &pg, kind == 1, &nt); break;
			}
		}
		if (kind == 1) vbi_unref_page(&pg);
	}
	vbi_decoder_delete(dec);
	if (rc) return rc;
	if (!kind) return 2;
	r.nontrivial = nt || enh;
	r.cls(kind == 2 ? "page:caption" : enh ? "page:level-2.5-neighbourhood" : "page:level-1-grammar");
	return 0;
}

void vf_defaults(bool thorough, uint64_t *cases, size_t *max_size) { *cases = thorough ? 400000 : 12000; *max_size = 3000; }
