// C09 - XDS packets are delivered intact, exactly once, and only with a valid checksum.
// Part A: vbi_xds_demux fed with generated interleaved / faulted field-2 pair streams, compared with
//         the reference reassembly of models/xds_model.h; the same stream also goes through the
//         service decoder (memory safety of its own separator).
// Part B: service decoder on line 284: programme / network information events against the
//         harness-side field decoder and the "announced on the repeat, not before" rule.
#include "../engine/engine.h"
#include "../models/xds_model.h"
extern "C" {
#include "src/libzvbi.h"
}
#include <string>

const char *vf_prop_id = "C09";
const char *vf_rule =
	"part A: 1-6 XDS packets (class 0-6, type 0-0x7F, 0-40 payload bytes, right/wrong checksum, optional missing start) cut into segments, "
	"interleaved by a generated schedule with caption control/text pairs and NUL stuffing, resumed with continue codes, then 0-2 faults "
	"(dropped pair, parity flip, byte replaced); oracle = reference reassembly. part B: a station's XDS programme/network packets through "
	"vbi_decode. Non-trivial: >= 2 packets interleaved, or payload >= 31 bytes, or a fault inside a packet, or (part B) a value change followed by its repeat.";

using namespace vf;

struct Rec { unsigned cls, type, size; uint8_t buf[36]; };
struct CbCtx { std::vector<Rec> got; bool bad_nul = false; };

static vbi_bool demux_cb(vbi_xds_demux *, const vbi_xds_packet *xp, void *ud) {
	CbCtx *c = (CbCtx *) ud;
	Rec r; r.cls = xp->xds_class; r.type = xp->xds_subclass; r.size = xp->buffer_size;
	memcpy(r.buf, xp->buffer, 36);
	if (xp->buffer_size > 32 || xp->buffer[xp->buffer_size] != 0) c->bad_nul = true;
	c->got.push_back(r);
	return TRUE;
}

static bool judged(unsigned cls, unsigned type) {
	return cls <= 3 && (type <= 0x17 || (type >= 0x40 && type <= 0x47));
}

struct GenPkt {
	unsigned cls, type; std::vector<uint8_t> data; bool good_sum, no_start;
	std::vector<std::vector<uint8_t>> segs;	// pair bytes (7 bit) per segment, last segment ends with terminator
	size_t next = 0; bool started = false;
};

static unsigned gen_type(Src &s) {
	switch (s.pick(10)) {
	case 0: case 1: case 2: case 3: case 4: return s.range(1, 9);
	case 5: return s.range(0x10, 0x17);
	case 6: return s.range(0x40, 0x47);
	case 7: { static const unsigned t[] = {0x00, 0x18, 0x48, 0x17, 0x0C, 0x0D, 0x19, 0x3F, 0x7F}; return t[s.pick(9)]; }
	case 8: return s.range(0, 0x17);
	default: return s.range(0, 0x7F);
	}
}

static int part_a(Src &s, Report &r) {
	unsigned np = 1 + s.pick(6);
	std::vector<GenPkt> pk(np);
	bool long_payload = false;
	for (auto &p : pk) {
		p.cls = s.chance(1, 7) ? s.range(4, 6) : s.pick(4);
		p.type = gen_type(s);
		unsigned len;
		switch (s.pick(8)) {
		case 0: len = s.range(30, 34); break;
		case 1: len = s.range(0, 40); break;
		case 2: len = 32; break;
		default: len = s.range(1, 12);
		}
		for (unsigned i = 0; i < len; ++i) p.data.push_back((uint8_t) s.range(0x20, 0x7F));
		p.good_sum = !s.chance(1, 8);
		p.no_start = s.chance(1, 16);
		if (len >= 31) long_payload = true;
		// pairs
		std::vector<uint8_t> body;
		for (unsigned i = 0; i < len; i += 2) { body.push_back(p.data[i]); body.push_back(i + 1 < len ? p.data[i + 1] : 0); }
		unsigned npairs = body.size() / 2, nseg = 1 + s.pick(4);
		std::vector<unsigned> cuts;
		for (unsigned k = 1; k < nseg; ++k) cuts.push_back(s.range(0, npairs));
		std::sort(cuts.begin(), cuts.end());
		unsigned at = 0;
		for (unsigned k = 0; k < nseg; ++k) {
			unsigned end = k + 1 < nseg ? cuts[k] : npairs;
			std::vector<uint8_t> seg(body.begin() + at * 2, body.begin() + end * 2);
			at = end;
			p.segs.push_back(seg);
		}
		unsigned cs = xds::checksum(p.cls, p.type, p.data);
		if (!p.good_sum) cs = (cs + 1 + s.pick(126)) & 127;
		p.segs.back().push_back(0x0F); p.segs.back().push_back((uint8_t) cs);
		r.say("packet cls=%u type=%02x len=%u %s%s segs=%zu data=%s\n", p.cls, p.type, len, p.good_sum ? "" : "BADSUM ", p.no_start ? "NOSTART " : "", p.segs.size(), hex(p.data.data(), p.data.size()).c_str());
	}
	// known finding C09:A:alias-0x1n-0x4n: types 0x40-0x47 share their reassembly slot with types 0x10-0x17 of the
	// same class; excluded by construction (the later packet gets another type), counted
	bool alias_pair = false;
	for (unsigned i = 0; i < np; ++i) for (unsigned j = 0; j < i; ++j)
		if (pk[i].cls == pk[j].cls && pk[i].cls <= 3 && (pk[i].type ^ pk[j].type) == 0x50 && ((pk[i].type & 0xF8) == 0x10 || (pk[i].type & 0xF8) == 0x40)) {
			if (exclusions_on()) { pk[i].type = 0x09; ++r.excluded_known; r.say("packet %u: type changed to 09 (known alias finding excluded)\n", i); }
			else alias_pair = true;
		}
	if (exclusions_on()) for (auto &p : pk) {	// checksum and terminator depend on the type: rebuild
		unsigned cs = xds::checksum(p.cls, p.type, p.data);
		auto &last = p.segs.back();
		if (p.good_sum) last[last.size() - 1] = (uint8_t) cs;
		else if (last[last.size() - 1] == cs) last[last.size() - 1] = (uint8_t)((cs + 1) & 127);
	}
	// schedule
	std::vector<uint8_t> st;	// stream of transmitted bytes (pairs, with parity)
	int last = -1; unsigned interleaves = 0;
	auto push7 = [&](uint8_t a, uint8_t b) { st.push_back(enc::par(a)); st.push_back(enc::par(b)); };
	for (unsigned guard = 0; guard < 200; ++guard) {
		std::vector<unsigned> live;
		for (unsigned i = 0; i < np; ++i) if (pk[i].next < pk[i].segs.size()) live.push_back(i);
		if (live.empty()) break;
		unsigned what = s.pick(8);
		if (what == 6) {		// caption interruption: control pair (+ text)
			push7((uint8_t) s.range(0x10, 0x1F), (uint8_t) s.range(0x20, 0x7F));
			unsigned nt = s.pick(4);
			for (unsigned k = 0; k < nt; ++k) push7((uint8_t) s.range(0x20, 0x7F), (uint8_t) s.range(0x20, 0x7F));
			r.say("caption interruption (%u text pairs)\n", nt);
			last = -1; continue;
		}
		if (what == 7) { push7(0, 0); r.say("stuffing\n"); continue; }
		unsigned i = live[s.pick((uint32_t) live.size())];
		GenPkt &p = pk[i];
		if (!p.started) {
			if (!p.no_start) { std::vector<uint8_t> t; xds::start_pair(t, p.cls, p.type, false); st.insert(st.end(), t.begin(), t.end()); }
			else { std::vector<uint8_t> t; xds::start_pair(t, p.cls, p.type, true); st.insert(st.end(), t.begin(), t.end()); }
			p.started = true;
		} else if (last != (int) i || s.chance(1, 10)) {
			std::vector<uint8_t> t; xds::start_pair(t, p.cls, p.type, true); st.insert(st.end(), t.begin(), t.end());
		}
		if (last != (int) i && last >= 0) ++interleaves;
		const auto &seg = p.segs[p.next++];
		for (size_t k = 0; k + 1 < seg.size(); k += 2) push7(seg[k], seg[k + 1]);
		r.say("segment of packet %u (%zu pairs)\n", i, seg.size() / 2);
		last = (int) i;
	}
	// faults
	unsigned nf = s.pick(4) == 0 ? 1 + s.pick(2) : 0;
	bool fault_in_packet = false;
	for (unsigned f = 0; f < nf && st.size() >= 2; ++f) {
		unsigned kind = s.pick(3), pos = s.pick((uint32_t) st.size());
		if (kind == 0) { pos &= ~1u; st.erase(st.begin() + pos, st.begin() + pos + 2); r.say("fault: drop pair at %u\n", pos / 2); }
		else if (kind == 1) { st[pos] ^= 0x80; r.say("fault: parity flip at byte %u\n", pos); }
		else { st[pos] = enc::par(s.u8() & 0x7F); r.say("fault: replace byte %u by %02x\n", pos, st[pos]); }
		fault_in_packet = true;
	}
	r.say("stream: %s\n", hex(st.data(), st.size()).c_str());

	// faults can create the aliasing header pairs of the known finding as well: look at the stream itself
	{
		std::vector<unsigned> keys;
		for (size_t k = 0; k + 1 < st.size(); k += 2) {
			unsigned c1 = st[k] & 0x7F, c2 = st[k + 1] & 0x7F;
			if (c1 >= 1 && c1 <= 8 && ((c2 & 0xF8) == 0x10 || (c2 & 0xF8) == 0x40)) keys.push_back(((c1 - 1) >> 1) * 256 + c2);
		}
		bool al = false;
		for (auto a : keys) for (auto b2 : keys) if ((a ^ b2) == 0x50) al = true;
		if (al) {
			if (exclusions_on()) { ++r.excluded_known; r.say("discarded: fault produced an aliasing 0x1n/0x4n header pair (known finding)\n"); return 2; }
			alias_pair = true;
		}
	}
	CbCtx ctx;
	vbi_xds_demux *xd = vbi_xds_demux_new(demux_cb, &ctx);
	if (!xd) return 2;
	bool frame_api = s.chance(1, 3);
	r.cls(frame_api ? "A:feed_frame" : "A:feed");
	// one case in six resets the demultiplexer somewhere in the stream (as after a channel change): every packet in progress is forgotten
	size_t reset_at = (size_t) -1;
	if (s.chance(1, 6) && st.size() >= 4) { reset_at = 2 * (size_t) s.pick((uint32_t) (st.size() / 2)); r.cls("A:reset-in-the-stream"); }
	xds::Model m;
	for (size_t k = 0; k + 1 < st.size(); k += 2) { if (k == reset_at) m.reset(); m.feed(st[k], st[k + 1]); }
	for (size_t k = 0; k + 1 < st.size(); k += 2) {
		if (k == reset_at) vbi_xds_demux_reset(xd);
		if (frame_api) {
			vbi_sliced sl[3]; memset(sl, 0, sizeof sl);
			sl[0].id = VBI_SLICED_CAPTION_525; sl[0].line = 21; sl[0].data[0] = 0x94; sl[0].data[1] = 0x2C;	// field 1: ignored
			sl[1].id = VBI_SLICED_TELETEXT_B; sl[1].line = 284;
			sl[2].id = (k & 2) ? VBI_SLICED_CAPTION_525 : VBI_SLICED_CAPTION_525_F2; sl[2].line = (k & 4) ? 0 : 284;
			sl[2].data[0] = st[k]; sl[2].data[1] = st[k + 1];
			vbi_xds_demux_feed_frame(xd, sl, 3);
		} else {
			uint8_t b[2] = { st[k], st[k + 1] };
			vbi_xds_demux_feed(xd, b);
		}
	}
	vbi_xds_demux_delete(xd);

	// service decoder: same stream, memory safety of its separator + decoder
	{
		vbi_decoder *d = vbi_decoder_new();
		if (d) {
			auto h = [](vbi_event *, void *) {};
			vbi_event_handler_register(d, -1, h, nullptr);
			double t = 1000.0;
			for (size_t k = 0; k + 1 < st.size(); k += 2) {
				vbi_sliced sl; memset(&sl, 0, sizeof sl);
				sl.id = VBI_SLICED_CAPTION_525; sl.line = 284; sl.data[0] = st[k]; sl.data[1] = st[k + 1];
				vbi_decode(d, &sl, 1, t); t += 1 / 30.0;
			}
			vbi_decoder_delete(d);
		}
	}

	if (ctx.bad_nul) return r.fail("C09:A:terminator", "delivered packet without NUL at buffer[buffer_size] or size > 32");
	// compare judged deliveries, in order; irregular model packets are optional
	std::vector<xds::Packet> want; for (auto &p : m.delivered) if (judged(p.cls, p.type)) want.push_back(p);
	std::vector<Rec> got; for (auto &g : ctx.got) if (judged(g.cls, g.type)) got.push_back(g);
	size_t i = 0, j = 0;
	auto same = [](const xds::Packet &p, const Rec &g) { return p.cls == g.cls && p.type == g.type && p.data.size() == g.size && !memcmp(p.data.data(), g.buf, g.size); };
	while (i < want.size()) {
		if (j < got.size() && same(want[i], got[j])) { ++i; ++j; }
		else if (want[i].irregular) ++i;
		else break;
	}
	if (i < want.size() || j < got.size()) {
		std::string w, g;
		for (auto &p : want) { char b[64]; snprintf(b, sizeof b, "[%u/%02x len %zu%s]", p.cls, p.type, p.data.size(), p.irregular ? " irregular" : ""); w += b; }
		for (auto &p : got) { char b[64]; snprintf(b, sizeof b, "[%u/%02x len %u]", p.cls, p.type, p.size); g += b; }
		const char *sig = "C09:A:delivery-mismatch";
		if (alias_pair) return r.fail("C09:A:alias-0x1n-0x4n", "packets of one class with types 0x1n and 0x4n corrupt each other: reference delivers %s, demux delivered %s", w.c_str(), g.c_str());
		if (j < got.size() && i >= want.size()) sig = "C09:A:unexpected-delivery";
		else if (j >= got.size()) sig = "C09:A:missing-delivery";
		else if (want[i].cls == got[j].cls && want[i].type == got[j].type) sig = "C09:A:content-mismatch";
		return r.fail(sig, "reference delivers %s, demux delivered %s (first difference at reference #%zu / delivered #%zu)", w.c_str(), g.c_str(), i, j);
	}
	// unjudged keys: safety half - whatever is delivered under such a key must be a packet that was sent so
	for (auto &gk : ctx.got) if (!judged(gk.cls, gk.type)) {
		bool found = false;
		for (auto &p : m.delivered) if (same(p, gk)) found = true;
		if (!found) return r.fail("C09:A:corrupted-unjudged-delivery", "packet %u/%02x len %u delivered but no such packet completes in the reference", gk.cls, gk.type, gk.size);
	}
	r.nontrivial = interleaves >= 1 || long_payload || fault_in_packet;
	if (interleaves) r.cls("A:interleaved");
	if (long_payload) r.cls("A:len>=31");
	if (fault_in_packet) r.cls("A:faulted");
	r.cls("A:delivered", got.size());
	return 0;
}

// ---------------- part B ----------------
struct Ev { int type; std::string name, call, title; int lh, lm; int rauth, rid, rdlsv; };
struct BCtx { std::vector<Ev> evs; };
static void b_handler(vbi_event *e, void *ud) {
	BCtx *c = (BCtx *) ud;
	Ev v; v.type = e->type; v.lh = v.lm = v.rauth = v.rid = v.rdlsv = 0;
	if (e->type == VBI_EVENT_NETWORK) { v.name = (const char *) e->ev.network.name; v.call = (const char *) e->ev.network.call; }
	else if (e->type == VBI_EVENT_PROG_INFO) {
		vbi_program_info *pi = e->ev.prog_info;
		if (pi->future) return;
		v.title = (const char *) pi->title; v.lh = pi->length_hour; v.lm = pi->length_min;
		v.rauth = pi->rating_auth; v.rid = pi->rating_id; v.rdlsv = pi->rating_dlsv;
	} else return;
	c->evs.push_back(v);
}

struct Val { std::string s; int a = 0, b = 0, c = 0; bool operator==(const Val &o) const { return s == o.s && a == o.a && b == o.b && c == o.c; } bool operator!=(const Val &o) const { return !(*this == o); } };

static std::string gen_name(Src &s, unsigned maxlen) {
	static const char *pool[] = {"WEATHER REPORT", "WEATHER", "NEWS", "NEWS AT TEN", "PBS", "KQED", "WNET", "ABC", "SPORTS", "SPORTS EXTRA"};
	if (s.chance(2, 3)) { std::string n = pool[s.pick(10)]; if (n.size() > maxlen) n.resize(maxlen); return n; }
	unsigned len = s.range(2, maxlen); std::string n;
	n += (char) s.range(0x41, 0x5A);
	for (unsigned i = 1; i < len; ++i) n += (char) s.range(0x20, 0x7E);
	return n;
}

static int part_b(Src &s, Report &r) {
	vbi_decoder *d = vbi_decoder_new();
	if (!d) return 2;
	BCtx ctx;
	vbi_event_handler_register(d, VBI_EVENT_NETWORK | VBI_EVENT_PROG_INFO | VBI_EVENT_ASPECT | VBI_EVENT_CAPTION, b_handler, &ctx);
	double t = 5000.0;
	auto send_pair = [&](uint8_t a, uint8_t b) {
		vbi_sliced sl[2]; memset(sl, 0, sizeof sl);
		sl[0].id = VBI_SLICED_CAPTION_525; sl[0].line = 21; sl[0].data[0] = 0x80; sl[0].data[1] = 0x80;
		sl[1].id = VBI_SLICED_CAPTION_525; sl[1].line = 284; sl[1].data[0] = enc::par(a); sl[1].data[1] = enc::par(b);
		vbi_decode(d, sl, 2, t); t += 1 / 30.0;
	};
	// histories per judged kind: 0 name(2/1) 1 call(2/2) 2 title(0/3) 3 length(0/2) 4 rating(0/5)
	std::vector<Val> hist[5];
	std::vector<size_t> when[5];		// delivery index
	size_t deliveries = 0, risk_at = 0, net_reset_at = 0;	// last title delivery that may flush / last channel-switch reset by a network announcement
	size_t ev_seen = 0;
	bool change_then_repeat = false, announced = false, have_announced = false; std::string announced_name;
	int rc = 0;
	unsigned n_ops = 2 + s.pick(24);
	Val cur[5]; bool have[5] = {false, false, false, false, false};
	for (unsigned op = 0; op < n_ops && !rc; ++op) {
		unsigned kind = s.pick(7);
		unsigned cls = 0, type = 0; std::vector<uint8_t> data; Val v; int jk = -1;
		bool fresh = !s.chance(3, 5);	// default (zero byte): repeat the previous value of that kind
		switch (kind) {
		case 0: case 1: {
			jk = kind; cls = 2; type = kind == 0 ? 1 : 2;
			if (have[jk] && !fresh) v = cur[jk]; else v.s = gen_name(s, kind == 0 ? 32 : 6);
			data.assign(v.s.begin(), v.s.end());
			break;
		}
		case 2: {
			jk = 2; cls = 0; type = 3;
			if (have[jk] && !fresh) v = cur[jk]; else v.s = gen_name(s, 32);
			data.assign(v.s.begin(), v.s.end());
			break;
		}
		case 3: {
			jk = 3; cls = 0; type = 2;
			if (have[jk] && !fresh) v = cur[jk]; else { v.a = (int) s.pick(24); v.b = (int) s.pick(60); }
			data.push_back((uint8_t)(0x40 | v.b)); data.push_back((uint8_t)(0x40 | v.a));
			break;
		}
		case 4: {
			jk = 4; cls = 0; type = 5;
			if (have[jk] && !fresh) v = cur[jk];
			else {
				unsigned sys = s.pick(4);
				if (sys == 0) { v.a = VBI_RATING_AUTH_MPAA; v.b = (int) s.range(1, 7); v.c = 0; }
				else if (sys == 1) { v.a = VBI_RATING_AUTH_TV_US; v.b = (int) s.pick(8); v.c = (int) s.pick(16); }
				else if (sys == 2) { v.a = VBI_RATING_AUTH_TV_CA_EN; v.b = (int) s.pick(7); v.c = 0; }
				else { v.a = VBI_RATING_AUTH_TV_CA_FR; v.b = (int) s.pick(6); v.c = 0; }
			}
			// EIA-608 9.5.1.5: byte0 = 1 D/a2 a1 a0 r2 r1 r0, byte1 = 1 (F)V S L/a3 g2 g1 g0
			uint8_t b0 = 0x40, b1 = 0x40;
			if (v.a == VBI_RATING_AUTH_MPAA) { b0 |= v.b; }
			else if (v.a == VBI_RATING_AUTH_TV_US) {
				b0 |= 0x08; b1 |= v.b;
				if (v.c & VBI_RATING_D) b0 |= 0x20;
				if (v.c & VBI_RATING_L) b1 |= 0x08;
				if (v.c & VBI_RATING_S) b1 |= 0x10;
				if (v.c & VBI_RATING_V) b1 |= 0x20;
			} else if (v.a == VBI_RATING_AUTH_TV_CA_EN) { b0 |= 0x18; b1 |= v.b; }
			else { b0 |= 0x38; b1 |= v.b; }
			data.push_back(b0); data.push_back(b1);
			break;
		}
		case 5: {	// noise: other defined types with arbitrary content (not judged)
			cls = s.pick(2) ? 0 : 3; type = cls == 0 ? (unsigned) s.range(6, 8) : 1 + s.pick(4);
			unsigned len = type == 8 ? 1 : (cls == 3 && type == 1) ? 6 : 2;
			for (unsigned i = 0; i < len; ++i) data.push_back((uint8_t) s.range(0x40, 0x7F));
			break;
		}
		default: {	// caption traffic between packets
			send_pair((uint8_t) s.range(0x14, 0x17), (uint8_t) s.range(0x20, 0x2F));
			send_pair((uint8_t) s.range(0x20, 0x7F), (uint8_t) s.range(0x20, 0x7F));
			r.say("caption pairs\n");
			continue;
		}
		}
		bool bad = s.chance(1, 12);	// wrong checksum: must be ignored entirely
		size_t ev0 = ctx.evs.size();
		send_pair((uint8_t)(cls * 2 + 1), (uint8_t) type);
		for (size_t i = 0; i < data.size(); i += 2) send_pair(data[i], i + 1 < data.size() ? data[i + 1] : 0);
		unsigned cs = xds::checksum(cls, type, data);
		if (bad) cs = (cs + 1 + s.pick(126)) & 127;
		if (ctx.evs.size() != ev0) { rc = r.fail("C09:B:event-before-terminator", "event raised before the packet %u/%02x was terminated", cls, type); break; }
		send_pair(0x0F, (uint8_t) cs);
		r.say("packet %u/%02x %s%s value=\"%s\" %d %d %d\n", cls, type, bad ? "BADSUM " : "", jk >= 0 ? "judged" : "noise", v.s.c_str(), v.a, v.b, v.c);
		std::vector<Ev> evs(ctx.evs.begin() + ev0, ctx.evs.end());
		ev_seen += evs.size();
		if (bad) {
			for (auto &e : evs) if (e.type == VBI_EVENT_NETWORK || e.type == VBI_EVENT_PROG_INFO) { rc = r.fail("C09:B:event-on-bad-checksum", "packet %u/%02x with wrong checksum raised event type %d", cls, type, e.type); }
			continue;
		}
		++deliveries;
		if (jk >= 0) { hist[jk].push_back(v); when[jk].push_back(deliveries); cur[jk] = v; have[jk] = true; }
		size_t n = jk >= 0 ? hist[jk].size() : 0;
		bool is_repeat = n >= 2 && hist[jk][n - 1] == hist[jk][n - 2];
		bool first_repeat = is_repeat && (n == 2 || hist[jk][n - 2] != hist[jk][n - 3]);
		if (jk == 2 && !(n >= 3 && hist[2][n - 1] == hist[2][n - 2] && hist[2][n - 2] == hist[2][n - 3])) risk_at = deliveries;
		if (first_repeat) change_then_repeat = true;
		auto strip = [](const std::string &x) { size_t i = 0; while (i < x.size() && (unsigned char) x[i] <= 0x20) ++i; return x.substr(i); };
		bool net_reset = false;	// the first identification of a station does not reset the decoder, a later one does
		for (auto &e : evs) if (e.type == VBI_EVENT_NETWORK) { net_reset = announced; announced = true; }
		for (auto &e : evs) {
			if (e.type == VBI_EVENT_NETWORK) {
				if (jk != 0) { if (cls == 2 && type == 1) continue; rc = r.fail("C09:B:network-event-wrong-trigger", "NETWORK event raised by packet %u/%02x", cls, type); break; }
				if (!is_repeat) { rc = r.fail("C09:B:network-announced-before-repeat", "network name \"%s\" announced on its first reception", v.s.c_str()); break; }
				if (e.name != strip(v.s)) { rc = r.fail("C09:B:network-name-value", "announced name \"%s\", delivered \"%s\"", e.name.c_str(), v.s.c_str()); break; }
				std::string wc = have[1] ? strip(cur[1].s) : "";
				if (e.call != wc) { rc = r.fail("C09:B:network-call-value", "announced call letters \"%s\", delivered \"%s\"", e.call.c_str(), wc.c_str()); break; }
			} else if (e.type == VBI_EVENT_PROG_INFO) {
				if (jk >= 2 && !is_repeat) { rc = r.fail("C09:B:proginfo-announced-before-repeat", "PROG_INFO raised by the first reception of a changed value (kind %d)", jk); break; }
				// field values: equal to the last delivered packet, or unknown when a title change may have flushed them
				struct { int k; bool eq, dflt; const char *nm; } f[3] = {
					{2, have[2] && e.title == strip(cur[2].s), e.title.empty(), "title"},
					{3, have[3] && e.lh == cur[3].a && e.lm == cur[3].b, e.lh == -1 && e.lm == -1, "length"},
					{4, have[4] && e.rauth == cur[4].a && e.rid == cur[4].b && (cur[4].a != VBI_RATING_AUTH_TV_US || e.rdlsv == cur[4].c), e.rauth == VBI_RATING_AUTH_NONE, "rating"},
				};
				for (auto &x : f) {
					bool strict = have[x.k] && when[x.k].back() > risk_at && when[x.k].back() > net_reset_at;
					if (x.k == 2) strict = have[2] && when[2].back() > net_reset_at;
					if (!have[x.k]) { if (!x.dflt) { rc = r.fail("C09:B:proginfo-invented", "%s announced but never transmitted", x.nm); } continue; }
					if (x.eq) continue;
					if (!strict && x.dflt) continue;
					rc = r.fail("C09:B:proginfo-value", "PROG_INFO %s does not equal the last delivered packet (title \"%s\" length %d:%d rating %d/%d/%d; sent title \"%s\" length %d:%d rating %d/%d/%d)",
						x.nm, e.title.c_str(), e.lh, e.lm, e.rauth, e.rid, e.rdlsv, cur[2].s.c_str(), cur[3].a, cur[3].b, cur[4].a, cur[4].b, cur[4].c);
					break;
				}
				if (rc) break;
			}
		}
		if (rc) break;
		// completeness: first repeat after a change must be announced now
		for (auto &e : evs) if (e.type == VBI_EVENT_NETWORK) { announced_name = e.name; have_announced = true; }
		if (first_repeat && jk == 0 && !(have_announced && announced_name == strip(v.s))) {	// the station announced last, confirmed again, is no change (C13 judges that no event is raised then)
			bool ok = false; for (auto &e : evs) if (e.type == VBI_EVENT_NETWORK && e.name == strip(v.s)) ok = true;
			if (!ok) rc = r.fail("C09:B:network-not-announced", "network name \"%s\" received twice in a row but not announced", v.s.c_str());
		}
		if (first_repeat && jk >= 2) {
			// an event since the change delivery must have carried the value, unless a title delivery in between may have flushed it
			size_t since = when[jk][n - 2];
			bool risky = (jk != 2 && risk_at > since) || net_reset_at >= since;
			if (!risky) {
				bool ok = false;
				// events are not indexed by delivery; accept any PROG_INFO event raised during this packet
				for (auto &e : evs) if (e.type == VBI_EVENT_PROG_INFO) ok = true;
				// or one raised between change and now (tracked below)
				extern size_t g_last_pi_event_delivery;
				if (g_last_pi_event_delivery > since) ok = true;
				if (!ok) rc = r.fail("C09:B:proginfo-not-announced", "kind %d value received twice in a row after a change, no PROG_INFO event since the change", jk);
			}
		}
		extern size_t g_last_pi_event_delivery;
		for (auto &e : evs) if (e.type == VBI_EVENT_PROG_INFO) g_last_pi_event_delivery = deliveries;
		if (net_reset) {	// a network announcement resets the decoder (vbi_chsw_reset): programme info starts over
			net_reset_at = deliveries;
			for (int k = 2; k < 5; ++k) { hist[k].clear(); when[k].clear(); have[k] = false; }
		}
	}
	vbi_decoder_delete(d);
	r.nontrivial = change_then_repeat;
	r.cls("B:cases"); r.cls("B:events", ev_seen);
	if (change_then_repeat) r.cls("B:change-then-repeat");
	return rc;
}
size_t g_last_pi_event_delivery;

int vf_run_case(Src &s, Report &r) {
	g_last_pi_event_delivery = 0;
	if (s.pick(4) == 3) return part_b(s, r);
	return part_a(s, r);
}

void vf_defaults(bool thorough, uint64_t *cases, size_t *max_size) { *cases = thorough ? 6000000 : 300000; *max_size = 600; }
