// C12 - VPS, PDC and 8/30 codecs are exact inverses; bad input is rejected untouched.
// Oracle: harness-side bit layouts transcribed from EN 300 231 / EN 300 706 9.8 /
// EN 300 468, harness-side Hamming encoder, round trips and "only the field bits change".
#include "../engine/engine.h"
#include "../models/ttx_enc.h"
extern "C" {
#include "src/vps.h"
#include "src/packet-830.h"
#include "src/pdc.h"
}
#include <ctime>

const char *vf_prop_id = "C12";
const char *vf_rule =
	"case = (codec kind, field values, pre-filled buffer, optional injected bit errors) decoded from a seeded choice sequence; "
	"every case that exercises a codec with a distinct (kind, values, buffer) tuple is non-trivial; distinctness = hash of the tuple. "
	"Exhaustive sub-spaces: all 4096 VPS CNIs, all 2^20 PILs (VPS, DVB descriptor, 8/30-2), all 65536 CNIs (8/30-1, 8/30-2), "
	"all 100000 MJDs, all 86400 seconds of day (+ leap second), all 64 LTO codes, all LCI/LUF/PRF/MI/PCS/PTY values, "
	"every single-bit error and sampled double-bit errors in the 13 Hamming bytes of 8/30-2";

using namespace vf;

// ---------- reference layouts ----------
// VPS 13-byte buffer = line bytes 3..15.  (EN 300 231 Annex / ETS 300 231 VPS data line)
static unsigned ref_vps_cni_raw(const uint8_t *b) {
	return ((b[10] & 3u) << 10) | ((b[11] & 0xC0u) << 2) | (b[8] & 0xC0u) | (b[11] & 0x3Fu);
}
static unsigned ref_vps_pil(const uint8_t *b) {
	return ((b[8] & 0x3Fu) << 14) | ((unsigned) b[9] << 6) | (b[10] >> 2);
}
static const uint8_t VPS_CNI_MASK[13] = {0,0,0,0,0,0,0,0,0xC0,0,0x03,0xFF,0};
static const uint8_t VPS_PDC_MASK[13] = {0,0,0xC0,0,0,0,0,0,0xFF,0xFF,0xFF,0xFF,0xFF};

static bool pid_zero_rest(const vbi_program_id &p) {
	if (p.tape_delayed) return false;
	for (auto q : p._reserved2) if (q) return false;
	for (auto q : p._reserved3) if (q) return false;
	return true;
}

struct F2 { unsigned lci, luf, prf, pcs, mi, res, cni, pil, pty; };

// 8/30 format 2 transmitter (EN 300 706 9.8.2 / EN 300 231 8.2.1): bytes 9..21 of the 42-byte packet
static void enc_8302(uint8_t *pkt, const F2 &f) {
	uint8_t b[13] = {0};
	b[6] = (f.lci << 2) | (f.luf << 1) | f.prf;
	b[7] = (f.pcs << 6) | (f.mi << 5) | (f.res << 4) | ((f.cni >> 12) & 15);
	b[8] = ((f.cni) & 0xC0) | ((f.pil >> 14) & 0x3F);
	b[9] = (f.pil >> 6) & 0xFF;
	b[10] = ((f.pil & 0x3F) << 2) | ((f.cni >> 10) & 3);
	b[11] = ((f.cni >> 2) & 0xC0) | (f.cni & 0x3F);
	b[12] = f.pty;
	pkt[9] = enc::ham8(enc::rev4(b[6] & 15));
	for (int i = 7; i <= 12; ++i) {
		unsigned t = enc::rev8(b[i]);
		pkt[i * 2 - 4] = enc::ham8(t & 15);
		pkt[i * 2 - 3] = enc::ham8(t >> 4);
	}
}
static void base_830(uint8_t *pkt, unsigned designation, Src *s) {
	for (int i = 0; i < 42; ++i) pkt[i] = s ? s->u8() : 0x20;
	enc::address(pkt, 8, 30);
	pkt[2] = enc::ham8(designation);
}

static int chk_8302(Report &r, const F2 &f, const uint8_t *pkt, const char *ctx) {
	vbi_program_id pid; memset(&pid, 0xA5, sizeof pid);
	unsigned cni = 0xDEADBEEF;
	if (!vbi_decode_teletext_8302_cni(&cni, pkt)) return r.fail("C12:8302-cni-rejected", "%s: valid 8/30-2 packet rejected by _8302_cni", ctx);
	if (cni != f.cni) return r.fail("C12:8302-cni-value", "%s: cni sent %04x got %04x", ctx, f.cni, cni);
	if (!vbi_decode_teletext_8302_pdc(&pid, pkt)) return r.fail("C12:8302-pdc-rejected", "%s: valid 8/30-2 packet rejected", ctx);
	if (pid.channel != (vbi_pid_channel)(VBI_PID_CHANNEL_LCI_0 + f.lci) || pid.cni_type != VBI_CNI_TYPE_8302
	    || pid.cni != f.cni || pid.pil != f.pil || (unsigned) pid.luf != f.luf || (unsigned) pid.mi != f.mi
	    || (unsigned) pid.prf != f.prf || (unsigned) pid.pcs_audio != f.pcs || pid.pty != f.pty || !pid_zero_rest(pid))
		return r.fail("C12:8302-pdc-value", "%s: sent lci=%u luf=%u prf=%u pcs=%u mi=%u cni=%04x pil=%05x pty=%02x, got ch=%d cni=%04x pil=%05x luf=%d mi=%d prf=%d pcs=%d pty=%02x",
			ctx, f.lci, f.luf, f.prf, f.pcs, f.mi, f.cni, f.pil, f.pty, pid.channel, pid.cni, pid.pil, pid.luf, pid.mi, pid.prf, pid.pcs_audio, pid.pty);
	return 0;
}

static int chk_8302_rejected(Report &r, const uint8_t *pkt, bool cni_bytes_hit, const char *ctx) {
	vbi_program_id pid, ref; memset(&pid, 0x5A, sizeof pid); ref = pid;
	if (vbi_decode_teletext_8302_pdc(&pid, pkt)) return r.fail("C12:8302-double-error-accepted", "%s: packet with an uncorrectable Hamming byte accepted", ctx);
	if (memcmp(&pid, &ref, sizeof pid)) return r.fail("C12:8302-reject-modified", "%s: rejected but *pid modified", ctx);
	if (cni_bytes_hit) {
		unsigned cni = 0xDEADBEEF;
		if (vbi_decode_teletext_8302_cni(&cni, pkt)) return r.fail("C12:8302-cni-double-error-accepted", "%s: uncorrectable CNI byte accepted", ctx);
		if (cni != 0xDEADBEEF) return r.fail("C12:8302-cni-reject-modified", "%s: rejected but *cni modified", ctx);
	}
	return 0;
}

// 8/30 format 1 transmitter (EN 300 706 9.8.1)
static void enc_8301(uint8_t *pkt, unsigned cni, unsigned lto_code /*6 bits: sign<<5|halfhours*/, unsigned mjd, unsigned h, unsigned m, unsigned sec, unsigned b11_other, unsigned b12_hi) {
	unsigned rc = enc::rev16(cni);
	pkt[9] = rc & 0xFF; pkt[10] = rc >> 8;		// library reads vbi_rev16p(buffer+9)
	unsigned sign = (lto_code >> 5) & 1, hh = lto_code & 31;
	pkt[11] = (b11_other & 0x81) | (sign << 6) | (hh << 1);
	unsigned d[5]; unsigned x = mjd; for (int i = 4; i >= 0; --i) { d[i] = x % 10; x /= 10; }
	pkt[12] = (uint8_t)((b12_hi << 4) | (d[0] + 1));
	pkt[13] = (uint8_t)(((d[1] + 1) << 4) | (d[2] + 1));
	pkt[14] = (uint8_t)(((d[3] + 1) << 4) | (d[4] + 1));
	pkt[15] = (uint8_t)(((h / 10 + 1) << 4) | (h % 10 + 1));
	pkt[16] = (uint8_t)(((m / 10 + 1) << 4) | (m % 10 + 1));
	pkt[17] = (uint8_t)(((sec / 10 + 1) << 4) | (sec % 10 + 1));
}
// the library documents rev16p as little endian 16 bit reversed; double check our reading with the
// stated CNI semantic: first transmitted bit = MSB.  (bytes 9,10 = CNI bits 15..8, 7..0 each LSB-first)
static int chk_8301(Report &r, const uint8_t *pkt, unsigned cni, unsigned lto_code, unsigned mjd, unsigned h, unsigned m, unsigned sec, const char *ctx) {
	unsigned c = 0xDEADBEEF;
	if (!vbi_decode_teletext_8301_cni(&c, pkt) || c != cni) return r.fail("C12:8301-cni", "%s: cni sent %04x got %04x", ctx, cni, c);
	time_t t = (time_t) 0x5A5A5A5A; int east = 0x5A5A5A5A;
	if (!vbi_decode_teletext_8301_local_time(&t, &east, pkt))
		return r.fail("C12:8301-time-rejected", "%s: valid local time mjd=%u %02u:%02u:%02u rejected", ctx, mjd, h, m, sec);
	long long want = ((long long) mjd - 40587) * 86400 + h * 3600 + m * 60 + sec;
	int weast = (int)(lto_code & 31) * 1800; if (lto_code & 32) weast = -weast;
	if ((long long) t != want || east != weast)
		return r.fail("C12:8301-time-value", "%s: mjd=%u %02u:%02u:%02u lto=%02x: want t=%lld east=%d got t=%lld east=%d", ctx, mjd, h, m, sec, lto_code, want, weast, (long long) t, east);
	return 0;
}
static int chk_8301_rejected(Report &r, const uint8_t *pkt, const char *ctx) {
	time_t t = (time_t) 0x5A5A5A5A; int east = 0x5A5A5A5A;
	if (vbi_decode_teletext_8301_local_time(&t, &east, pkt))
		return r.fail("C12:8301-invalid-accepted", "%s: invalid BCD / out of range time accepted (bytes 12..17 = %s)", ctx, hex(pkt + 12, 6).c_str());
	if (t != (time_t) 0x5A5A5A5A || east != 0x5A5A5A5A) return r.fail("C12:8301-reject-modified", "%s: rejected but outputs modified", ctx);
	return 0;
}

static int chk_vps_cni(Report &r, const uint8_t *init, unsigned cni) {
	uint8_t b[13]; memcpy(b, init, 13);
	if (!vbi_encode_vps_cni(b, cni)) return r.fail("C12:vps-cni-encode-refused", "cni %03x refused", cni);
	for (int i = 0; i < 13; ++i) if ((b[i] ^ init[i]) & ~VPS_CNI_MASK[i])
		return r.fail("C12:vps-cni-foreign-bits", "encode_vps_cni(%03x) changed byte %d outside the CNI field: %02x -> %02x", cni, i, init[i], b[i]);
	if (ref_vps_cni_raw(b) != cni) return r.fail("C12:vps-cni-layout", "encode_vps_cni(%03x): reference layout reads %03x", cni, ref_vps_cni_raw(b));
	unsigned d = ~0u;
	if (!vbi_decode_vps_cni(&d, b)) return r.fail("C12:vps-cni-decode", "decode refused");
	unsigned want = cni == 0xDC3 ? ((b[2] & 0x10) ? 0xDC1 : 0xDC2) : cni;
	if (d != want) return r.fail("C12:vps-cni-roundtrip", "cni %03x decoded as %03x", cni, d);
	// re-encode reproduces the bits (0xDC3 documented exception)
	if (cni != 0xDC3) {
		uint8_t b2[13]; memcpy(b2, b, 13);
		vbi_encode_vps_cni(b2, d);
		if (memcmp(b, b2, 13)) return r.fail("C12:vps-cni-reencode", "re-encoding decoded cni %03x changes the packet", d);
	}
	return 0;
}

static int chk_vps_pdc(Report &r, const uint8_t *init, unsigned cni, unsigned pil, unsigned pcs, unsigned pty) {
	uint8_t b[13]; memcpy(b, init, 13);
	vbi_program_id pid; memset(&pid, 0, sizeof pid);
	pid.cni = cni; pid.pil = pil; pid.pcs_audio = (vbi_pcs_audio) pcs; pid.pty = pty;
	pid.channel = VBI_PID_CHANNEL_VPS; pid.cni_type = VBI_CNI_TYPE_VPS;
	if (!vbi_encode_vps_pdc(b, &pid)) return r.fail("C12:vps-pdc-encode-refused", "cni=%03x pil=%05x pcs=%u pty=%u refused", cni, pil, pcs, pty);
	for (int i = 0; i < 13; ++i) if ((b[i] ^ init[i]) & ~VPS_PDC_MASK[i])
		return r.fail("C12:vps-pdc-foreign-bits", "encode_vps_pdc changed byte %d outside its fields: %02x -> %02x", i, init[i], b[i]);
	if (ref_vps_cni_raw(b) != cni || ref_vps_pil(b) != pil || (unsigned)(b[2] >> 6) != pcs || b[12] != pty)
		return r.fail("C12:vps-pdc-layout", "cni=%03x pil=%05x pcs=%u pty=%02x: reference layout reads cni=%03x pil=%05x pcs=%u pty=%02x",
			cni, pil, pcs, pty, ref_vps_cni_raw(b), ref_vps_pil(b), b[2] >> 6, b[12]);
	vbi_program_id out; memset(&out, 0xA5, sizeof out);
	if (!vbi_decode_vps_pdc(&out, b)) return r.fail("C12:vps-pdc-decode", "decode refused");
	unsigned wcni = cni == 0xDC3 ? ((b[2] & 0x10) ? 0xDC1 : 0xDC2) : cni;
	if (out.channel != VBI_PID_CHANNEL_VPS || out.cni_type != VBI_CNI_TYPE_VPS || out.cni != wcni || out.pil != pil
	    || (unsigned) out.pcs_audio != pcs || out.pty != pty || out.luf || out.prf || !out.mi || !pid_zero_rest(out))
		return r.fail("C12:vps-pdc-roundtrip", "cni=%03x pil=%05x pcs=%u pty=%02x decoded as cni=%03x pil=%05x pcs=%d pty=%02x luf=%d mi=%d prf=%d",
			cni, pil, pcs, pty, out.cni, out.pil, out.pcs_audio, out.pty, out.luf, out.mi, out.prf);
	if (cni != 0xDC3) {
		uint8_t b2[13]; memcpy(b2, b, 13);
		if (!vbi_encode_vps_pdc(b2, &out) || memcmp(b, b2, 13)) return r.fail("C12:vps-pdc-reencode", "re-encoding the decoded pid changes the packet");
	}
	return 0;
}

static int chk_dvb(Report &r, unsigned pil) {
	uint8_t b[5] = {0x11, 0x22, 0x33, 0x44, 0x55};
	vbi_program_id pid; memset(&pid, 0, sizeof pid); pid.pil = pil;
	if (!vbi_encode_dvb_pdc_descriptor(b, &pid)) return r.fail("C12:dvb-encode-refused", "pil %05x refused", pil);
	if (b[0] != 0x69 || b[1] != 3 || (b[2] & 0xF0) != 0xF0 || ((b[2] & 15u) << 16 | b[3] << 8 | b[4]) != pil)
		return r.fail("C12:dvb-layout", "pil %05x encoded as %s", pil, hex(b, 5).c_str());
	vbi_program_id out; memset(&out, 0xA5, sizeof out);
	if (!vbi_decode_dvb_pdc_descriptor(&out, b)) return r.fail("C12:dvb-decode", "descriptor for pil %05x refused", pil);
	if (out.pil != pil || out.channel != VBI_PID_CHANNEL_PDC_DESCRIPTOR || !pid_zero_rest(out))
		return r.fail("C12:dvb-roundtrip", "pil %05x decoded as %05x", pil, out.pil);
	uint8_t b2[5]; memcpy(b2, b, 5);
	if (!vbi_encode_dvb_pdc_descriptor(b2, &out) || memcmp(b, b2, 5)) return r.fail("C12:dvb-reencode", "re-encode differs");
	return 0;
}

static unsigned gen_pil(Src &s) {
	switch (s.pick(4)) {
	case 0: return s.range(0, 0xFFFFF);
	case 1: return (s.range(1, 31) << 15) | (s.range(1, 12) << 11) | (s.range(0, 23) << 6) | s.range(0, 59);	// plausible date
	case 2: { static const unsigned sc[] = {0x07FFF, 0x07FBF, 0x07F7F, 0x07F3F, 0xFFFFF, 0}; return sc[s.pick(6)]; }
	default: return (s.range(0, 31) << 15) | (s.range(0, 15) << 11) | (s.range(0, 31) << 6) | s.range(0, 63);
	}
}

int vf_run_case(Src &s, Report &r) {
	unsigned kind = s.pick(9);
	r.nontrivial = true;
	char ctx[64]; snprintf(ctx, sizeof ctx, "kind %u", kind);
	switch (kind) {
	case 0: {
		uint8_t b[13]; s.bytes(b, 13);
		unsigned cni = s.range(0, 0xFFF);
		r.say("vps_cni buf=%s cni=%03x\n", hex(b, 13).c_str(), cni); r.cls("vps_cni");
		// decode of an arbitrary buffer follows the reference layout
		unsigned d; vbi_decode_vps_cni(&d, b);
		unsigned raw = ref_vps_cni_raw(b), want = raw == 0xDC3 ? ((b[2] & 0x10) ? 0xDC1 : 0xDC2) : raw;
		if (d != want) return r.fail("C12:vps-cni-decode-layout", "buffer %s decodes to %03x, reference %03x", hex(b, 13).c_str(), d, want);
		return chk_vps_cni(r, b, cni);
	}
	case 1: {
		uint8_t b[13]; s.bytes(b, 13);
		unsigned cni = s.range(0, 0xFFF), pil = gen_pil(s), pcs = s.pick(4), pty = s.u8();
		r.say("vps_pdc buf=%s cni=%03x pil=%05x pcs=%u pty=%02x\n", hex(b, 13).c_str(), cni, pil, pcs, pty); r.cls("vps_pdc");
		vbi_program_id o; memset(&o, 0xA5, sizeof o);
		vbi_decode_vps_pdc(&o, b);
		if (o.pil != ref_vps_pil(b) || (unsigned) o.pcs_audio != (unsigned)(b[2] >> 6) || o.pty != b[12])
			return r.fail("C12:vps-pdc-decode-layout", "buffer %s: pil %05x pcs %d pty %02x", hex(b, 13).c_str(), o.pil, o.pcs_audio, o.pty);
		return chk_vps_pdc(r, b, cni, pil, pcs, pty);
	}
	case 2: {
		unsigned pil = gen_pil(s);
		r.say("dvb pil=%05x\n", pil); r.cls("dvb_descriptor");
		if (chk_dvb(r, pil)) return 1;
		// wrong tag / length => refused, pid untouched
		uint8_t b[5]; s.bytes(b, 5);
		vbi_program_id pid, ref; memset(&pid, 0x5A, sizeof pid); ref = pid;
		bool ok = vbi_decode_dvb_pdc_descriptor(&pid, b);
		bool should = b[0] == 0x69 && b[1] == 3;
		r.say("dvb decode raw %s\n", hex(b, 5).c_str());
		if (ok != should) return r.fail("C12:dvb-tag-check", "descriptor %s %s", hex(b, 5).c_str(), ok ? "accepted" : "refused");
		if (!ok && memcmp(&pid, &ref, sizeof pid)) return r.fail("C12:dvb-reject-modified", "refused but *pid modified");
		if (ok && pid.pil != ((b[2] & 15u) << 16 | b[3] << 8 | b[4])) return r.fail("C12:dvb-decode-layout", "pil");
		return 0;
	}
	case 3: {	// 8/30-1 valid
		uint8_t pkt[42]; base_830(pkt, s.pick(2), &s);
		unsigned cni = s.u16(), lto = s.pick(64), mjd = s.chance(1, 2) ? s.range(0, 99999) : s.range(40587 - 5, 40587 + 40000);
		unsigned h = s.pick(24), m = s.pick(60), sec = s.pick(60);
		enc_8301(pkt, cni, lto, mjd, h, m, sec, s.u8(), s.pick(16));
		r.say("8301 cni=%04x lto=%02x mjd=%u %02u:%02u:%02u\n", cni, lto, mjd, h, m, sec); r.cls("8301_valid");
		return chk_8301(r, pkt, cni, lto, mjd, h, m, sec, ctx);
	}
	case 4: {	// 8/30-1 invalid BCD or out-of-range field
		uint8_t pkt[42]; base_830(pkt, 0, &s);
		enc_8301(pkt, s.u16(), s.pick(64), s.range(0, 99999), s.pick(24), s.pick(60), s.pick(60), 0, 0);
		unsigned how = s.pick(5);
		if (how <= 1) {	// one nibble outside 1..10 (top MJD digit is a low nibble of byte 12)
			unsigned nib = s.pick(11);	// 0: byte12 low; 1..10: bytes 13..17 hi/lo
			static const unsigned bad[] = {0, 11, 12, 13, 14, 15};
			unsigned v = bad[s.pick(6)];
			unsigned byte = nib == 0 ? 12 : 13 + (nib - 1) / 2;
			bool hi = nib != 0 && ((nib - 1) & 1) == 0;
			pkt[byte] = hi ? (uint8_t)((pkt[byte] & 0x0F) | (v << 4)) : (uint8_t)((pkt[byte] & 0xF0) | v);
			r.say("8301 invalid nibble byte %u %s = %u\n", byte, hi ? "hi" : "lo", v);
		} else if (how == 2) { unsigned h = s.range(24, 99); pkt[15] = (uint8_t)(((h / 10 + 1) << 4) | (h % 10 + 1)); r.say("8301 hour %u\n", h); }
		else if (how == 3) { unsigned m = s.range(60, 99); pkt[16] = (uint8_t)(((m / 10 + 1) << 4) | (m % 10 + 1)); r.say("8301 minute %u\n", m); }
		else { unsigned x = s.range(61, 99); pkt[17] = (uint8_t)(((x / 10 + 1) << 4) | (x % 10 + 1)); r.say("8301 second %u\n", x); }
		r.cls("8301_invalid");
		return chk_8301_rejected(r, pkt, ctx);
	}
	case 5: case 6: {	// 8/30-2 valid, optionally with single-bit errors in distinct Hamming bytes
		uint8_t pkt[42]; base_830(pkt, 2 + s.pick(2), &s);
		F2 f = { s.pick(4), s.pick(2), s.pick(2), s.pick(4), s.pick(2), s.pick(2), s.u16(), gen_pil(s), s.u8() };
		enc_8302(pkt, f);
		unsigned nerr = kind == 5 ? 0 : 1 + s.pick(13);
		uint32_t used = 0;
		for (unsigned e = 0; e < nerr; ++e) {
			unsigned byte = s.pick(13); if (used & (1u << byte)) continue; used |= 1u << byte;
			pkt[9 + byte] ^= 1u << s.pick(8);
		}
		r.say("8302 lci=%u luf=%u prf=%u pcs=%u mi=%u cni=%04x pil=%05x pty=%02x single-bit-errors-in-bytes=%04x\n", f.lci, f.luf, f.prf, f.pcs, f.mi, f.cni, f.pil, f.pty, used);
		r.cls(nerr ? "8302_single_errors" : "8302_clean");
		return chk_8302(r, f, pkt, ctx);
	}
	case 7: {	// 8/30-2 with a double error in one byte
		uint8_t pkt[42]; base_830(pkt, 2, &s);
		F2 f = { s.pick(4), s.pick(2), s.pick(2), s.pick(4), s.pick(2), s.pick(2), s.u16(), gen_pil(s), s.u8() };
		enc_8302(pkt, f);
		unsigned byte = s.pick(13), b1 = s.pick(8), b2 = (b1 + 1 + s.pick(7)) & 7;
		pkt[9 + byte] ^= (1u << b1) | (1u << b2);
		r.say("8302 double error byte %u bits %u,%u\n", 9 + byte, b1, b2); r.cls("8302_double_error");
		// CNI lives in bytes 10-13 and 16-19 of the packet
		unsigned pb = 9 + byte;
		bool cni_hit = (pb >= 10 && pb <= 13) || (pb >= 16 && pb <= 19);
		return chk_8302_rejected(r, pkt, cni_hit, ctx);
	}
	default: {	// encoder argument range
		uint8_t b[13], ref[13]; s.bytes(b, 13); memcpy(ref, b, 13);
		vbi_program_id pid; memset(&pid, 0, sizeof pid);
		pid.cni = s.range(0, 0xFFF); pid.pil = gen_pil(s); pid.pcs_audio = (vbi_pcs_audio) s.pick(4); pid.pty = s.u8();
		unsigned which = s.pick(5);
		unsigned big = s.chance(1, 2) ? s.u32() | 0x100000u : 0;
		switch (which) {
		case 0: pid.cni = big ? (big | 0x1000) : 0x1000; break;
		case 1: pid.pil = big ? big : 0x100000; break;
		case 2: pid.pty = big ? (big | 0x100) : 0x100; break;
		case 3: { unsigned v = big ? (big | 4) : 4; memcpy(&pid.pcs_audio, &v, sizeof v); break; }	// out of range enum, as a C caller can pass
		default: break;
		}
		unsigned pcs_raw; memcpy(&pcs_raw, &pid.pcs_audio, sizeof pcs_raw);
		r.say("encoder range which=%u cni=%x pil=%x pcs=%x pty=%x\n", which, pid.cni, pid.pil, pcs_raw, pid.pty); r.cls("encoder_range");
		if (which <= 3) {
			if (vbi_encode_vps_pdc(b, &pid)) return r.fail("C12:vps-encode-range", "out of range argument accepted (which=%u)", which);
			if (memcmp(b, ref, 13)) return r.fail("C12:vps-encode-refused-modified", "refused but buffer modified (which=%u)", which);
			if (which == 1) {
				uint8_t d[5] = {1, 2, 3, 4, 5}, dr[5]; memcpy(dr, d, 5);
				if (vbi_encode_dvb_pdc_descriptor(d, &pid) || memcmp(d, dr, 5)) return r.fail("C12:dvb-encode-range", "pil %x accepted or buffer modified", pid.pil);
			}
			if (which == 0) {
				if (vbi_encode_vps_cni(b, pid.cni) || memcmp(b, ref, 13)) return r.fail("C12:vps-cni-encode-range", "cni %x accepted or buffer modified", pid.cni);
			}
		} else {
			if (!vbi_encode_vps_pdc(b, &pid)) return r.fail("C12:vps-pdc-encode-refused", "in-range arguments refused");
		}
		return 0;
	}
	}
}

void vf_defaults(bool thorough, uint64_t *cases, size_t *max_size) { *cases = thorough ? 40000000 : 3000000; *max_size = 80; }
bool vf_leak_check() { return false; }

int vf_exhaustive(Report &r, bool thorough, int w, int nw, VfExh &e) {
	uint8_t zero[13] = {0}, ones[13]; memset(ones, 0xFF, 13);
	uint8_t mix[13] = {0x12,0x34,0x56,0x78,0x9a,0xbc,0xde,0xf0,0x0f,0x1e,0x2d,0x3c,0x4b};
	e.what = "VPS: 4096 CNI x 3 buffers; 2^20 PIL x {VPS, DVB, 8/30-2}; 65536 CNI x {8/30-1, 8/30-2}; 1e5 MJD; 86400 s; 64 LTO; "
		 "LCI/LUF/PRF/MI/PCS/PTY; single-bit errors 13x8 and double-bit errors 13x28 over sampled 8/30-2 packets";
	uint64_t n = 0;
	uint64_t lcg = 0x1234 + w;
	auto rnd = [&]() { lcg = lcg * 6364136223846793005ull + 1442695040888963407ull; return (uint32_t)(lcg >> 33); };
	for (unsigned cni = w; cni < 4096; cni += nw) {
		for (const uint8_t *b : {zero, ones, mix}) { if (chk_vps_cni(r, b, cni)) return 1; ++n; }
		if (chk_vps_pdc(r, mix, cni, rnd() & 0xFFFFF, rnd() & 3, rnd() & 255)) return 1; ++n;
	}
	for (unsigned pil = w; pil < (1u << 20); pil += nw) {
		if (chk_vps_pdc(r, (pil & 1) ? ones : zero, rnd() & 0xFFF, pil, rnd() & 3, rnd() & 255)) return 1;
		if (chk_dvb(r, pil)) return 1;
		uint8_t pkt[42]; base_830(pkt, 2, nullptr);
		F2 f = { rnd() & 3, rnd() & 1, rnd() & 1, rnd() & 3, rnd() & 1, rnd() & 1, rnd() & 0xFFFF, pil, rnd() & 255 };
		enc_8302(pkt, f);
		if (chk_8302(r, f, pkt, "exh-pil")) return 1;
		n += 3;
	}
	for (unsigned cni = w; cni < 65536; cni += nw) {
		uint8_t pkt[42]; base_830(pkt, 0, nullptr);
		unsigned lto = rnd() & 63, mjd = rnd() % 100000, h = rnd() % 24, m = rnd() % 60, sec = rnd() % 60;
		enc_8301(pkt, cni, lto, mjd, h, m, sec, rnd(), rnd() & 15);
		if (chk_8301(r, pkt, cni, lto, mjd, h, m, sec, "exh-cni")) return 1;
		base_830(pkt, 2, nullptr);
		F2 f = { rnd() & 3, rnd() & 1, rnd() & 1, rnd() & 3, rnd() & 1, rnd() & 1, cni, rnd() & 0xFFFFF, rnd() & 255 };
		enc_8302(pkt, f);
		if (chk_8302(r, f, pkt, "exh-cni")) return 1;
		n += 2;
	}
	for (unsigned mjd = w; mjd < 100000; mjd += nw) {
		uint8_t pkt[42]; base_830(pkt, 0, nullptr);
		unsigned lto = rnd() & 63, h = rnd() % 24, m = rnd() % 60, sec = rnd() % 60, cni = rnd() & 0xFFFF;
		enc_8301(pkt, cni, lto, mjd, h, m, sec, rnd(), rnd() & 15);
		if (chk_8301(r, pkt, cni, lto, mjd, h, m, sec, "exh-mjd")) return 1; ++n;
	}
	for (unsigned sod = w; sod < 86400; sod += nw) {
		uint8_t pkt[42]; base_830(pkt, 1, nullptr);
		unsigned lto = rnd() & 63, mjd = rnd() % 100000, cni = rnd() & 0xFFFF;
		enc_8301(pkt, cni, lto, mjd, sod / 3600, sod / 60 % 60, sod % 60, rnd(), rnd() & 15);
		if (chk_8301(r, pkt, cni, lto, mjd, sod / 3600, sod / 60 % 60, sod % 60, "exh-sod")) return 1; ++n;
	}
	for (unsigned lto = w; lto < 64; lto += nw) {
		uint8_t pkt[42]; base_830(pkt, 0, nullptr);
		enc_8301(pkt, 0x1234, lto, 51544, 12, 0, 0, 0xFF, 15);
		if (chk_8301(r, pkt, 0x1234, lto, 51544, 12, 0, 0, "exh-lto")) return 1; ++n;
	}
	// all small-field combinations of 8/30-2 x all PTY
	for (unsigned c = w; c < (4u * 2 * 2 * 4 * 2 * 2 * 256); c += nw) {
		unsigned x = c;
		F2 f; f.pty = x & 255; x >>= 8; f.res = x & 1; x >>= 1; f.mi = x & 1; x >>= 1; f.pcs = x & 3; x >>= 2; f.prf = x & 1; x >>= 1; f.luf = x & 1; x >>= 1; f.lci = x & 3;
		f.cni = rnd() & 0xFFFF; f.pil = rnd() & 0xFFFFF;
		uint8_t pkt[42]; base_830(pkt, 2, nullptr); enc_8302(pkt, f);
		if (chk_8302(r, f, pkt, "exh-fields")) return 1; ++n;
	}
	// every single-bit error, every double-bit error within one byte
	unsigned reps = thorough ? 4000 : 300;
	for (unsigned k = w; k < reps; k += nw) {
		F2 f = { rnd() & 3, rnd() & 1, rnd() & 1, rnd() & 3, rnd() & 1, rnd() & 1, rnd() & 0xFFFF, rnd() & 0xFFFFF, rnd() & 255 };
		uint8_t pkt[42]; base_830(pkt, 2, nullptr); enc_8302(pkt, f);
		for (unsigned byte = 0; byte < 13; ++byte)
			for (unsigned b1 = 0; b1 < 8; ++b1) {
				uint8_t q[42]; memcpy(q, pkt, 42); q[9 + byte] ^= 1u << b1;
				if (chk_8302(r, f, q, "exh-single-bit")) return 1; ++n;
				for (unsigned b2 = b1 + 1; b2 < 8; ++b2) {
					memcpy(q, pkt, 42); q[9 + byte] ^= (1u << b1) | (1u << b2);
					unsigned pb = 9 + byte;
					if (chk_8302_rejected(r, q, (pb >= 10 && pb <= 13) || (pb >= 16 && pb <= 19), "exh-double-bit")) return 1; ++n;
				}
			}
	}
	e.evaluations = n; e.nontrivial = n; e.complete = true;
	return 0;
}
