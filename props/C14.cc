// C14 - PIL to time conversion picks the right year and instant and leaves TZ alone.
// Oracle: harness-side civil-date arithmetic (UTC offset variants, exact) and glibc localtime_r under
// a harness-owned TZ switch (zone variants); TZ / tzname / timezone / daylight compared around every call.
#include "../engine/engine.h"
extern "C" {
#include "src/libzvbi.h"
}
#include <ctime>
#include <climits>

const char *vf_prop_id = "C14";
const char *vf_rule =
	"case = (function, PIL, reference time, UTC offset or zone string, ambient TZ): PIL uniform / valid dates / 29 Feb / service codes / "
	"invalid days; reference time 1971-2037 plus year boundaries, leap days and (safety only) extremes; offsets within and beyond +-14 h; "
	"17 zone strings (POSIX rules, tzdata names incl. DST, half-hour and date-line zones, NULL, empty, containing '='); ambient TZ unset / "
	"set / same string. Non-trivial: PIL month and reference month differ by >= 5, or reference within 2 days of a year boundary, or a DST "
	"zone, or a failing call.";

using namespace vf;

static const char *ZONES[] = {
	"UTC", "CET-1CEST,M3.5.0,M10.5.0/3", "EST5EDT,M3.2.0,M11.1.0", "Europe/London", "Europe/Berlin", "America/New_York",
	"Australia/Sydney", "Asia/Kolkata", "America/Sao_Paulo", "Pacific/Apia", "Asia/Kathmandu", "America/St_Johns",
	"<+0330>-3:30", "NZST-12NZDT,M9.5.0,M4.1.0/3", "", "A=B", "Europe/Lisbon",
};
static const int NZONES = 17;

// ---- independent civil calendar ----
static long long days_from_civil(long long y, unsigned m, unsigned d) {
	y -= m <= 2;
	const long long era = (y >= 0 ? y : y - 399) / 400;
	const unsigned yoe = (unsigned)(y - era * 400);
	const unsigned doy = (153 * (m + (m > 2 ? -3 : 9)) + 2) / 5 + d - 1;
	const unsigned doe = yoe * 365 + yoe / 4 - yoe / 100 + doy;
	return era * 146097 + (long long) doe - 719468;
}
static void civil_from_days(long long z, long long *y, unsigned *m, unsigned *d) {
	z += 719468;
	const long long era = (z >= 0 ? z : z - 146096) / 146097;
	const unsigned doe = (unsigned)(z - era * 146097);
	const unsigned yoe = (doe - doe / 1460 + doe / 36524 - doe / 146096) / 365;
	long long yy = (long long) yoe + era * 400;
	const unsigned doy = doe - (365 * yoe + yoe / 4 - yoe / 100);
	const unsigned mp = (5 * doy + 2) / 153;
	*d = doy - (153 * mp + 2) / 5 + 1;
	*m = mp < 10 ? mp + 3 : mp - 9;
	*y = yy + (*m <= 2);
}
static bool leap(long long y) { return y % 4 == 0 && (y % 100 != 0 || y % 400 == 0); }
static const unsigned MDAYS[12] = {31, 29, 31, 30, 31, 30, 31, 31, 30, 31, 30, 31};

struct Civil { long long y; unsigned mon, day, h, mi, s;
	bool operator==(const Civil &o) const { return y == o.y && mon == o.mon && day == o.day && h == o.h && mi == o.mi && s == o.s; }
	bool operator!=(const Civil &o) const { return !(*this == o); } };
static Civil civil_utc(long long t) {
	long long days = t >= 0 ? t / 86400 : -((-t + 86399) / 86400);
	long long rem = t - days * 86400;
	Civil c; civil_from_days(days, &c.y, &c.mon, &c.day); c.h = (unsigned)(rem / 3600); c.mi = (unsigned)(rem / 60 % 60); c.s = (unsigned)(rem % 60);
	return c;
}

// ---- harness-owned zone view (TZ is switched outside of any library call and restored) ----
struct Ambient { bool set; std::string val; };
static Ambient get_ambient() { const char *s = getenv("TZ"); Ambient a; a.set = s != nullptr; if (s) a.val = s; return a; }
static void set_ambient(const Ambient &a) { if (a.set) setenv("TZ", a.val.c_str(), 1); else unsetenv("TZ"); tzset(); }
static bool view(const char *tz, time_t t, Civil *c) {
	Ambient a = get_ambient();
	if (tz) { setenv("TZ", tz, 1); tzset(); }
	struct tm tm; bool ok = localtime_r(&t, &tm) != nullptr;
	if (tz) set_ambient(a);
	if (!ok) return false;
	c->y = tm.tm_year + 1900LL; c->mon = tm.tm_mon + 1; c->day = tm.tm_mday; c->h = tm.tm_hour; c->mi = tm.tm_min; c->s = tm.tm_sec;
	return true;
}
// does the wall clock time exist in the zone?  search the instants around the naive UTC reading
static bool wall_exists(const char *tz, const Civil &w, time_t *found) {
	long long naive = days_from_civil(w.y, w.mon, w.day) * 86400 + w.h * 3600 + w.mi * 60 + w.s;
	for (long long off = -16 * 3600; off <= 16 * 3600; off += 900) {
		Civil c; time_t t = (time_t)(naive + off);
		if (view(tz, t, &c) && c.y == w.y && c.mon == w.mon && c.day == w.day && c.h == w.h && c.mi == w.mi && c.s == w.s) { if (found) *found = t; return true; }
	}
	return false;
}

struct TzState { Ambient env; std::string n0, n1; long tzv; int dl; Civil probe; };
static TzState snap() {
	TzState s; s.env = get_ambient();
	// glibc updates tzname / timezone / daylight as a side effect of every localtime conversion; convert the probe
	// instant first so that both snapshots read the values belonging to the same instant
	time_t p = 1000000000; struct tm tm; localtime_r(&p, &tm);
	s.n0 = tzname[0] ? tzname[0] : ""; s.n1 = tzname[1] ? tzname[1] : ""; s.tzv = timezone; s.dl = daylight;
	s.probe.y = tm.tm_year; s.probe.mon = tm.tm_mon; s.probe.day = tm.tm_mday; s.probe.h = tm.tm_hour; s.probe.mi = tm.tm_min; s.probe.s = tm.tm_sec;
	return s;
}
static int cmp_state(Report &r, const TzState &a, const TzState &b, const char *fn) {
	if (a.env.set != b.env.set || a.env.val != b.env.val)
		return r.fail("C14:tz-env-changed", "%s: TZ was %s%s, is now %s%s", fn, a.env.set ? "" : "unset", a.env.val.c_str(), b.env.set ? "" : "unset", b.env.val.c_str());
	if (a.n0 != b.n0 || a.n1 != b.n1 || a.tzv != b.tzv || a.dl != b.dl)
		return r.fail("C14:tz-state-changed", "%s: tzname/timezone/daylight were %s/%s/%ld/%d, are now %s/%s/%ld/%d", fn, a.n0.c_str(), a.n1.c_str(), a.tzv, a.dl, b.n0.c_str(), b.n1.c_str(), b.tzv, b.dl);
	if (a.probe != b.probe) return r.fail("C14:localtime-changed", "%s: localtime of a probe instant differs after the call", fn);
	return 0;
}

static unsigned gen_pil(Src &s) {
	switch (s.pick(8)) {
	case 0: return s.range(0, 0xFFFFF);
	case 1: return VBI_PIL(2, 29, s.pick(24), s.pick(60));
	case 2: { static const unsigned sc[] = {VBI_PIL_TIMER_CONTROL, VBI_PIL_INHIBIT_TERMINATE, VBI_PIL_INTERRUPTION, VBI_PIL_CONTINUE, VBI_PIL_NSPV, 0,
			VBI_PIL(13, 1, 0, 0), VBI_PIL(14, 31, 23, 59), VBI_PIL(15, 1, 1, 1), VBI_PIL(2, 30, 10, 0), VBI_PIL(4, 31, 0, 0), VBI_PIL(0, 5, 5, 5)}; return sc[s.pick(12)]; }
	case 3: return VBI_PIL(s.range(1, 12), s.range(1, 31), s.pick(4), s.pick(60));		// before 04:00
	case 4: return VBI_PIL(s.pick(2) ? 12 : 1, s.pick(2) ? 31 : 1, s.pick(24), s.pick(60));	// around new year
	default: return VBI_PIL(s.range(1, 12), s.range(1, 28), s.pick(24), s.pick(60));
	}
}
static const long long Y1971 = 31536000LL, Y2038 = 2145916800LL;	// 1971-01-01, 2038-01-01
static long long gen_start(Src &s, bool *plain) {
	*plain = true;
	switch (s.pick(8)) {
	case 0: { long long y = 1971 + s.pick(67); return days_from_civil(y, 1, 1) * 86400 + (long long) s.irange(-2 * 86400, 2 * 86400); }	// year boundary
	case 1: { static const int ly[] = {1972, 1996, 2000, 2004, 2024, 2036}; long long y = ly[s.pick(6)]; return days_from_civil(y, 2, 29) * 86400 + (long long) s.irange(-40 * 86400, 200 * 86400); }
	case 2: { static const int ny[] = {1999, 2001, 2023, 2100 - 70, 2019}; long long y = ny[s.pick(5)]; return days_from_civil(y, 3, 1) * 86400 + (long long) s.irange(-60 * 86400, 160 * 86400); }
	case 3: *plain = false; { static const long long ex[] = {1, 2, 86400, 2147483647LL, 2147483648LL, 4102444800LL, -86400, -2, 253402300799LL, (long long) 1 << 40, LLONG_MAX / 2, -(1LL << 40)}; return ex[s.pick(12)]; }
	default: return Y1971 + (long long)(s.u32() % (uint32_t)(Y2038 - Y1971 - 86400 * 370)) + 86400 * 185;
	}
}

int vf_run_case(Src &s, Report &r) {
	// ambient TZ
	unsigned amb = s.pick(4);
	const char *zone = nullptr; int zi = -1;
	unsigned fn = s.pick(5);
	unsigned pil = gen_pil(s);
	bool plain; long long start = gen_start(s, &plain);
	if (start == -1 || start == 0) start = 1;	// "current time" requests are not generated
	int east = 0;
	if (fn == 0 || fn == 2) {
		switch (s.pick(4)) { case 0: east = 0; break; case 1: east = s.irange(-14 * 3600, 14 * 3600); break; case 2: east = s.irange(-56, 56) * 900; break; default: east = s.irange(-30 * 3600, 30 * 3600); }
	} else {
		zi = (int) s.pick(NZONES + 1);
		zone = zi < NZONES ? ZONES[zi] : nullptr;
	}
	Ambient a;
	switch (amb) { case 0: a.set = false; break; case 1: a.set = true; a.val = "Europe/Paris"; break; case 2: a.set = true; a.val = zone ? zone : "UTC"; break; default: a.set = true; a.val = ZONES[s.pick(NZONES)]; }
	set_ambient(a);
	const char *eff = zone ? zone : (a.set ? a.val.c_str() : nullptr);	// zone in force for NULL tz = ambient
	static const char *FNAME[] = {"vbi_pil_lto_to_time", "vbi_pil_to_time", "vbi_pil_lto_validity_window", "vbi_pil_validity_window", "vbi_pty_validity_window"};
	r.say("%s pil=%05x (m%u d%u %02u:%02u) start=%lld east=%d tz=%s ambient=%s%s\n", FNAME[fn], pil, VBI_PIL_MONTH(pil), VBI_PIL_DAY(pil), VBI_PIL_HOUR(pil), VBI_PIL_MINUTE(pil),
		start, east, zone ? zone : "(null)", a.set ? "" : "unset", a.val.c_str());
	r.cls(FNAME[fn]);
	unsigned pm = VBI_PIL_MONTH(pil), pd = VBI_PIL_DAY(pil), ph = VBI_PIL_HOUR(pil), pmin = VBI_PIL_MINUTE(pil);
	bool date_ok = pm >= 1 && pm <= 12 && pd >= 1 && pd <= MDAYS[pm - 1];
	bool valid = date_ok && ph < 24 && pmin < 60;
	int rc = 0;
	bool failing = false, dstzone = zone && zi >= 1 && zi <= 9;

	// local view of the reference time, and the year the nearest-year rule selects
	Civil ref; bool have_ref;
	if (fn == 0 || fn == 2) { ref = civil_utc(start + east); have_ref = true; }
	else have_ref = view(eff, (time_t) start, &ref);
	long long year = 0;
	if (have_ref) { year = ref.y; if ((int) pm - (int) ref.mon >= 6) --year; else if ((int) pm - (int) ref.mon < -6) ++year; }
	bool feb29_bad = date_ok && pm == 2 && pd == 29 && !leap(year);

	TzState before = snap();
	if (fn == 0) {
		time_t t = vbi_pil_lto_to_time(pil, (time_t) start, east);
		TzState after = snap(); if ((rc = cmp_state(r, before, after, FNAME[fn]))) goto done;
		if (!valid || (feb29_bad && plain)) { failing = true; if (t != (time_t) -1) rc = r.fail("C14:invalid-pil-accepted", "%s accepted PIL %05x (year %lld) -> %lld", FNAME[fn], pil, year, (long long) t); goto done; }
		if (!plain) { if (t == (time_t) -1) failing = true; goto done; }
		long long want = days_from_civil(year, pm, pd) * 86400 + ph * 3600 + pmin * 60 - east;
		if (t == (time_t) -1) {
			if (want == -1) { r.cls("discard:result-is-minus-one"); rc = 2; goto done; }
			if (plain && east >= -14 * 3600 && east <= 14 * 3600) rc = r.fail("C14:valid-pil-refused", "%s refused a valid PIL; expected %lld", FNAME[fn], want);
			failing = true; goto done;
		}
		if ((long long) t != want) rc = r.fail("C14:lto-time-value", "%s = %lld, expected %lld (local %lld-%02u-%02u %02u:%02u in UTC%+d s)", FNAME[fn], (long long) t, want, year, pm, pd, ph, pmin, east);
	} else if (fn == 1) {
		time_t t = vbi_pil_to_time(pil, (time_t) start, zone);
		TzState after = snap(); if ((rc = cmp_state(r, before, after, FNAME[fn]))) goto done;
		if (!valid) { failing = true; if (t != (time_t) -1) rc = r.fail("C14:invalid-pil-accepted", "%s accepted PIL %05x -> %lld", FNAME[fn], pil, (long long) t); goto done; }
		if (!have_ref || !plain) { if (t == (time_t) -1) failing = true; goto done; }
		if (feb29_bad) { failing = true; if (t != (time_t) -1) rc = r.fail("C14:feb29-accepted", "%s accepted 29 February in the non-leap year %lld -> %lld", FNAME[fn], year, (long long) t); goto done; }
		Civil w = { year, pm, pd, ph, pmin, 0 };
		if (t == (time_t) -1) {
			failing = true;
			time_t f;
			if (plain && wall_exists(eff, w, &f) && f != (time_t) -1) rc = r.fail("C14:valid-pil-refused", "%s refused a valid PIL; %lld-%02u-%02u %02u:%02u exists in the zone at %lld", FNAME[fn], year, pm, pd, ph, pmin, (long long) f);
			goto done;
		}
		Civil got;
		if (!view(eff, t, &got)) { rc = 2; goto done; }
		if (got != w) {
			if (!wall_exists(eff, w, nullptr)) { r.cls("discard:nonexistent-wall-clock-time"); rc = 2; goto done; }
			rc = r.fail("C14:tz-time-value", "%s = %lld which is %lld-%02u-%02u %02u:%02u:%02u in the zone, expected %lld-%02u-%02u %02u:%02u:00", FNAME[fn], (long long) t,
				got.y, got.mon, got.day, got.h, got.mi, got.s, year, pm, pd, ph, pmin);
		}
	} else {
		time_t b = (time_t) 0x5A5A5A5A, e = (time_t) 0x5A5A5A5B;
		vbi_bool ok;
		if (fn == 2) ok = vbi_pil_lto_validity_window(&b, &e, pil, (time_t) start, east);
		else if (fn == 3) ok = vbi_pil_validity_window(&b, &e, pil, (time_t) start, zone);
		else ok = vbi_pty_validity_window(&b, &e, (time_t) start, zone);
		TzState after = snap(); if ((rc = cmp_state(r, before, after, FNAME[fn]))) goto done;
		if (!ok) failing = true;
		if (!plain) { if (ok && !(b < e)) rc = r.fail("C14:window-order", "%s: begin >= end", FNAME[fn]); goto done; }	// extreme reference times: safety only
		if (fn == 4) {
			if (!ok) { if (plain && have_ref) rc = r.fail("C14:pty-window-refused", "%s failed for an ordinary time", FNAME[fn]); goto done; }
			if (b != (time_t) start) { rc = r.fail("C14:pty-window-begin", "PTY window begins at %lld, last transmission %lld", (long long) b, start); goto done; }
			if (!(b < e)) { rc = r.fail("C14:window-order", "PTY window begin %lld >= end %lld", (long long) b, (long long) e); goto done; }
			if (!have_ref) goto done;
			// end: 04:00 local, 4 weeks + 1 day after the day of the last transmission
			long long dn = days_from_civil(ref.y, ref.mon, ref.day) + 29;
			Civil w; civil_from_days(dn, &w.y, &w.mon, &w.day); w.h = 4; w.mi = 0; w.s = 0;
			Civil got; if (!view(eff, e, &got)) { rc = 2; goto done; }
			if (got != w) {
				if (!wall_exists(eff, w, nullptr)) { rc = 2; goto done; }
				rc = r.fail("C14:pty-window-end", "PTY window ends %lld-%02u-%02u %02u:%02u:%02u local, expected %lld-%02u-%02u 04:00:00", got.y, got.mon, got.day, got.h, got.mi, got.s, w.y, w.mon, w.day);
			}
			goto done;
		}
		// PIL windows: classes of EN 300 231 Annex F
		bool indefinite = false, refuse = false, nspv = false;
		if (pm == 0) refuse = true;
		else if (pm <= 12) { if (!date_ok) indefinite = true; }
		else if (pm <= 14) indefinite = true;
		else {
			if (pil == VBI_PIL_TIMER_CONTROL || pil == VBI_PIL_INHIBIT_TERMINATE || pil == VBI_PIL_INTERRUPTION || pil == VBI_PIL_CONTINUE) indefinite = true;
			else if (pil == VBI_PIL_NSPV) nspv = true;
			else refuse = true;
		}
		if (refuse) {
			if (ok) rc = r.fail("C14:window-unallocated-accepted", "%s accepted unallocated PIL %05x", FNAME[fn], pil);
			else if (b != (time_t) 0x5A5A5A5A || e != (time_t) 0x5A5A5A5B) rc = r.fail("C14:window-outputs-on-failure", "%s failed but modified begin/end", FNAME[fn]);
			goto done;
		}
		if (nspv) { if (ok && !(b < e)) rc = r.fail("C14:window-order", "NSPV window begin >= end"); goto done; }
		if (date_ok && have_ref && feb29_bad) indefinite = true;
		if (indefinite) {
			if (!ok) { if (have_ref) rc = r.fail("C14:indefinite-window-refused", "%s failed for PIL %05x which has an indefinite window", FNAME[fn], pil); goto done; }
			if (!(b < e) || (double) e - (double) b < 86400.0 * 365 * 100) rc = r.fail("C14:indefinite-window", "%s: PIL %05x should have an indefinite window, got [%lld, %lld]", FNAME[fn], pil, (long long) b, (long long) e);
			goto done;
		}
		if (!have_ref) goto done;
		if (!ok) { if (plain && (fn == 3 || (east >= -14 * 3600 && east <= 14 * 3600))) {
				Civil w0 = { year, pm, pd, 0, 0, 0 };
				if (fn == 3 && !wall_exists(eff, w0, nullptr)) { rc = 2; goto done; }
				rc = r.fail("C14:window-refused", "%s failed for valid date PIL %05x", FNAME[fn], pil); }
			goto done; }
		if (!(b < e)) { rc = r.fail("C14:window-order", "%s: begin %lld >= end %lld", FNAME[fn], (long long) b, (long long) e); goto done; }
		// wall clock of begin and end
		long long d0 = days_from_civil(year, pm, pd);
		Civil wb, we;
		if (ph < 4) { civil_from_days(d0 - 1, &wb.y, &wb.mon, &wb.day); wb.h = 20; } else { civil_from_days(d0, &wb.y, &wb.mon, &wb.day); wb.h = 0; }
		wb.mi = wb.s = 0;
		civil_from_days(d0 + 1, &we.y, &we.mon, &we.day); we.h = 4; we.mi = we.s = 0;
		Civil gb, ge;
		if ((long long) b < -(1LL << 50) || (long long) e > (1LL << 50)) { rc = r.fail("C14:window-bounds", "%s: indefinite window [%lld, %lld] returned for a PIL with a valid date (%lld-%02u-%02u)", FNAME[fn], (long long) b, (long long) e, year, pm, pd); goto done; }
		if (fn == 2) { gb = civil_utc((long long) b + east); ge = civil_utc((long long) e + east); }
		else if (!view(eff, b, &gb) || !view(eff, e, &ge)) { rc = 2; goto done; }
		if (gb != wb || ge != we) {
			if (fn == 3 && (!wall_exists(eff, wb, nullptr) || !wall_exists(eff, we, nullptr))) { r.cls("discard:nonexistent-wall-clock-time"); rc = 2; goto done; }
			rc = r.fail("C14:window-bounds", "%s: window is %lld-%02u-%02u %02u:%02u .. %lld-%02u-%02u %02u:%02u local, expected %lld-%02u-%02u %02u:00 .. %lld-%02u-%02u 04:00",
				FNAME[fn], gb.y, gb.mon, gb.day, gb.h, gb.mi, ge.y, ge.mon, ge.day, ge.h, ge.mi, wb.y, wb.mon, wb.day, wb.h, we.y, we.mon, we.day);
			goto done;
		}
		if (fn == 2 && (long long) e - (long long) b != (ph < 4 ? 32 : 28) * 3600) { rc = r.fail("C14:window-length", "window length %lld s", (long long) e - (long long) b); goto done; }
		// contains the converted start time
		if (valid) {
			time_t t = fn == 2 ? vbi_pil_lto_to_time(pil, (time_t) start, east) : vbi_pil_to_time(pil, (time_t) start, zone);
			if (t != (time_t) -1 && !(b <= t && t < e)) rc = r.fail("C14:window-excludes-start", "window [%lld, %lld) does not contain the converted time %lld", (long long) b, (long long) e, (long long) t);
		}
	}
done:
	{ Ambient u; u.set = false; set_ambient(u); }
	if (rc == 1 || rc == 2) return rc;
	int md = have_ref ? abs((int) pm - (int) ref.mon) : 0;
	bool near_boundary = have_ref && ((ref.mon == 12 && ref.day >= 30) || (ref.mon == 1 && ref.day <= 2));
	r.nontrivial = (date_ok && md >= 5) || near_boundary || dstzone || failing;
	if (date_ok && md >= 5) r.cls("month-distance>=5");
	if (near_boundary) r.cls("near-year-boundary");
	if (dstzone) r.cls("dst-zone");
	if (failing) r.cls("failing-call");
	return 0;
}

bool vf_leak_check() { return false; }
void vf_defaults(bool thorough, uint64_t *cases, size_t *max_size) { *cases = thorough ? 20000000 : 800000; *max_size = 64; }
