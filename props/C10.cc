// C10 - The Teletext cache is a coherent, bounded, reference-safe page store.
// Stateful (model-based) testing: histories of cache operations are applied to the real cache
// and to a map model; after every step lookups, held pages, counters and lists are compared.
#include "../engine/engine.h"
#include "C10_shim.h"
#include <list>
#include <set>

extern "C" { void vbi_cache_delete(void *); void *vbi_cache_new(void); }

const char *vf_prop_id = "C10";
const char *vf_rule =
	"history of up to ~150 fixed-size operation records (put / get exact / get masked / ref / unref / foreach / channel switch / "
	"hold+release network / page-type update / is_cached+hi_subno / set memory limit) over 7 page numbers (two sharing a hash bucket, "
	"one hex) x 9 subcodes x 8 page kinds, on the decoder's cache or a bare cache; non-trivial: a page replaced while referenced, or a "
	"zombie released after its network was switched away, or an eviction, or a wildcard lookup among >= 2 versions. "
	"Exhaustive: all histories up to depth 5 (quick) / 6 (thorough) over a 12-operation alphabet under a tight memory limit.";

using namespace vf;

static const int PGNOS[] = {0x100, 0x171, 0x1AB, 0x2FE, 0x8FE, 0x234, 0x111};
static const int SUBNOS[] = {0, 1, 2, 0x79, 0x80, 0x1234, 0x2359, 0x3F7E, 0x11};
// function codes of enum ttx_page_function (vt.h): DISCARD -2? use the values via kinds below
enum { F_UNKNOWN = -1, F_LOP = 0, F_DATA, F_GPOP, F_POP, F_GDRCS, F_DRCS, F_MOT, F_MIP, F_BTT, F_AIT, F_MPT, F_MPT_EX, F_TRIGGER };
struct Kind { int function; unsigned x26, x28; const char *name; };
static const Kind KINDS[] = {
	{F_LOP, 0, 0, "LOP"}, {F_LOP, 1, 0, "LOP+X26"}, {F_LOP, 3, 1, "LOP+X28"}, {F_UNKNOWN, 0, 0, "UNKNOWN"},
	{F_POP, 0, 0, "POP"}, {F_DRCS, 0, 0, "DRCS"}, {F_AIT, 0, 0, "AIT"}, {F_GPOP, 0, 0, "GPOP"},
	{F_LOP, 0, 0x10, "LOP+X28/4"}, {F_LOP, 1, 0x02, "LOP+X26+X28/1"},
};
#define ANY_SUBNO 0x3F7F
#define PT_NORMAL 0x01		/* VBI_NORMAL_PAGE */
#define PT_NONSTD 0x79		/* VBI_NONSTD_SUBPAGES: clock pages */

static bool is_bcd(unsigned v) { for (; v; v >>= 4) if ((v & 15) > 9) return false; return true; }
static bool digits_greater(unsigned bcd, unsigned max) { for (; bcd || max; bcd >>= 4, max >>= 4) if ((bcd & 15) > (max & 15)) return true; return false; }

// EN 300 706 A.1 subpage key rules as documented in cache.c
static void subno_key(int pgno, int subno, int page_type, int *stored, int *mask) {
	*stored = subno; *mask = 0;
	if (is_bcd((unsigned) pgno)) {
		if (subno == 0) return;
		if (page_type == PT_NONSTD || subno >= 0x100) {
			if (digits_greater((unsigned) subno, 0x2959) || subno > 0x2300) *stored = 0;
		} else if (digits_greater((unsigned) subno, 0x79)) *stored = 0;
		else *mask = 0xFF;
	} else *mask = 0x0F;
}

struct Ver { int id; int subno; c10_desc d; unsigned size; int refs; };
struct Net {
	int id; void *cn; int refs; bool is_decoder_net;
	std::map<int, std::list<Ver>> pages;	// per page number, most recently used first
	std::map<int, int> page_type;
	std::map<int, int> regime;		// subcode mask class in force per page number
	int zombies = 0;			// replaced-while-referenced pages still held
};
struct Handle { void *cp; int net_id; int ver_id; c10_desc d; int stored; bool zombie; bool net_dropped; };

struct World {
	void *dec = nullptr, *ca = nullptr;
	std::vector<Net> nets;		// live (harness or decoder holds a reference)
	std::vector<Handle> handles;
	int next_id = 1;
	bool tight = false;
	// shapes seen
	bool replaced_referenced = false, zombie_after_switch = false, evicted = false, wildcard_multi = false;
	Report *r;
	Net *net(int id) { for (auto &n : nets) if (n.id == id) return &n; return nullptr; }
};

static int audit(World &w, const char *after) {
	c10_audit_t a;
	if (c10_audit(w.ca, &a)) return w.r->fail("C10:audit", "after %s: %s", after, a.err);
	if (c10_memory_used(w.ca) > c10_memory_limit(w.ca)) return w.r->fail("C10:memory-limit", "after %s: memory_used %lu > memory_limit %lu", after, c10_memory_used(w.ca), c10_memory_limit(w.ca));
	return 0;
}

// compare the complete reachable state; reconcile evictions (only when allowed)
static int compare(World &w, const char *after, bool eviction_allowed) {
	for (auto &n : w.nets) {
		unsigned count = 0;
		for (auto &pp : n.pages) {
			for (auto it = pp.second.begin(); it != pp.second.end();) {
				void *cp = c10_find(w.ca, n.cn, pp.first, it->subno);
				if (!cp) {
					if (it->refs > 0) return w.r->fail("C10:referenced-page-lost", "after %s: page %x.%x is referenced but no longer cached", after, pp.first, it->subno);
					if (!eviction_allowed) return w.r->fail("C10:page-lost", "after %s: page %x.%x (net %d) vanished although the memory limit did not require an eviction", after, pp.first, it->subno, n.id);
					w.evicted = true;
					it = pp.second.erase(it);
					continue;
				}
				if (!c10_matches(cp, &it->d, it->subno)) return w.r->fail("C10:content", "after %s: cached page %x.%x differs from what was stored", after, pp.first, it->subno);
				++count; ++it;
			}
		}
		unsigned real = c10_net_cached_pages(n.cn);
		if (real != count + (unsigned) n.zombies) return w.r->fail("C10:net-page-count", "after %s: network %d holds %u pages, model %u cached + %d zombies", after, n.id, real, count, n.zombies);
	}
	for (auto &h : w.handles)
		if (!c10_matches(h.cp, &h.d, h.stored)) return w.r->fail("C10:held-page-changed", "after %s: held page %x.%x (%s) no longer intact", after, h.d.pgno, h.stored, h.zombie ? "zombie" : "cached");
	return 0;
}

static Ver *find_ver(Net &n, int pgno, int subno, int mask) {
	auto it = n.pages.find(pgno);
	if (it == n.pages.end()) return nullptr;
	for (auto &v : it->second) if ((v.subno & mask) == (subno & mask)) return &v;
	return nullptr;
}
static void move_front(Net &n, int pgno, int ver_id) {
	auto &l = n.pages[pgno];
	for (auto it = l.begin(); it != l.end(); ++it) if (it->id == ver_id) { l.splice(l.begin(), l, it); return; }
}

static void reset_page_types(World &w, Net &n) {
	for (int p : PGNOS) { c10_set_page_type(n.cn, p, PT_NORMAL); n.page_type[p] = PT_NORMAL; }
}

static int op_put(World &w, Net &n, int pgno, int subno, const Kind &k, unsigned tag, bool keep) {
	int stored, mask;
	int ptype = n.page_type.count(pgno) ? n.page_type[pgno] : PT_NORMAL;
	subno_key(pgno, subno, ptype, &stored, &mask);
	// One subpage regime per (network, page number): a page is either single-version (subcode 0, clock / rolling
	// subcodes) or a set of subpages; a single page may later grow subpages (0 -> 1, 2, ...), and a page with subpages
	// may become single-version (the broadcaster drops the subpages, or the page type is updated to clock): the
	// single-version store then replaces every version stored before.  Other regime changes (hex / decimal key rules
	// cannot change for one page number) stay outside the generated domain.
	if (!n.pages[pgno].empty()) {
		int reg = n.regime[pgno];
		if (mask != reg && !(reg == 0 && mask == 0xFF) && mask != 0) {
			bool found = false;
			for (auto &v : n.pages[pgno]) { int fs, fm; subno_key(pgno, v.d.subno, ptype, &fs, &fm); if (fm == reg) { subno = v.d.subno; found = true; break; } }
			if (!found) { w.r->cls("put:regime-skipped"); return 0; }
			subno_key(pgno, subno, ptype, &stored, &mask);
			w.r->cls("put:regime-remapped");
		}
	}
	n.regime[pgno] = mask;
	c10_desc d = { k.function, pgno, subno, k.x26, k.x28, tag };
	unsigned size = c10_size(&d);
	w.r->say("put net%d %x.%x %s tag %u%s\n", n.id, pgno, subno, k.name, tag, keep ? " (keep ref)" : "");
	unsigned long used = c10_memory_used(w.ca), limit = c10_memory_limit(w.ca);
	void *cp = c10_put(w.ca, n.cn, &d);
	if ((pgno & 0xFF) == 0xFF) {
		if (cp) return w.r->fail("C10:put-invalid-pgno", "page %x stored", pgno);
		return 0;
	}
	Ver *old = find_ver(n, pgno, stored, mask);
	long avail = (long) limit - (long) used;
	if (old && old->refs == 0) avail += old->size;
	if (!cp) {
		if ((unsigned long) size <= limit) return w.r->fail("C10:put-failed", "put %x.%x (%u bytes) failed with limit %lu", pgno, subno, size, limit);
		// a failed put may still have turned a referenced old version into a zombie; treat like a replacement
	}
	if (old) {
		if (old->refs > 0) {
			w.replaced_referenced = true;
			for (auto &h : w.handles) if (h.net_id == n.id && h.ver_id == old->id) h.zombie = true;
			++n.zombies;
		}
		int oid = old->id;
		auto &l = n.pages[pgno];
		for (auto it = l.begin(); it != l.end(); ++it) if (it->id == oid) { l.erase(it); break; }
	}
	if (!cp) return 0;
	if (mask == 0 && !n.pages[pgno].empty()) {	// single-version store: all other versions of this page number are replaced too
		auto &l = n.pages[pgno];
		for (auto &ov : l) if (ov.refs > 0) {
			w.replaced_referenced = true;
			for (auto &h : w.handles) if (h.net_id == n.id && h.ver_id == ov.id) h.zombie = true;
			++n.zombies;
		}
		w.r->cls("put:single-version-replaces-subpages", l.size());
		l.clear();
	}
	Ver v; v.id = w.next_id++; v.subno = stored; v.d = d; v.size = size; v.refs = 1;
	n.pages[pgno].push_front(v);
	Handle h = { cp, n.id, v.id, d, stored, false, false };
	int ps, pp; unsigned rc; void *net;
	c10_page_ident(cp, &pp, &ps, &rc, &net);
	if (pp != pgno || ps != stored || rc != 1 || net != n.cn)
		return w.r->fail("C10:put-result", "put %x.%x returned page %x.%x ref_count %u (expected %x.%x, 1)", pgno, subno, pp, ps, rc, pgno, stored);
	w.handles.push_back(h);
	if (audit(w, "put")) return 1;
	if (compare(w, "put", avail < (long) size)) return 1;
	if (!keep) {
		// release at once, as the decoder does after storing a page
		unsigned long u2 = c10_memory_used(w.ca);
		c10_unref(cp);
		w.handles.pop_back();
		if (Ver *nv = find_ver(n, pgno, stored, -1)) nv->refs = 0;
		if (audit(w, "put+unref")) return 1;
		if (compare(w, "put+unref", u2 + size > limit)) return 1;
	}
	return 0;
}

static int op_get(World &w, Net &n, int pgno, int subno, int mask, bool keep) {
	w.r->say("get net%d %x.%x mask %x%s\n", n.id, pgno, subno, mask, keep ? " (keep ref)" : "");
	void *cp = c10_get(w.ca, n.cn, pgno, subno, mask);
	bool valid = pgno >= 0x100 && pgno <= 0x8FF && (pgno & 0xFF) != 0xFF;
	int emask = subno == ANY_SUBNO ? 0 : mask;
	Ver *v = valid ? find_ver(n, pgno, subno, emask) : nullptr;
	if (!v) {
		if (cp) { int pp, ps; unsigned rc; void *net; c10_page_ident(cp, &pp, &ps, &rc, &net); c10_unref(cp);
			return w.r->fail("C10:get-phantom", "get %x.%x/%x returned page %x.%x although none was stored (or it was replaced / switched away)", pgno, subno, mask, pp, ps); }
		return 0;
	}
	if (!cp) return w.r->fail("C10:get-missing", "get %x.%x/%x found nothing, model has %x.%x", pgno, subno, mask, pgno, v->subno);
	int pp, ps; unsigned rc; void *net;
	c10_page_ident(cp, &pp, &ps, &rc, &net);
	if (n.pages[pgno].size() >= 2 && emask != -1) w.wildcard_multi = true;
	if (pp != pgno || ps != v->subno || net != n.cn) { c10_unref(cp);
		return w.r->fail("C10:get-wrong-version", "get %x.%x/%x returned %x.%x, the most recently stored or looked-up matching version is %x.%x", pgno, subno, mask, pp, ps, pgno, v->subno); }
	if (!c10_matches(cp, &v->d, v->subno)) { c10_unref(cp); return w.r->fail("C10:get-content", "get %x.%x returned altered content", pgno, ps); }
	if (rc != (unsigned) v->refs + 1) { c10_unref(cp); return w.r->fail("C10:ref-count", "page %x.%x ref_count %u, model %d", pgno, ps, rc, v->refs + 1); }
	int vid = v->id;
	move_front(n, pgno, vid);
	v = find_ver(n, pgno, ps, -1);
	if (keep) { ++v->refs; Handle h = { cp, n.id, vid, v->d, v->subno, false, false }; w.handles.push_back(h); }
	else c10_unref(cp);
	if (audit(w, "get")) return 1;
	return compare(w, "get", false);
}

static int op_unref(World &w, size_t idx) {
	Handle h = w.handles[idx];
	w.handles.erase(w.handles.begin() + idx);
	w.r->say("unref handle %zu (%x.%x%s)\n", idx, h.d.pgno, h.stored, h.zombie ? " zombie" : "");
	unsigned long used = c10_memory_used(w.ca), limit = c10_memory_limit(w.ca);
	c10_unref(h.cp);
	bool allow = false;
	Net *n = w.net(h.net_id);
	bool still_held = false;
	for (auto &o : w.handles) if (o.cp == h.cp) still_held = true;
	if (n && !h.zombie) {
		for (auto &pp : n->pages) for (auto &v : pp.second) if (v.id == h.ver_id) { --v.refs; if (v.refs == 0) allow = used + v.size > limit; }
	} else if (n && h.zombie) {
		if (!still_held) --n->zombies;
	}
	if (h.net_dropped && !still_held) w.zombie_after_switch = true;
	if (audit(w, "unref")) return 1;
	return compare(w, "unref", allow);
}

static int op_foreach(World &w, Net &n, int pgno, int subno, int dir, int stop_after) {
	// expected order: all cached (pgno, subno) of the network, cyclic from the start position
	std::vector<std::pair<int, int>> all;
	bool big = false;
	for (auto &pp : n.pages) for (auto &v : pp.second) { all.push_back({pp.first, v.subno}); if (v.subno > 0xFF) big = true; }
	if (big && exclusions_on()) { ++w.r->excluded_known; w.r->say("foreach skipped: network holds a subcode > 0xFF (known finding)\n"); return 0; }
	// start position: a cached page or "any subpage" (an explicit subcode that is not cached has no documented meaning; C17 covers search starts)
	if (subno != ANY_SUBNO && !find_ver(n, pgno, subno, -1)) subno = ANY_SUBNO;
	w.r->say("foreach net%d from %x.%x dir %d stop after %d\n", n.id, pgno, subno, dir, stop_after);
	w.r->say("  (model: %zu cached versions, %d zombies in this network)\n", all.size(), n.zombies);
	c10_visit vis[16]; int ret = -1;
	int nv = c10_foreach(w.ca, n.cn, pgno, subno, dir, vis, 16, stop_after, &ret);
	// an empty network: nothing visited; "no pages" (0) or, when only unreachable zombie pages are left, "all done" (-1) after the walk wrapped twice
	if (all.empty()) { if (nv != 0 || (ret != 0 && ret != -1)) return w.r->fail("C10:foreach-empty", "foreach on an empty network visited %d pages (return %d)", nv, ret); return 0; }
	std::sort(all.begin(), all.end());
	// start: the page itself if cached (ANY = most recent version), else the next one in direction
	std::vector<std::pair<int, int>> want;
	int start_sub = subno;
	Ver *sv = find_ver(n, pgno, subno, subno == ANY_SUBNO ? 0 : -1);
	size_t pos;
	if (sv) { start_sub = sv->subno; pos = std::find(all.begin(), all.end(), std::make_pair(pgno, start_sub)) - all.begin(); }
	else {
		if (subno == ANY_SUBNO) start_sub = 0;
		std::pair<int, int> key(pgno, start_sub);
		if (dir > 0) { pos = std::upper_bound(all.begin(), all.end(), key) - all.begin(); if (pos == all.size()) pos = 0; }
		else { size_t lb = std::lower_bound(all.begin(), all.end(), key) - all.begin(); pos = lb == 0 ? all.size() - 1 : lb - 1; }
	}
	// the walk ends by itself ("all done", -1) when it would wrap around a second time: the pages from the start position to the end of the
	// number range, then once through all pages
	int avail;
	{
		std::pair<int, int> skey(pgno, sv ? start_sub : (subno == ANY_SUBNO ? 0 : subno));
		size_t n1 = 0;
		for (auto &p : all) if (dir > 0 ? !(p < skey) : !(skey < p)) ++n1;	// at or beyond the start position in walking direction
		if (!sv) { n1 = 0; for (auto &p : all) if (dir > 0 ? (skey < p) : (p < skey)) ++n1; }
		avail = (int)(n1 + all.size());
	}
	int expect_n = std::min(stop_after, avail);
	for (int k = 0; k < expect_n; ++k) { want.push_back(all[pos]); pos = dir > 0 ? (pos + 1) % all.size() : (pos + all.size() - 1) % all.size(); }
	if (nv != expect_n || ret != (stop_after <= avail ? 1 : -1)) return w.r->fail("C10:foreach-count", "foreach visited %d pages (return %d), expected %d (return %d)", nv, ret, expect_n, stop_after <= avail ? 1 : -1);
	stop_after = expect_n;
	for (int k = 0; k < stop_after && k < 16; ++k)
		if (vis[k].pgno != want[k].first || vis[k].subno != want[k].second)
			return w.r->fail("C10:foreach-order", "foreach visit #%d is %x.%x, expected %x.%x", k, vis[k].pgno, vis[k].subno, want[k].first, want[k].second);
	for (auto &p : want) if (Ver *v = find_ver(n, p.first, p.second, -1)) move_front(n, p.first, v->id);
	if (audit(w, "foreach")) return 1;
	return compare(w, "foreach", false);
}

static void drop_net(World &w, int id) {
	for (auto &h : w.handles) if (h.net_id == id) { h.net_dropped = true; h.net_id = -1; }
	for (size_t i = 0; i < w.nets.size(); ++i) if (w.nets[i].id == id) { w.nets.erase(w.nets.begin() + i); return; }
}

static int run_history(Src &s, Report &r, bool bare, unsigned max_ops) {
	World w; w.r = &r;
	int rc = 0;
	if (bare) { w.ca = vbi_cache_new(); if (!w.ca) return 2; }
	else { w.dec = c10_decoder_new(); if (!w.dec) return 2; w.ca = c10_decoder_cache(w.dec); }
	{ Net n; n.id = w.next_id++; n.refs = 1; n.is_decoder_net = true; n.cn = bare ? c10_add_network(w.ca) : c10_decoder_network(w.dec); w.nets.push_back(n); reset_page_types(w, w.nets.back()); }
	c10_desc lop = { F_LOP, 0x100, 0, 0, 0, 0 };
	unsigned lopsize = c10_size(&lop);
	unsigned tightness = s.pick(5);		// 0: default 1 GiB limit
	if (tightness) { c10_set_limit(w.ca, 8192 + lopsize * (tightness * 2 - 1)); w.tight = true; r.say("memory limit %lu\n", c10_memory_limit(w.ca)); }
	unsigned nops = 1 + s.range(0, max_ops - 1);
	for (unsigned i = 0; i < nops && !rc && !s.eof(); ++i) {
		unsigned op = s.pick(16), a = s.u8(), b = s.u8(), c = s.u8();
		Net *n = &w.nets[a % w.nets.size()];
		int pgno = PGNOS[b % 7], subno = SUBNOS[(b >> 3) % 9];
		switch (op) {
		case 0: case 1: case 2: case 3: case 4:
			rc = op_put(w, *n, pgno, subno, KINDS[((c & 7) == 2 && (c & 0x40)) ? 8 + ((c >> 5) & 1) : (c & 7)], (c >> 3) + 1, op == 4 || (c & 0x80)); break;	// (half of the "LOP+X28" choices go to the two kinds added later: X/28/4 only, X/26 + X/28/1)
		case 5: rc = op_get(w, *n, pgno, subno, -1, c & 1); break;
		case 6: { static const int masks[] = {0, 0xFF, 0x0F, -1}; rc = op_get(w, *n, pgno, (c & 2) ? ANY_SUBNO : subno, masks[(c >> 2) & 3], c & 1); break; }
		case 7: case 8: if (!w.handles.empty()) rc = op_unref(w, c % w.handles.size()); break;
		case 9: if (!w.handles.empty()) {
				Handle h = w.handles[c % w.handles.size()];
				r.say("ref handle (%x.%x)\n", h.d.pgno, h.stored);
				c10_ref(h.cp);
				if (Net *hn = w.net(h.net_id)) if (!h.zombie) for (auto &pp : hn->pages) for (auto &v : pp.second) if (v.id == h.ver_id) ++v.refs;
				w.handles.push_back(h);
				rc = audit(w, "ref") || compare(w, "ref", false);
			} break;
		case 10: rc = op_foreach(w, *n, (c & 0x40) ? 0x100 + (c & 0x3F) * 7 : pgno, (c & 0x80) ? ANY_SUBNO : subno, (a & 0x80) ? -1 : 1, 1 + (a & 3)); break;
		case 11: {	// channel switch of the decoder network
			Net *dn = nullptr; for (auto &x : w.nets) if (x.is_decoder_net) dn = &x;
			r.say("channel switch\n");
			int old_id = dn->id; bool survives = dn->refs > 1;
			void *ncn;
			if (w.dec) { c10_decoder_switch(w.dec); ncn = c10_decoder_network(w.dec); }
			else { c10_network_unref(dn->cn); ncn = c10_add_network(w.ca); }
			dn->is_decoder_net = false; --dn->refs;
			if (!survives) drop_net(w, old_id);
			Net nn; nn.id = w.next_id++; nn.refs = 1; nn.is_decoder_net = true; nn.cn = ncn;
			for (auto &x : w.nets) if (x.cn == ncn) rc = r.fail("C10:network-reused-while-referenced", "the new network shares its structure with a network that is still referenced");
			w.nets.push_back(nn);
			reset_page_types(w, w.nets.back());
			if (!rc) rc = audit(w, "switch") || compare(w, "switch", w.tight);
			if (!rc && c10_net_cached_pages(ncn) != 0) rc = r.fail("C10:new-network-not-empty", "after a channel switch the new network already holds %u pages", c10_net_cached_pages(ncn));
			break;
		}
		case 12: {	// harness takes its own reference on a network (e.g. a second decoder sharing the cache)
			if (w.nets.size() >= 3) break;
			r.say("hold net%d\n", n->id);
			c10_network_ref(n->cn); ++n->refs;
			rc = audit(w, "network ref");
			break;
		}
		case 13: {	// release a harness reference
			Net *hn = nullptr; for (auto &x : w.nets) if (x.refs > (x.is_decoder_net ? 1 : 0)) hn = &x;
			if (!hn) break;
			r.say("release net%d\n", hn->id);
			c10_network_unref(hn->cn); --hn->refs;
			if (hn->refs == 0) drop_net(w, hn->id);
			rc = audit(w, "network unref") || compare(w, "network unref", w.tight);
			break;
		}
		case 14: {	// page type update (MIP/BTT say: clock page / normal page)
			int t = (c & 1) ? PT_NONSTD : PT_NORMAL;
			r.say("page type net%d %x := %s\n", n->id, pgno, t == PT_NONSTD ? "nonstd-subpages" : "normal");
			if (!n->pages[pgno].empty()) break;	// the regime of a page with stored versions stays (see op_put)
			c10_set_page_type(n->cn, pgno, t); n->page_type[pgno] = t;
			break;
		}
		default: {	// decoder queries
			if (!w.dec) break;
			Net *dn = nullptr; for (auto &x : w.nets) if (x.is_decoder_net) dn = &x;
			int q = (c & 1) ? ANY_SUBNO : subno;
			r.say("is_cached %x.%x / hi_subno\n", pgno, q);
			Ver *v = find_ver(*dn, pgno, q, q == ANY_SUBNO ? 0 : -1);
			int got = c10_is_cached(w.dec, pgno, q);
			if ((got != 0) != (v != nullptr)) { rc = r.fail("C10:is-cached", "vbi_is_cached(%x, %x) = %d, model %s", pgno, q, got, v ? "cached" : "not cached"); break; }
			if (v) move_front(*dn, pgno, v->id);
			// highest subpage: judged on the documented 0 ... 0x79 subpage range while nothing was replaced or evicted
			int hi = 0; bool plain = true;
			for (auto &x : dn->pages[pgno]) { if (x.subno > 0x79) plain = false; if (x.subno > hi) hi = x.subno; }
			int got_hi = c10_hi_subno(w.dec, pgno);
			if (plain && !w.tight && got_hi < hi) rc = r.fail("C10:hi-subno", "vbi_cache_hi_subno(%x) = %x, a subpage %x is cached", pgno, got_hi, hi);
			if (!rc) rc = audit(w, "is_cached") || compare(w, "is_cached", false);
		}
		}
	}
	// release everything; the engine's allocation bracket then checks that nothing is left
	while (!rc && !w.handles.empty()) rc = op_unref(w, w.handles.size() - 1);
	if (rc) { for (auto &h : w.handles) c10_unref(h.cp); w.handles.clear(); }
	for (auto &n : w.nets) {
		int extra = n.refs - (n.is_decoder_net && w.dec ? 1 : 0);
		for (int k = 0; k < extra; ++k) c10_network_unref(n.cn);
	}
	if (!rc) { c10_audit_t a; if (c10_audit(w.ca, &a)) rc = r.fail("C10:audit", "after releasing all references: %s", a.err);
		else if (a.n_referenced) rc = r.fail("C10:referenced-left", "%u pages still on the referenced list after every handle was released", a.n_referenced); }
	if (w.dec) c10_decoder_delete(w.dec); else vbi_cache_delete(w.ca);
	r.nontrivial = w.replaced_referenced || w.zombie_after_switch || w.evicted || w.wildcard_multi;
	if (w.replaced_referenced) r.cls("replace-while-referenced");
	if (w.zombie_after_switch) r.cls("held-page-released-after-switch");
	if (w.evicted) r.cls("eviction");
	if (w.wildcard_multi) r.cls("wildcard-among-versions");
	r.cls(bare ? "bare-cache" : "decoder-cache");
	return rc;
}

int vf_run_case(Src &s, Report &r) {
	bool bare = s.chance(1, 3);
	return run_history(s, r, bare, 150);
}

void vf_defaults(bool thorough, uint64_t *cases, size_t *max_size) { *cases = thorough ? 3000000 : 150000; *max_size = 700; }

// exhaustive: all sequences over a 12 operation alphabet; each operation is a fixed 4 byte record
int vf_exhaustive(Report &r, bool thorough, int w, int nw, VfExh &e) {
	static const uint8_t OPS[12][4] = {
		{0, 0, 0x00, 0x08},	// put 100.0 LOP tag 2, release
		{0, 0, 0x00, 0x91},	// put 100.0 LOP+X26 tag 3, keep
		{0, 0, 0x0e, 0x18},	// put 100.1 LOP
		{0, 0, 0x01, 0x24},	// put 171.0 POP (same bucket as 100)
		{0, 0, 0x2c, 0x0D},	// put 1AB.1234 DRCS
		{5, 0, 0x00, 0x01},	// get 100.0 exact keep
		{6, 0, 0x00, 0x02},	// get 100.ANY
		{7, 0, 0, 0},		// unref handle 0
		{7, 0, 0, 1},		// unref handle 1
		{11, 0, 0, 0},		// channel switch
		{10, 0, 0x00, 0x80},	// foreach from 100.ANY
		{12, 0, 0, 0},		// hold network
	};
	unsigned depth = thorough ? 6 : 5;
	e.what = "all histories of length 1.." + std::to_string(depth) + " over 12 operations (put x5 incl. same hash bucket / other size classes / "
		"kept reference, get exact+any, unref x2, channel switch, foreach, hold network), bare cache, memory limit = 3 LOP pages + 8 KiB";
	uint64_t total = 0, idx = 0, nt = 0;
	for (unsigned d = 1; d <= depth; ++d) {
		uint64_t count = 1; for (unsigned k = 0; k < d; ++k) count *= 12;
		for (uint64_t c = 0; c < count; ++c, ++idx) {
			if ((int)(idx % nw) != w) continue;
			uint8_t buf[3 + 6 * 4 + 1];
			size_t n = 0;
			buf[n++] = 0xFF;	// bare cache
			buf[n++] = 2;		// tightness 2
			buf[n++] = (uint8_t)(d - 1);	// number of ops
			uint64_t x = c;
			for (unsigned k = 0; k < d; ++k) { memcpy(buf + n, OPS[x % 12], 4); n += 4; x /= 12; }
			buf[n++] = 0;
			Src s(buf, n);
			Report rr; rr.hist = r.hist;
			int rc = vf_run_case(s, rr);
			++total; if (rr.nontrivial) ++nt;
			if (rc == 1) {
				Src s2(buf, n); Report r2; r2.verbose = true; vf_run_case(s2, r2);
				r.sig = rr.sig; r.detail = rr.detail; r.desc = "exhaustive history:\n" + r2.desc;
				e.evaluations = total; e.nontrivial = nt;
				e.fail_case.assign(buf, buf + n);
				return 1;
			}
		}
	}
	e.evaluations = total; e.nontrivial = nt; e.complete = true;
	return 0;
}
