// C15 - IDL and PFC demultiplexers deliver the sent data in order and flag loss.
// Harness-side transmitters written from EN 300 708 (IDL format A: section 6.5, Page Format Clear: section 4).
#include "../engine/engine.h"
#include "../models/ttx_enc.h"
extern "C" {
#include "src/libzvbi.h"
}

const char *vf_prop_id = "C15";
const char *vf_rule =
	"IDL-A: 2-30 packets for one (channel, address) with generated format type (RI / CI / DL present), address length 0-6, dependent flag, "
	"explicit or implicit continuity indicator, payloads with runs of 0x00 / 0xFF (dummy byte insertion), mixed with other channels, other "
	"addresses, format B and ordinary Teletext packets; faults: dropped packet, CRC damage, Hamming damage. PFC: 1-12 blocks of 0-2047 bytes "
	"laid out over pages of 1-25 packets with block pointers, separators, fillers, structure headers split at every position; faults as above. "
	"Non-trivial: a run of >= 8 equal 0x00/0xFF bytes, or a block boundary in the last 4 bytes of a packet, or a fault.";

using namespace vf;

// ---------------- CRC x^16 + x^9 + x^7 + x^4 + 1, bits processed lsb first ----------------
static unsigned crc_byte(unsigned crc, unsigned byte) {
	for (int i = 0; i < 8; ++i) {
		unsigned bit = ((crc ^ (byte >> i)) & 1);
		crc >>= 1;
		if (bit) crc ^= 0x8940;
	}
	return crc & 0xFFFF;
}
// choose two check bytes such that the register ends as `target` (the register update is linear: solved with a byte table)
static void crc_solve(unsigned reg, unsigned target, uint8_t out[2]) {
	static unsigned T[256]; static int hi_index[256]; static bool init = false;
	if (!init) { for (unsigned x = 0; x < 256; ++x) { T[x] = crc_byte(0, x); } for (unsigned x = 0; x < 256; ++x) hi_index[T[x] >> 8] = (int) x; init = true; }
	// after one byte b: reg' = (reg >> 8) ^ T[(reg ^ b) & 0xFF]
	int idx2 = hi_index[(target >> 8) & 0xFF];
	unsigned h1 = (target & 0xFF) ^ (T[idx2] & 0xFF);	// high byte required of the intermediate register
	int idx1 = hi_index[h1 & 0xFF];
	unsigned s1 = ((reg >> 8) ^ T[idx1]) & 0xFFFF;
	out[0] = (uint8_t)(idx1 ^ (reg & 0xFF));
	out[1] = (uint8_t)(idx2 ^ (s1 & 0xFF));
	// self check against the bitwise definition
	if (crc_byte(crc_byte(reg, out[0]), out[1]) != target) {
		for (unsigned c0 = 0; c0 < 256; ++c0) { unsigned t1 = crc_byte(reg, c0); for (unsigned c1 = 0; c1 < 256; ++c1) if (crc_byte(t1, c1) == target) { out[0] = (uint8_t) c0; out[1] = (uint8_t) c1; return; } }
	}
}

// ---------------- IDL format A ----------------
struct IdlPkt { unsigned channel, ft, ial, spa, ri, ci; std::vector<uint8_t> data; bool target; };

static unsigned idl_capacity(unsigned ft, unsigned spa_len) {
	return 42 - 4 - spa_len - ((ft & 2) ? 1 : 0) - ((ft & 4) ? 1 : 0) - ((ft & 8) ? 1 : 0) - 2;
}
// user data with dummy bytes: after 8 consecutive 0x00 or 0xFF bytes a dummy byte follows (6.5.7.1)
static std::vector<uint8_t> idl_stuff(const std::vector<uint8_t> &d) {
	std::vector<uint8_t> o; unsigned run = 0; int last = -1;
	for (auto b : d) {
		o.push_back(b);
		if ((b == 0x00 || b == 0xFF) && b == last) ++run; else run = 1;
		last = b;
		if ((b == 0x00 || b == 0xFF) && run == 8) { o.push_back(0xAA); run = 0; last = 0xAA; }
	}
	return o;
}
static void idl_encode(uint8_t out[42], const IdlPkt &p, bool bad_crc) {
	unsigned spa_len = p.ial & 7, i = 0;
	out[0] = enc::ham8(p.channel); out[1] = enc::ham8(15); out[2] = enc::ham8(p.ft); out[3] = enc::ham8(p.ial);
	for (; i < spa_len; ++i) out[4 + i] = enc::ham8((p.spa >> (4 * i)) & 15);
	unsigned at = 4 + i;
	if (p.ft & 2) out[at++] = (uint8_t) p.ri;
	unsigned crc_from = at;
	if (p.ft & 4) out[at++] = (uint8_t) p.ci;
	std::vector<uint8_t> st = idl_stuff(p.data);
	if (p.ft & 8) out[at++] = (uint8_t)(0x40 | st.size());	// data length counts the transmitted bytes
	for (auto b : st) out[at++] = b;
	while (at < 40) out[at++] = 0x55;			// unused rest (only with DL)
	unsigned reg = 0;
	for (unsigned k = crc_from; k < 40; ++k) reg = crc_byte(reg, out[k]);
	unsigned target = (p.ft & 4) ? 0 : ((p.ci & 0xFF) | ((p.ci & 0xFF) << 8));	// implicit CI: both register bytes end as CI
	crc_solve(reg, target, out + 40);
	if (bad_crc) out[41] ^= 0x10;
}

struct IdlGot { std::vector<uint8_t> data; unsigned flags; };
static vbi_bool idl_cb(vbi_idl_demux *, const uint8_t *buf, unsigned n, unsigned flags, void *ud) {
	std::vector<IdlGot> *v = (std::vector<IdlGot> *) ud; IdlGot g; g.data.assign(buf, buf + n); g.flags = flags; v->push_back(g); return TRUE;
}

static int part_idl(Src &s, Report &r) {
	unsigned channel = s.pick(16), spa_len = s.pick(7), ft = (s.pick(8) << 1), dep = s.pick(2);
	unsigned ial = spa_len | (dep << 3);
	unsigned address = spa_len ? (s.u32() & ((1u << (4 * spa_len)) - 1)) : 0;
	unsigned cap = idl_capacity(ft, spa_len);
	unsigned ci = s.u8();
	unsigned npk = 2 + s.pick(29);
	std::vector<IdlGot> got;
	vbi_idl_demux *dx = vbi_idl_a_demux_new(channel, address, idl_cb, &got);
	if (!dx) return 2;
	r.say("IDL-A channel %u address %x (%u nibbles) ft %x%s%s%s dependent %u capacity %u\n", channel, address, spa_len, ft, (ft & 2) ? " RI" : "", (ft & 4) ? " CI" : " implicit-CI", (ft & 8) ? " DL" : "", dep, cap);
	struct Want { std::vector<uint8_t> data; bool lost_before; };
	std::vector<Want> want;
	bool pending_loss = false, crc_loss = false, first = true, long_run = false, faulted = false;
	unsigned excluded = 0;
	for (unsigned k = 0; k < npk; ++k) {
		unsigned what = s.pick(10);
		uint8_t pkt[42];
		if (what >= 7) {	// foreign traffic
			IdlPkt f; f.channel = channel; f.ft = ft; f.ial = ial; f.spa = address; f.ri = 0; f.ci = s.u8(); f.target = false;
			unsigned kind = s.pick(4);
			if (kind == 0) f.channel = (channel + 1 + s.pick(15)) & 15;
			else if (kind == 1 && spa_len) f.spa = address ^ (1u << s.pick(4 * spa_len));
			else if (kind == 2) f.ft = ft | 1;	// format B
			else { // ordinary Teletext packet of the same magazine
				for (int i = 0; i < 42; ++i) pkt[i] = enc::par(s.u8() & 0x7F);
				enc::address(pkt, channel & 7, s.pick(30)); vbi_idl_demux_feed(dx, pkt); r.say("  foreign: teletext packet\n"); continue;
			}
			if (kind == 1 && !spa_len) f.channel = (channel + 1) & 15;
			unsigned c2 = idl_capacity(f.ft & 0xE, f.ial & 7);
			for (unsigned i = 0; i < c2 / 2; ++i) f.data.push_back((uint8_t)(1 + s.u8() % 254));
			f.ft &= 0xF;
			idl_encode(pkt, f, false);
			if (kind == 2) pkt[2] = enc::ham8(f.ft | 1);
			vbi_idl_demux_feed(dx, pkt);
			r.say("  foreign: kind %u\n", kind);
			continue;
		}
		IdlPkt p; p.channel = channel; p.ft = ft; p.ial = ial; p.spa = address; p.ri = 0; p.ci = ci; p.target = true;
		// payload: bytes with runs of 0x00 / 0xFF
		unsigned budget = cap, style = s.pick(4);
		std::vector<uint8_t> d;
		while (true) {
			unsigned runlen = 1; uint8_t b;
			if (style >= 2 && s.chance(1, 3)) { b = s.chance(1, 2) ? 0x00 : 0xFF; runlen = 1 + s.pick(style == 3 ? 34 : 12); }
			else b = s.u8();
			bool stop = false;
			for (unsigned q = 0; q < runlen; ++q) { d.push_back(b); if (idl_stuff(d).size() > budget) { d.pop_back(); stop = true; break; } }
			if (stop || ((ft & 8) && s.chance(1, 6))) break;
		}
		// Not judged (standard text unavailable): whether the CI byte takes part in the count of 8 equal bytes, and a run
		// whose eighth byte is the last byte of the packet. Excluded by construction.
		if (!d.empty() && (d[0] == 0x00 || d[0] == 0xFF) && d[0] == (ci & 0xFF)) { d[0] = 0x01; ++excluded; }
		auto ends_with_dummy = [&](const std::vector<uint8_t> &x) { unsigned run = 0; int last = -1; bool dummy_last = false; for (auto b2 : x) { if ((b2 == 0 || b2 == 0xFF) && b2 == last) ++run; else run = 1; last = b2; dummy_last = false; if ((b2 == 0 || b2 == 0xFF) && run == 8) { dummy_last = true; run = 0; last = 0xAA; } } return dummy_last; };
		while (!d.empty() && ends_with_dummy(d)) { d.back() = 0x01; ++excluded; }
		if (!(ft & 8)) {	// without DL the data field is always full
			while (idl_stuff(d).size() < budget) d.push_back((uint8_t)(1 + s.u8() % 254));
			while (idl_stuff(d).size() > budget) d.pop_back();
			while (!d.empty() && ends_with_dummy(d)) { d.back() = 0x01; ++excluded; }
			while (idl_stuff(d).size() < budget) d.push_back(0x33);
			if (idl_stuff(d).size() != budget) { vbi_idl_demux_delete(dx); return 2; }
		}
		{ unsigned run = 0; int last = -1; for (auto b : d) { if ((b == 0 || b == 0xFF) && b == last) ++run; else run = 1; last = b; if (run >= 8) long_run = true; } }
		p.data = d;
		unsigned fault = s.pick(12);	// 0 drop, 1 crc, 2 hamming; else none
		idl_encode(pkt, p, fault == 1);
		r.say("  packet ci %02x data %s%s\n", ci & 0xFF, hex(d.data(), d.size()).c_str(), fault == 0 ? " DROPPED" : fault == 1 ? " BAD-CRC" : fault == 2 ? " HAMMING-DAMAGE" : "");
		ci = (ci + 1) & 0xFF;
		// a dropped or unreadable packet is only detectable through the continuity indicator of a later packet, i.e. when an
		// earlier packet gave a reference; a packet failing its CRC is known to be lost at once
		if (fault == 0) { pending_loss = true; faulted = true; continue; }
		if (fault == 2) { pkt[s.pick(4 + spa_len)] ^= 0x03 << (2 * s.pick(3)); faulted = true; }
		vbi_idl_demux_feed(dx, pkt);
		if (fault == 2) { pending_loss = true; continue; }
		if (fault == 1) { crc_loss = true; faulted = true; first = true; continue; }	// CRC failure also drops the continuity reference
		Want w; w.data = d; w.lost_before = crc_loss || (pending_loss && !first); want.push_back(w);
		pending_loss = false; crc_loss = false; first = false;
	}
	vbi_idl_demux_delete(dx);
	r.excluded_known += 0; (void) excluded;
	if (got.size() != want.size()) {
		return r.fail(got.size() > want.size() ? "C15:idl-extra-delivery" : "C15:idl-missing-delivery", "%zu deliveries, %zu intact packets of the selected channel/address were sent", got.size(), want.size());
	}
	for (size_t i = 0; i < want.size(); ++i) {
		if (got[i].data != want[i].data)
			return r.fail("C15:idl-data", "delivery %zu: got %s, sent %s", i, hex(got[i].data.data(), got[i].data.size()).c_str(), hex(want[i].data.data(), want[i].data.size()).c_str());
		bool lost = got[i].flags & VBI_IDL_DATA_LOST, depf = got[i].flags & VBI_IDL_DEPENDENT;
		if (lost != want[i].lost_before) return r.fail(want[i].lost_before ? "C15:idl-data-lost-not-flagged" : "C15:idl-data-lost-false", "delivery %zu: VBI_IDL_DATA_LOST %d, packets were %slost before it", i, lost, want[i].lost_before ? "" : "not ");
		if (depf != (dep != 0)) return r.fail("C15:idl-dependent-flag", "delivery %zu: VBI_IDL_DEPENDENT %d, interpretation bit sent as %u", i, depf, dep);
		if (got[i].flags & ~(VBI_IDL_DATA_LOST | VBI_IDL_DEPENDENT)) return r.fail("C15:idl-flags-garbage", "delivery %zu: flags %08x contain undefined bits", i, got[i].flags);
	}
	r.nontrivial = long_run || faulted;
	if (long_run) r.cls("idl:run>=8");
	if (faulted) r.cls("idl:fault");
	r.cls("idl:deliveries", got.size());
	return 0;
}

// ---------------- Page Format Clear ----------------
struct PfcBlock { unsigned app, size; std::vector<uint8_t> data; size_t first_page, last_page; };
struct PfcGot { unsigned app, size, pgno, stream; std::vector<uint8_t> data; };
static vbi_bool pfc_cb(vbi_pfc_demux *, void *ud, const vbi_pfc_block *b) {
	std::vector<PfcGot> *v = (std::vector<PfcGot> *) ud; PfcGot g; g.app = b->application_id; g.size = b->block_size; g.pgno = b->pgno; g.stream = b->stream;
	g.data.assign(b->block, b->block + (b->block_size <= 2048 ? b->block_size : 2048)); v->push_back(g); return TRUE;
}

static int part_pfc(Src &s, Report &r) {
	static const unsigned PG[] = {0x1DF, 0x8A0, 0x2FE, 0x1AA};
	unsigned pgno = PG[s.pick(4)], stream = s.pick(16);
	unsigned nblocks = 1 + s.pick(12);
	std::vector<PfcBlock> blocks(nblocks);
	for (auto &b : blocks) {
		b.app = s.pick(32);
		switch (s.pick(6)) { case 0: b.size = 0; break; case 1: b.size = s.range(1, 40); break; case 2: b.size = s.range(30, 120); break; case 3: b.size = s.range(0, 2047); break; case 4: b.size = 2047; break; default: b.size = s.range(1, 300); }
		for (unsigned i = 0; i < b.size; ++i) b.data.push_back(s.u8());
	}
	// byte stream of the data area: BS SH(4) data ... fillers; laid out over packets of 39 data bytes, BP = first BS of the packet
	struct Cell { uint8_t v; int kind; int block; };	// kind 0 filler 1 BS 2 SH 3 data
	std::vector<std::vector<Cell>> packets;	// each 39 cells
	std::vector<Cell> cur;
	auto flush = [&]() { while (cur.size() < 39) cur.push_back({enc::ham8(3), 0, -1}); packets.push_back(cur); cur.clear(); };
	bool boundary_near_end = false;
	for (size_t bi = 0; bi < blocks.size(); ++bi) {
		PfcBlock &b = blocks[bi];
		// fillers before the separator: 0-5, and alignment when this will be the first separator of the packet
		unsigned nf = s.pick(6);
		for (unsigned k = 0; k < nf; ++k) { if (cur.size() == 39) flush(); cur.push_back({enc::ham8(3), 0, -1}); }
		if (cur.size() == 39) flush();
		bool first_bs_in_packet = true; for (auto &c : cur) if (c.kind == 1) first_bs_in_packet = false;
		if (first_bs_in_packet) while (cur.size() % 3) { cur.push_back({enc::ham8(3), 0, -1}); }
		if (cur.size() == 39) flush();
		if (cur.size() >= 35) boundary_near_end = true;
		cur.push_back({enc::ham8(0x0C), 1, (int) bi});
		unsigned sh = b.app | (b.size << 5); uint8_t shb[4]; enc::ham16(shb, sh & 0xFF); enc::ham16(shb + 2, sh >> 8);
		for (int k = 0; k < 4; ++k) { if (cur.size() == 39) flush(); cur.push_back({shb[k], 2, (int) bi}); }
		for (auto v : b.data) { if (cur.size() == 39) flush(); cur.push_back({v, 3, (int) bi}); }
		if (cur.size() >= 36) boundary_near_end = true;
	}
	if (!cur.empty()) flush();
	// a closing separator-less filler packet so that the last block is complete: nothing needed, blocks complete by size
	// pages: 1-25 packets each
	struct Tx { uint8_t b[42]; size_t page; bool target; };
	std::vector<Tx> stream_tx;
	unsigned ci = s.pick(16);
	size_t pi = 0, page_no = 0;
	std::vector<size_t> packet_page(packets.size());
	uint8_t text[32]; memset(text, 0x20, 32);
	unsigned mag = (pgno >> 8) & 7;
	while (pi < packets.size()) {
		unsigned n = 1 + s.pick(25); if (n > packets.size() - pi) n = (unsigned)(packets.size() - pi);
		// header: page number, subcode S1 = CI, S2 + S4 = packet count, S3 = stream
		unsigned sub = (ci & 15) | ((n & 7) << 4) | (stream << 8) | (((n >> 3) & 3) << 12);
		Tx h; h.page = page_no; h.target = true;
		enc::address(h.b, mag, 0); h.b[2] = enc::ham8(pgno & 15); h.b[3] = enc::ham8((pgno >> 4) & 15);
		h.b[4] = enc::ham8(sub & 15); h.b[5] = enc::ham8((sub >> 4) & 7); h.b[6] = enc::ham8((sub >> 8) & 15); h.b[7] = enc::ham8((sub >> 12) & 3);
		h.b[8] = enc::ham8(0); h.b[9] = enc::ham8(0); for (int i = 0; i < 32; ++i) h.b[10 + i] = enc::par(text[i]);
		stream_tx.push_back(h);
		for (unsigned k = 0; k < n; ++k) {
			Tx t; t.page = page_no; t.target = true;
			enc::address(t.b, mag, k + 1);
			int bp = 13; for (size_t c = 0; c < 39; ++c) if (packets[pi][c].kind == 1) { bp = (int)(c / 3); break; }
			t.b[2] = enc::ham8((unsigned) bp);
			for (size_t c = 0; c < 39; ++c) t.b[3 + c] = packets[pi][c].v;
			packet_page[pi] = page_no;
			stream_tx.push_back(t);
			++pi;
			// unrelated traffic in between
			if (s.chance(1, 6)) { Tx f; f.page = page_no; f.target = false; for (int i = 0; i < 42; ++i) f.b[i] = enc::par(s.u8() & 0x7F);
				unsigned kind = s.pick(3);
				if (kind == 0) enc::address(f.b, (mag + 1 + s.pick(6)) & 7, 1 + s.pick(25));	// row of another magazine
				else if (kind == 1) enc::address(f.b, mag, 26 + s.pick(6));				// X/26..31 of this magazine
				else { enc::address(f.b, (mag + 1) & 7, 0); f.b[2] = enc::ham8(1); f.b[3] = enc::ham8(2); for (int i = 4; i < 10; ++i) f.b[i] = enc::ham8(0); }	// header of another magazine
				stream_tx.push_back(f); }
		}
		ci = (ci + 1) & 15; ++page_no;
		// a page of another stream on the same page number, or another page in the same magazine, in between
		if (s.chance(1, 8)) {
			Tx h2 = h; h2.target = false; h2.page = page_no;
			unsigned other = s.chance(1, 2) ? (stream + 1) & 15 : stream;
			if (other == stream) { h2.b[2] = enc::ham8((pgno + 1) & 15); } else h2.b[6] = enc::ham8(other);
			stream_tx.push_back(h2);
			Tx t; t.target = false; t.page = page_no; enc::address(t.b, mag, 1); t.b[2] = enc::ham8(0); for (int c = 0; c < 39; ++c) t.b[3 + c] = enc::ham8(0x0C); stream_tx.push_back(t);
			// after a foreign page the selected stream continues with its own continuity index
		}
	}
	for (size_t bi = 0; bi < blocks.size(); ++bi) { blocks[bi].first_page = (size_t) -1; blocks[bi].last_page = 0; }
	for (size_t p = 0; p < packets.size(); ++p) for (auto &c : packets[p]) if (c.block >= 0) { PfcBlock &b = blocks[c.block]; if (packet_page[p] < b.first_page) b.first_page = packet_page[p]; if (packet_page[p] > b.last_page) b.last_page = packet_page[p]; }
	// faults
	std::vector<bool> page_damaged(page_no + 1, false);
	bool faulted = false;
	unsigned n_applied = 0;
	unsigned nfaults = s.pick(4) == 0 ? 1 + s.pick(2) : 0;
	for (unsigned f = 0; f < nfaults && !stream_tx.empty(); ++f) {
		size_t at = s.pick((uint32_t) stream_tx.size());
		if (!stream_tx[at].target) continue;
		unsigned kind = s.pick(3);
		page_damaged[stream_tx[at].page] = true; faulted = true; ++n_applied;
		if (kind == 0) { r.say("fault: drop packet %zu (page %zu)\n", at, stream_tx[at].page); stream_tx.erase(stream_tx.begin() + at); }
		else if (kind == 1) { stream_tx[at].b[s.pick(2)] ^= 0x03; r.say("fault: address damage packet %zu (page %zu)\n", at, stream_tx[at].page); }
		else { stream_tx[at].b[2] ^= 0x0C; r.say("fault: block pointer / page number damage packet %zu (page %zu)\n", at, stream_tx[at].page); }
	}
	r.say("PFC page %x stream %u: %zu blocks, %zu packets, %zu pages\n", pgno, stream, blocks.size(), packets.size(), page_no);
	if (r.verbose) for (auto &b : blocks) r.say("  block app %u size %u pages %zu..%zu\n", b.app, b.size, b.first_page, b.last_page);
	std::vector<PfcGot> got;
	vbi_pfc_demux *dx = vbi_pfc_demux_new(pgno, stream, pfc_cb, &got);
	if (!dx) return 2;
	if (r.verbose) for (auto &t : stream_tx) r.say("  tx %s page %zu: %s\n", t.target ? "target " : "foreign", t.page, hex(t.b, 42).c_str());
	for (auto &t : stream_tx) {
		// exactly 42 bytes on the heap: a read of buffer[42] is an ASan error
		std::vector<uint8_t> exact(t.b, t.b + 42); exact.shrink_to_fit();
		vbi_pfc_demux_feed(dx, exact.data());
	}
	vbi_pfc_demux_delete(dx);
	// oracle: delivered blocks are a subsequence of the sent blocks (exact content); every block wholly transmitted in undamaged
	// pages that follow an undamaged page (or the start) must be there; empty blocks may be skipped
	// two faults can conspire (a page that lost all its rows followed by a lost header makes the next page's rows look like
	// its own): no demultiplexer can detect that, so delivery is judged for at most one fault; more faults: memory safety only
	if (n_applied > 1) { r.cls("pfc:multi-fault-not-judged"); r.nontrivial = true; return 0; }
	std::vector<bool> must(blocks.size());
	for (size_t bi = 0; bi < blocks.size(); ++bi) {
		bool dmg = false;
		for (size_t p = blocks[bi].first_page; p <= blocks[bi].last_page && p < page_damaged.size(); ++p) if (page_damaged[p]) dmg = true;
		must[bi] = !dmg && blocks[bi].size > 0;
	}
	for (auto &g : got) if (g.pgno != pgno || g.stream != stream) return r.fail("C15:pfc-block-ident", "block delivered with page %x stream %u", g.pgno, g.stream);
	// is `got` obtainable from the sent blocks by dropping only non-mandatory ones?  (identical blocks make a greedy match ambiguous)
	{
		size_t nb = blocks.size(), ng = got.size();
		std::vector<std::vector<char>> ok(nb + 1, std::vector<char>(ng + 1, 0));
		ok[nb][ng] = 1;
		for (size_t bi = nb; bi-- > 0;) for (size_t gi = ng + 1; gi-- > 0;) {
			bool m = gi < ng && got[gi].app == blocks[bi].app && got[gi].size == blocks[bi].size && got[gi].data == blocks[bi].data;
			ok[bi][gi] = (m && ok[bi + 1][gi + 1]) || (!must[bi] && ok[bi + 1][gi]);
		}
		if (!ok[0][0]) {
			// describe the first point of failure with a greedy walk
			size_t gi = 0;
			for (size_t bi = 0; bi < nb; ++bi) {
				PfcBlock &b = blocks[bi];
				bool m = gi < ng && got[gi].app == b.app && got[gi].size == b.size && got[gi].data == b.data;
				if (m) { ++gi; continue; }
				if (must[bi]) {
					if (gi < ng) return r.fail("C15:pfc-block-mismatch", "block %zu (app %u, %u bytes, pages %zu..%zu) expected next; delivered app %u, %u bytes%s", bi, b.app, b.size, b.first_page, b.last_page, got[gi].app, got[gi].size,
						got[gi].app == b.app && got[gi].size == b.size ? " with different content" : "");
					return r.fail("C15:pfc-block-missing", "block %zu (app %u, %u bytes, pages %zu..%zu) was not delivered (%zu of %zu blocks delivered)", bi, b.app, b.size, b.first_page, b.last_page, ng, nb);
				}
			}
			return r.fail("C15:pfc-extra-block", "%zu blocks delivered which are not an in-order selection of the sent blocks (first unmatched: app %u, %u bytes)", ng, gi < ng ? got[gi].app : 0, gi < ng ? got[gi].size : 0);
		}
	}
	r.nontrivial = boundary_near_end || faulted;
	if (boundary_near_end) r.cls("pfc:boundary-near-packet-end");
	if (faulted) r.cls("pfc:fault");
	r.cls("pfc:blocks-delivered", got.size());
	return 0;
}

int vf_run_case(Src &s, Report &r) {
	if (s.pick(2)) return part_pfc(s, r);
	return part_idl(s, r);
}

void vf_defaults(bool thorough, uint64_t *cases, size_t *max_size) { *cases = thorough ? 5000000 : 200000; *max_size = 5000; }
