// C13 - Station, programme, time and aspect announcements are faithful and debounced.
// Reception histories over the carriers VPS, 8/30 format 1, 8/30 format 2 and WSS 625 (repeats, station changes, isolated
// corrupted receptions, interleaved carriers) -> real vbi_decode(); oracle = debounce model per carrier + value decoders of the
// transmitter side (models/bsd_enc.h) + Teletext cache witness page.
#include "../engine/engine.h"
#include "../models/ttx_tx.h"
#include "../models/bsd_enc.h"
#include "../models/xds_model.h"
extern "C" {
#include "src/libzvbi.h"
struct vbi_cni_entry { int16_t id; const char *country; const char *name; uint16_t cni1, cni2, cni3, cni4; };
extern const struct vbi_cni_entry vbi_cni_table[];
}
#include <set>
#include <cmath>

const char *vf_prop_id = "C13";
const char *vf_rule =
	"history = 10-120 frames; scenario A: one carrier (VPS, 8/30 format 1 or 8/30 format 2) with values from {two known stations, an unknown CNI, a one-off "
	"corrupted word} in runs of 1-6; scenario B: one station on 2-3 carriers interleaved by a generated schedule (same or different frames), isolated corrupted "
	"receptions on one carrier while the others keep repeating, then a change to another known station; scenario C: WSS 625 words (8 aspect codes x film bit x "
	"subtitle bits, valid or invalid parity, isolated deviations) in runs of 1-8. A Teletext witness page is cached before. Non-trivial: an isolated deviation "
	"between identical receptions, or a station change while the witness page is cached, or a WSS word repeated >= 4 times after another one was announced.";

using namespace vf;

struct Station { int id; unsigned cni1, cni2, cni4; const char *name; };
static std::vector<Station> g_stations;

static int lookup_8301(unsigned cni) { if (!cni) return 0; for (const vbi_cni_entry *p = vbi_cni_table; p->name; ++p) if (p->cni1 == cni) return p->id; return 0; }
static int lookup_vps(unsigned cni) { if (!cni) return 0; for (const vbi_cni_entry *p = vbi_cni_table; p->name; ++p) if (p->cni4 == cni) return p->id; return 0; }
static int lookup_8302(unsigned cni) { if (!cni) return 0; for (const vbi_cni_entry *p = vbi_cni_table; p->name; ++p) if (p->cni2 == cni) return p->id; return lookup_vps(cni & 0xFFF); }
static const char *name_of(int id) { for (const vbi_cni_entry *p = vbi_cni_table; p->name; ++p) if (p->id == id) return p->name; return ""; }

void vf_init() {
	for (const vbi_cni_entry *p = vbi_cni_table; p->name; ++p) {
		if (!p->cni1 || !p->cni2 || !p->cni4 || p->cni4 == 0xDC3 || p->cni4 == 0xDC1 || p->cni4 == 0xDC2) continue;
		if (lookup_8301(p->cni1) != p->id || lookup_8302(p->cni2) != p->id || lookup_vps(p->cni4) != p->id) continue;
		if (p->cni4 > 0xFFF) continue;
		bool dup = false; for (auto &s : g_stations) if (s.id == p->id) dup = true;
		if (dup) continue;
		g_stations.push_back({ p->id, p->cni1, p->cni2, p->cni4, p->name });
	}
}

enum Carrier { VPS = 0, F1 = 1, F2 = 2, WSS = 3, NCAR = 4 };
static const char *CN[] = { "VPS", "8/30-1", "8/30-2", "WSS" };

struct Ev { int type; vbi_network net; vbi_program_id pid; vbi_local_time lt; vbi_aspect_ratio asp; };
static std::vector<Ev> *g_ev;
static void on_event(vbi_event *e, void *) {
	if (!g_ev) return;
	Ev v; memset(&v, 0, sizeof v); v.type = e->type;
	switch (e->type) {
	case VBI_EVENT_NETWORK: case VBI_EVENT_NETWORK_ID: v.net = e->ev.network; break;
	case VBI_EVENT_PROG_ID: v.pid = *e->ev.prog_id; break;
	case VBI_EVENT_LOCAL_TIME: v.lt = *e->ev.local_time; break;
	case VBI_EVENT_ASPECT: v.asp = e->ev.aspect; break;
	default: break;
	}
	g_ev->push_back(v);
}

static void on_event_ignore(vbi_event *, void *) {}

struct Line { int car; unsigned cni, pil, pty, pcs; unsigned lto, mjd, h, m, s; unsigned wss; };	// what one line carries

static vbi_sliced mk_line(const Line &l) {
	vbi_sliced sl; memset(&sl, 0, sizeof sl);
	switch (l.car) {
	case VPS: sl.id = VBI_SLICED_VPS; sl.line = 16; bsd::enc_vps(sl.data, l.cni, l.pil, l.pcs, l.pty); break;
	case F1: sl.id = VBI_SLICED_TELETEXT_B; sl.line = 20; bsd::base_830(sl.data, 0); bsd::enc_8301(sl.data, l.cni, l.lto, l.mjd, l.h, l.m, l.s); break;
	case F2: { sl.id = VBI_SLICED_TELETEXT_B; sl.line = 21; bsd::base_830(sl.data, 2); bsd::F2 f = {0, 0, 0, l.pcs, 1, 0, l.cni, l.pil, l.pty}; bsd::enc_8302(sl.data, f); break; }
	case WSS: sl.id = VBI_SLICED_WSS_625; sl.line = 23; sl.data[0] = (uint8_t)(l.wss & 0xFF); sl.data[1] = (uint8_t)(l.wss >> 8); break;
	}
	return sl;
}

static int car_id(int car, unsigned cni) { return car == VPS ? lookup_vps(cni) : car == F1 ? lookup_8301(cni) : lookup_8302(cni); }
static int event_cni(const vbi_network &n, int car) { return car == VPS ? n.cni_vps : car == F1 ? n.cni_8301 : n.cni_8302; }

// WSS group 1 aspect codes with their odd parity bit b3 (EN 300 294, table 1); value = b0 | b1 << 1 | b2 << 2 | b3 << 3
static const unsigned WSS_ASPECT[8] = { 0x8, 0x1, 0x2, 0xB, 0x4, 0xD, 0xE, 0x7 };

struct ExpAspect { double ratio; int film; int subt; bool full, top; };
static ExpAspect aspect_of(unsigned w) {
	ExpAspect a; unsigned code = w & 7;
	a.ratio = code == 7 ? 0.75 : 1.0;	// anamorphic 16:9: pixel aspect 3/4 relative to 4:3
	a.film = (w >> 4) & 1;
	a.subt = (w >> 9) & 3;
	a.full = code == 0 || code == 6 || code == 7;
	a.top = code == 2 || code == 4;
	return a;
}

// ---------- scenario D: the XDS network name (and call letters) on caption field 2 as the only carrier ----------
// A reception is one Channel class packet "network name" (optionally preceded by "call letters"). The station is announced when a name
// is received for the second time in a row; the same station confirmed again (after a single deviating name or call letters packet)
// is neither announced as a network change nor does it clear the cache; a change to another station is announced exactly once and
// drops the cached pages of the old one.
template <typename W>
static int scenario_xds(Src &s, Report &r, vbi_decoder *dec, std::vector<Ev> &evs, double &t, W witness, unsigned nfr, bool *nt) {
	auto send_pair = [&](unsigned a, unsigned b) {
		vbi_sliced sl[2]; memset(sl, 0, sizeof sl);
		sl[0].id = VBI_SLICED_CAPTION_525; sl[0].line = 21; sl[0].data[0] = 0x80; sl[0].data[1] = 0x80;
		sl[1].id = VBI_SLICED_CAPTION_525; sl[1].line = 284; sl[1].data[0] = enc::par((uint8_t) a); sl[1].data[1] = enc::par((uint8_t) b);
		vbi_decode(dec, sl, 2, t); t += 0.04;
	};
	auto send_packet = [&](unsigned type, const std::string &v) {
		std::vector<uint8_t> data(v.begin(), v.end());
		send_pair(0x05, type);
		for (size_t i = 0; i < data.size(); i += 2) send_pair(data[i], i + 1 < data.size() ? data[i + 1] : 0);
		send_pair(0x0F, xds::checksum(2, type, data));
	};
	static const char *NAMES[] = {"PUBLIC BROADCASTING", "PUBLIC", "NEWS CHANNEL NINE", "NEWS", "KIDS", "THE SPORTS NETWORK"};	// (two pairs in which one name is the beginning of the other)
	static const char *CALLS[] = {"KQED", "WNET", "KABC", "WGBH", "KTVU", "WPIX"};
	unsigned ia = s.pick(6), ib = (ia + 1 + s.pick(5)) % 6;
	bool with_call = s.chance(1, 2);
	std::string nameA = NAMES[ia], nameB = NAMES[ib], callA = CALLS[ia], callB = CALLS[ib];
	if (with_call && (ia + ib) % 4 == 1) nameB = nameA;	// two stations of one network: same name, different call letters
	r.say("scenario D: XDS network name; stations \"%s\" / \"%s\"%s\n", nameA.c_str(), nameB.c_str(), with_call ? " with call letters" : "");
	std::string last_name; unsigned run = 0; int announced = -1;	// station announced so far: -1 none, 0 A, 1 B
	bool witness_cached = vbi_is_cached(dec, 0x100, 0);
	unsigned rx = 0, nrx = 4 + nfr / 6;
	int rc = 0;
	while (rx < nrx && !rc) {
		unsigned which = s.pick(8); int st; bool oneoff = false;
		switch (which) { case 0: case 1: case 2: case 3: st = 0; break; case 4: case 5: st = 1; break; default: st = announced < 0 ? 0 : announced; oneoff = true; break; }
		if (oneoff && (announced < 0 || run < 2 || last_name != (with_call ? (announced ? nameB + "|" + callB : nameA + "|" + callA) : (announced ? nameB : nameA)))) oneoff = false;	// a deviation is isolated only between identical receptions of the announced station
		unsigned len = oneoff ? 1 : 1 + s.pick(5);
		if (nameA == nameB && !oneoff && len < 2) len = 2;	// (two stations with one name: the library debounces the name, so a switch after a single reception would confirm the name with the new call letters at once; not generated)
		for (unsigned k = 0; k < len && rx < nrx && !rc; ++k, ++rx) {
			std::string name = st ? nameB : nameA, call = st ? callB : callA;
			bool dev_call = false;
			if (oneoff) { if (with_call && s.chance(1, 3)) { dev_call = true; call = "KX"; call += (char) ('A' + rx % 26); } else { char b[16]; snprintf(b, sizeof b, "GLITCH %u", rx); name = b; } }
			size_t ev0 = evs.size();
			if (with_call) send_packet(2, call);	// a station either transmits its call letters in every cycle or never
			if (!dev_call) send_packet(1, name);
			unsigned n_net = 0; for (size_t i = ev0; i < evs.size(); ++i) if (evs[i].type == VBI_EVENT_NETWORK) ++n_net;
			unsigned exp_net = 0;
			if (!dev_call) {
				std::string ident = with_call ? name + "|" + call : name;	// what identifies the station: its call letters when it transmits any, else its name
				if (ident == last_name) ++run; else { last_name = ident; run = 1; }
				if (run == 2 && !oneoff && st != announced) { exp_net = 1; if (announced >= 0) { witness_cached = false; *nt = true; } announced = st; }
			}
			if (oneoff) *nt = true;
			r.say("  reception %u: %s%s\"%s\" run %u -> %u NETWORK events (expected %u), witness cached %d\n", rx, dev_call ? "call letters " : "", oneoff ? "(isolated deviation) " : "", dev_call ? call.c_str() : name.c_str(), run, n_net, exp_net, vbi_is_cached(dec, 0x100, 0));
			if (n_net != exp_net) {
				const char *sig = n_net < exp_net ? "C13:station-change-not-announced" : exp_net ? "C13:station-change-announced-twice" : (run >= 2 && announced == st && !oneoff) ? "C13:xds-same-station-announced-as-change" : "C13:network-event-without-change";
				rc = r.fail(sig, "XDS reception %u (%s \"%s\", %u in a row, station %s announced before): %u NETWORK events, expected %u", rx, dev_call ? "call letters" : "network name", dev_call ? call.c_str() : name.c_str(), run, announced < 0 ? "not" : "already", n_net, exp_net);
			} else if ((bool) vbi_is_cached(dec, 0x100, 0) != witness_cached)
				rc = r.fail(witness_cached ? "C13:cache-cleared-without-station-change" : "C13:cache-kept-after-station-change", "XDS reception %u (network name \"%s\", %u in a row): witness page cached = %d, expected %d", rx, name.c_str(), run, vbi_is_cached(dec, 0x100, 0), witness_cached);
			for (size_t i = ev0; i < evs.size() && !rc; ++i) if (evs[i].type == VBI_EVENT_NETWORK && exp_net) {
				if (strcmp((const char *) evs[i].net.name, name.c_str())) rc = r.fail("C13:xds-network-name-value", "NETWORK event carries name \"%s\", transmitted \"%s\"", evs[i].net.name, name.c_str());
			}
			if (!rc && !witness_cached && s.chance(1, 2)) { witness(); witness_cached = vbi_is_cached(dec, 0x100, 0); if (!witness_cached) rc = r.fail("C13:page-not-cacheable-after-switch", "after the station change page 100 cannot be cached"); }
		}
	}
	return rc;
}

int vf_run_case(Src &s, Report &r) {
	if (g_stations.size() < 4) return 2;
	vbi_decoder *dec = vbi_decoder_new();
	if (!dec) return 2;
	std::vector<Ev> evs; g_ev = &evs;
	vbi_event_handler_register(dec, VBI_EVENT_TTX_PAGE | VBI_EVENT_NETWORK | VBI_EVENT_NETWORK_ID | VBI_EVENT_PROG_ID | VBI_EVENT_LOCAL_TIME | VBI_EVENT_ASPECT | VBI_EVENT_PROG_INFO, on_event, nullptr);
	double t = 5000.0;
	uint8_t hdr[32]; memset(hdr, 0x20, 32); memcpy(hdr, "ZVBI 100", 8);
	uint8_t row[40]; memset(row, 0x41, 40);
	auto frame = [&](std::vector<vbi_sliced> &ls) { vbi_decode(dec, ls.empty() ? nullptr : ls.data(), (int) ls.size(), t); t += 0.04; };
	int hdr_variant = 0;	// each station shows its own header text (set right after a station change the decoder has followed; its header comparison starts afresh then)
	auto witness = [&]() {	// transmit page 100 so that the cache holds something a channel switch would drop
		hdr[3] = (uint8_t) ('A' + hdr_variant % 26);
		tx::HeaderFlags f; f.c4_erase = true;
		std::vector<vbi_sliced> ls;
		auto add = [&](const tx::Packet &p) { vbi_sliced sl; memset(&sl, 0, sizeof sl); sl.id = VBI_SLICED_TELETEXT_B; sl.line = 7 + (unsigned) ls.size(); memcpy(sl.data, p.b, 42); ls.push_back(sl); };
		add(tx::header(1, 0x00, 0, f, hdr)); add(tx::row(1, 1, row)); tx::HeaderFlags ff; add(tx::header(1, 0xFF, 0x3F7F, ff, hdr));
		frame(ls);
	};
	int rc = 0;
	unsigned scen = s.pick(3);
	bool nt = false;
	unsigned nfr = 10 + s.pick(111);
	witness();
	if (!vbi_is_cached(dec, 0x100, 0)) { g_ev = nullptr; vbi_decoder_delete(dec); return r.fail("C13:witness-not-cached", "page 100 was transmitted but is not cached"); }

	// reference state per carrier
	unsigned last[NCAR] = {0, 0, 0, 0}; unsigned run[NCAR] = {0, 0, 0, 0}; bool seen[NCAR] = {false, false, false, false};
	unsigned vps_last_pil = ~0u, vps_pil_run = 0; std::map<unsigned, unsigned> vps_labels;
	int nuid = 0;			// station id the decoder should believe in
	bool witness_cached = true;
	Station A = g_stations[s.pick((uint32_t) g_stations.size())], B = g_stations[s.pick((uint32_t) g_stations.size())];
	if (B.id == A.id) B = g_stations[(s.pick((uint32_t) g_stations.size()) + 1) % g_stations.size()];
	if (B.id == A.id) { g_ev = nullptr; vbi_decoder_delete(dec); return 2; }
	unsigned unknown_cni = 0x0E01 + s.pick(14);	// not in the table (checked below)
	if (lookup_vps(unknown_cni) || lookup_8301(unknown_cni) || lookup_8302(unknown_cni)) unknown_cni = 0x0EEE;
	if (lookup_vps(unknown_cni) || lookup_8301(unknown_cni) || lookup_8302(unknown_cni)) { g_ev = nullptr; vbi_decoder_delete(dec); return 2; }

	// programme labels change at programme boundaries and are hit by noise now and then (VPS has no error protection)
	static const unsigned PILS[] = { 0x2A5D7, 0x2A5D8, 0x07FFF, 0x1B2C3, 0xFFFFF & (1u << 15 | 5u << 11 | 20u << 6 | 15u) };
	unsigned cur_label = 0;
	// (every fifth label carries a deviating programme type and every seventh a deviating audio status with the PIL unchanged: VPS has no
	// error protection, and a label is confirmed as a whole; a fixed pattern, so that the choice sequence stays as it was)
	unsigned label_no = 0;
	auto label = [&](Line &l) { if (s.chance(1, 5)) cur_label = s.pick(5); unsigned k = s.chance(1, 8) ? s.pick(5) : cur_label; l.pil = PILS[k]; l.pty = 0x10 + k; l.pcs = k & 3;
		++label_no; if (label_no % 5 == 3) l.pty ^= 0x40; if (label_no % 7 == 5) l.pcs ^= 1; };
	auto cni_for = [&](const Station &st, int car) { return car == VPS ? st.cni4 : car == F1 ? st.cni1 : st.cni2; };

	// generic checks on the events of one frame; `lines` = what was sent in it (in order)
	auto check_frame = [&](const std::vector<Line> &lines, size_t ev_from, bool single_carrier, bool isolated_deviation_frame) -> int {
		// update the reference reception state first, line by line, collecting which carriers are confirmed in this frame
		struct Conf { int car; unsigned cni; bool repeat; bool first_repeat; };
		std::vector<Conf> conf;
		unsigned prev_last[NCAR]; bool prev_seen[NCAR]; for (int c = 0; c < NCAR; ++c) { prev_last[c] = last[c]; prev_seen[c] = seen[c]; }
		for (auto &l : lines) {
			if (l.car == WSS) continue;
			bool rep = seen[l.car] && last[l.car] == l.cni;
			run[l.car] = rep ? run[l.car] + 1 : 1; last[l.car] = l.cni; seen[l.car] = true;
			conf.push_back({ l.car, l.cni, rep, rep && run[l.car] == 2 });
			if (l.car == VPS) { unsigned lab = l.pil | l.pty << 20 | l.pcs << 28; if (!rep) vps_labels.clear(); vps_pil_run = ++vps_labels[lab]; vps_last_pil = lab; }	// receptions of this label while the CNI did not change
		}
		unsigned n_net = 0;
		for (size_t i = ev_from; i < evs.size(); ++i) {
			const Ev &e = evs[i];
			if (e.type == VBI_EVENT_NETWORK || e.type == VBI_EVENT_NETWORK_ID) {
				if (e.type == VBI_EVENT_NETWORK) ++n_net;
				// the event reflects what was last received on every carrier ...
				if (!(e.type == VBI_EVENT_NETWORK && e.net.nuid == 0))	// (the "station lost" event of a switch to an unknown station carries an empty record)
				for (int c = 0; c < 3; ++c) if (seen[c] && (unsigned) event_cni(e.net, c) != last[c]) {
					// (a carrier of this frame may be updated after the event was raised: then its previous value, or none, is reported)
					bool in_frame = false; for (auto &l : lines) if (l.car == c) in_frame = true;
					bool as_before = in_frame && (unsigned) event_cni(e.net, c) == (prev_seen[c] ? prev_last[c] : 0u);
					if (!as_before) return r.fail("C13:event-cni-not-as-received", "frame %.2f: %s event reports %s CNI %04x, last received %04x", t, e.type == VBI_EVENT_NETWORK ? "NETWORK" : "NETWORK_ID", CN[c], event_cni(e.net, c), last[c]);
				}
				// ... and some carrier of this frame repeats its previous value
				bool any_rep = false; for (auto &c : conf) if (c.repeat) any_rep = true;
				if (!any_rep) return r.fail("C13:announced-without-repeat", "frame %.2f: %s event although no identifier in this frame repeats the previous reception of its carrier", t, e.type == VBI_EVENT_NETWORK ? "NETWORK" : "NETWORK_ID");
				if (e.type == VBI_EVENT_NETWORK_ID && e.net.nuid != 0) {
					// name and id belong to a confirmed carrier value
					bool ok = false; for (auto &c : conf) if (c.repeat && car_id(c.car, c.cni) == (int) e.net.nuid && !strcmp((const char *) e.net.name, name_of((int) e.net.nuid))) ok = true;
					if (!ok) return r.fail("C13:announced-station-not-received", "frame %.2f: NETWORK_ID announces station id %d '%s', no confirmed identifier of this frame maps to it", t, (int) e.net.nuid, e.net.name);
				}
			} else if (e.type == VBI_EVENT_PROG_ID) {
				bool ok = false;
				for (auto &l : lines) {
					if (l.car == F2 && e.pid.cni_type == VBI_CNI_TYPE_8302 && e.pid.cni == l.cni && e.pid.pil == l.pil && e.pid.pty == l.pty && (unsigned) e.pid.pcs_audio == l.pcs && e.pid.channel == VBI_PID_CHANNEL_LCI_0) ok = true;
					if (l.car == VPS && e.pid.cni_type == VBI_CNI_TYPE_VPS && e.pid.cni == l.cni && e.pid.pil == l.pil && e.pid.pty == l.pty && (unsigned) e.pid.pcs_audio == l.pcs && e.pid.channel == VBI_PID_CHANNEL_VPS) {
						if (vps_pil_run < 2 || run[VPS] < 2) return r.fail("C13:vps-pid-announced-without-repeat", "frame %.2f: VPS programme id %05x announced on its first reception since the CNI changed", t, l.pil);
						ok = true;
					}
				}
				if (!ok) return r.fail("C13:prog-id-not-as-transmitted", "frame %.2f: PROG_ID event (type %d cni %04x pil %05x pty %02x pcs %d channel %d) matches no line of this frame", t, e.pid.cni_type, e.pid.cni, e.pid.pil, e.pid.pty, e.pid.pcs_audio, e.pid.channel);
			} else if (e.type == VBI_EVENT_LOCAL_TIME) {
				bool ok = false;
				for (auto &l : lines) if (l.car == F1) {
					long long want = ((long long) l.mjd - 40587) * 86400 + l.h * 3600 + l.m * 60 + l.s;
					int east = (int)(l.lto & 31) * 1800; if (l.lto & 32) east = -east;
					if ((long long) e.lt.time == want && e.lt.seconds_east == east && e.lt.seconds_east_valid) ok = true;
				}
				if (!ok) return r.fail("C13:local-time-not-as-transmitted", "frame %.2f: LOCAL_TIME event time %lld east %d matches no 8/30 format 1 packet of this frame", t, (long long) e.lt.time, e.lt.seconds_east);
			}
		}
		if (isolated_deviation_frame && n_net) return r.fail("C13:isolated-deviation-raises-network-event", "frame %.2f: a single deviating reception between identical ones raised a NETWORK event", t);
		(void) single_carrier;
		return 0;
	};

	if (scen == 0) {
		// ---------- scenario A: one carrier, exact debounce model ----------
		unsigned car_byte = s.u8();	// 0-239: one of the three CNI carriers (as s.pick(3) did), 240-255: the XDS network name on caption field 2
		int car = (int) (car_byte % 3);
		if (car_byte >= 240) { rc = scenario_xds(s, r, dec, evs, t, witness, nfr, &nt); scen = 3; goto done; }
		unsigned cur = 0; bool have = false; int cycle = 0; bool k2u = false;
		r.say("scenario A on %s: stations %s (id %d), %s (id %d), unknown CNI %04x\n", CN[car], A.name, A.id, B.name, B.id, unknown_cni);
		unsigned f = 0;
		while (f < nfr && !rc) {
			unsigned which = s.pick(8); unsigned cni; bool oneoff = false;
			switch (which) { case 0: case 1: case 2: cni = cni_for(A, car); break; case 3: case 4: cni = cni_for(B, car); break; case 5: cni = unknown_cni; break; default: cni = 0x0F00 + (f & 0xFF); oneoff = true; break; }
			if (which == 5 && nuid != 0) {
				// known finding C13:known-to-unknown-station: a confirmed unknown CNI after an identified station
				if (exclusions_on()) { ++r.excluded_known; r.cls("excluded:unknown-cni-after-identified-station"); cni = cni_for(A, car); }
				else k2u = true;
			}
			unsigned len = oneoff ? 1 : 1 + s.pick(6);
			for (unsigned k = 0; k < len && f < nfr && !rc; ++k, ++f) {
				Line l; memset(&l, 0, sizeof l); l.car = car; l.cni = cni; label(l); l.lto = 2; l.mjd = 58000; l.h = 12; l.m = 30; l.s = f % 60;
				std::vector<vbi_sliced> ls; ls.push_back(mk_line(l));
				size_t ev0 = evs.size();
				bool dev = oneoff && have && run[car] >= 1;
				frame(ls);
				std::vector<Line> lv; lv.push_back(l);
				if ((rc = check_frame(lv, ev0, true, false))) { if (k2u) r.sig = "C13:known-to-unknown-station"; break; }
				// exact model
				unsigned exp_net_min = 0, exp_net_max = 0, exp_id = 0;
				if (!have || cni != cur) { cur = cni; have = true; cycle = 1; }
				else if (cycle == 1) {
					int id = car_id(car, cni);
					if (id != nuid) { exp_net_min = 1; exp_net_max = (id == 0) ? 2 : 1; if (nuid != 0) { witness_cached = false; nt = nt || true; } nuid = id; }
					exp_id = 1; cycle = 2;
				}
				unsigned n_net = 0, n_id = 0;
				for (size_t i = ev0; i < evs.size(); ++i) { if (evs[i].type == VBI_EVENT_NETWORK) ++n_net; if (evs[i].type == VBI_EVENT_NETWORK_ID) ++n_id; }
				if (n_net < exp_net_min || n_net > exp_net_max) rc = r.fail(n_net < exp_net_min ? "C13:station-change-not-announced" : (exp_net_max ? "C13:station-change-announced-twice" : "C13:network-event-without-change"),
					"frame %u (%s CNI %04x, reception %u in a row): %u NETWORK events, expected %u%s", f, CN[car], cni, run[car], n_net, exp_net_min, exp_net_max > exp_net_min ? "-2" : "");
				else if (n_id != exp_id) rc = r.fail(n_id < exp_id ? "C13:identifier-not-announced-on-repeat" : "C13:identifier-announced-again", "frame %u (%s CNI %04x, reception %u in a row): %u NETWORK_ID events, expected %u", f, CN[car], cni, run[car], n_id, exp_id);
				else if ((bool) vbi_is_cached(dec, 0x100, 0) != witness_cached) rc = r.fail(witness_cached ? "C13:cache-cleared-without-station-change" : "C13:cache-kept-after-station-change", "frame %u (%s CNI %04x): witness page cached = %d, expected %d", f, CN[car], cni, vbi_is_cached(dec, 0x100, 0), witness_cached);
				if (dev) nt = true;
				if (rc && k2u) r.sig = "C13:known-to-unknown-station";
				r.say("  frame %u: %s %04x -> %u NETWORK %u NETWORK_ID\n", f, CN[car], cni, n_net, n_id);
				if (!rc && !witness_cached && s.chance(1, 3)) { hdr_variant = nuid; witness(); ++f; witness_cached = vbi_is_cached(dec, 0x100, 0); if (!witness_cached) rc = r.fail("C13:page-not-cacheable-after-switch", "after the station change page 100 cannot be cached"); }
			}
		}
	} else if (scen == 1) {
		// ---------- scenario B: one station on several carriers, isolated deviations, then a change of station ----------
		bool use[3]; unsigned nuse = 0; for (int c = 0; c < 3; ++c) { use[c] = s.chance(2, 3); if (use[c]) ++nuse; }
		if (nuse < 2) { use[VPS] = use[F1] = true; }
		unsigned change_at = nfr / 2 + s.pick(nfr / 4 + 1);
		r.say("scenario B: station %s (id %d) then %s (id %d) at frame %u; carriers%s%s%s\n", A.name, A.id, B.name, B.id, change_at, use[0] ? " VPS" : "", use[1] ? " 8/30-1" : "", use[2] ? " 8/30-2" : "");
		unsigned net_events_before = 0, net_events_after = 0; bool announced_A = false, announced_B = false, b_confirmed = false;
		int dev_cooldown[3] = {0, 0, 0}; bool b_witness_sent = false;
		// A real retune loses frames: in half of the histories the time stamps jump at the change (libzvbi then starts a countdown of 40
		// frames after which it assumes a channel change on its own; identifying the new station within that time must settle it).
		// Derived from a choice already made; such histories run at least 46 frames past the change.
		bool jump = (change_at & 1) != 0;
		unsigned nfr_b = jump ? std::max(nfr, change_at + 46) : nfr;
		if (jump) r.cls("scenario-B-time-stamp-jump-at-the-change");
		for (unsigned f = 0; f < nfr_b && !rc; ++f) {
			// (only when station A is identified: otherwise the decoder cannot tell whether the station identified after the jump is a new
			// one, and its documented assumption of a channel change 40 frames after lost frames stands)
			if (jump && f == change_at) { if (announced_A) t += 0.3 + 0.1 * (change_at % 7); else jump = false; }
			const Station &st = f < change_at ? A : B;
			std::vector<Line> lv; bool dev_frame = false;
			for (int c = 0; c < 3; ++c) {
				bool sent = use[c] && s.chance(3, 4);
				if (use[c] && jump && f >= change_at && f < change_at + 4) sent = true;	// the new station is identified right after the retune (otherwise the decoder's own assumption of a channel change after 40 frames would be a legitimate NETWORK event)
				if (!sent) continue;
				Line l; memset(&l, 0, sizeof l); l.car = c; l.cni = cni_for(st, c); label(l); l.lto = 0x22; l.mjd = 59000; l.h = 7; l.m = 5; l.s = f % 60;
				// an isolated corrupted reception: the previous and the next reception of this carrier are intact and identical
				bool near_change = f + 3 >= change_at && f <= change_at + 3;
				bool settled = (f < change_at ? announced_A : announced_B) && seen[c] && last[c] == cni_for(st, c);	// the station is identified and this carrier repeats its value
				if (dev_cooldown[c] == 0 && !near_change && settled && run[c] >= 2 && s.chance(1, 8)) { l.cni = 0x0F00 + (f & 0xFF); if (c != VPS) l.cni |= 0x1000; dev_cooldown[c] = 3; dev_frame = true; nt = true; }
				else if (dev_cooldown[c] > 0) --dev_cooldown[c];
				lv.push_back(l);
			}
			if (lv.size() > 1 && s.chance(1, 2)) std::swap(lv[0], lv[lv.size() - 1]);
			std::vector<vbi_sliced> ls; for (auto &l : lv) ls.push_back(mk_line(l));
			size_t ev0 = evs.size();
			frame(ls);
			if (r.verbose) { std::string d; for (auto &l : lv) { char b[40]; snprintf(b, sizeof b, " %s=%04x", CN[l.car], l.cni); d += b; } unsigned nn = 0, ni = 0; for (size_t i = ev0; i < evs.size(); ++i) { if (evs[i].type == VBI_EVENT_NETWORK) ++nn; if (evs[i].type == VBI_EVENT_NETWORK_ID) ++ni; } r.say("  frame %u:%s -> %u NETWORK %u NETWORK_ID\n", f, d.c_str(), nn, ni); }
			if ((rc = check_frame(lv, ev0, false, dev_frame))) break;
			for (size_t i = ev0; i < evs.size(); ++i) if (evs[i].type == VBI_EVENT_NETWORK) { if (f < change_at) ++net_events_before; else ++net_events_after; }
			for (size_t i = ev0; i < evs.size(); ++i) if (evs[i].type == VBI_EVENT_NETWORK_ID && (int) evs[i].net.nuid == A.id) announced_A = true;
			for (size_t i = ev0; i < evs.size(); ++i) if (evs[i].type == VBI_EVENT_NETWORK_ID && (int) evs[i].net.nuid == B.id) announced_B = true;
			if (f >= change_at) for (auto &l : lv) if (run[l.car] >= 2 && l.cni == cni_for(B, l.car)) b_confirmed = true;
			if (announced_A && b_confirmed && announced_B && !b_witness_sent && net_events_after == 1) {	// (only when the decoder has followed a change from an identified station: its header comparison starts afresh then)
				// the old station's page must be gone by now; from here on page 100 is the new station's
				if (vbi_is_cached(dec, 0x100, 0)) { rc = r.fail("C13:cache-kept-after-station-change", "frame %u: the witness page of %s is still cached after the change to %s was announced", f, A.name, B.name); break; }
				hdr_variant = 1; witness(); b_witness_sent = true; r.cls("scenario-B-page-of-the-new-station");
			}
			if (f < change_at && announced_A && !vbi_is_cached(dec, 0x100, 0)) {
				if (net_events_before > 1) { rc = r.fail("C13:cache-cleared-without-station-change", "frame %u: the witness page of station %s vanished although the station did not change", f, A.name); break; }
				witness();	// cached before the first announcement: transmit again, from now on it must stay
			}
			if (f + 1 == change_at) { if (!vbi_is_cached(dec, 0x100, 0)) witness(); if (vbi_is_cached(dec, 0x100, 0) && announced_A) nt = true; }
		}
		if (!rc && announced_A) {
			// the change A -> B between known stations: exactly one network event, the old pages are gone (enough frames must have followed)
			bool enough = b_confirmed;	// an identifier of the new station was received twice in a row
			if (!enough && net_events_after > 1) rc = r.fail("C13:station-change-announced-twice", "%u NETWORK events after the change from %s to %s", net_events_after, A.name, B.name);
			if (net_events_before > 1) rc = r.fail("C13:network-event-without-change", "%u NETWORK events while station %s kept transmitting (with isolated deviations)", net_events_before, A.name);
			else if (enough && net_events_after == 1 && !b_witness_sent && vbi_is_cached(dec, 0x100, 0)) rc = r.fail("C13:cache-kept-after-station-change", "the witness page of %s is still cached after the change to %s", A.name, B.name);
			else if (enough && net_events_after != 1) rc = r.fail(net_events_after ? "C13:station-change-announced-twice" : "C13:station-change-not-announced", "%u NETWORK events for the change from %s to %s", net_events_after, A.name, B.name);
		}
	} else {
		// ---------- scenario C: WSS ----------
		r.say("scenario C: WSS\n");
		// the aspect handler does not ask for programme information here; in the middle of the history a second handler registers for it,
		// which must not make the decoder forget (and announce again) the aspect ratio it has already announced
		vbi_event_handler_register(dec, VBI_EVENT_TTX_PAGE | VBI_EVENT_NETWORK | VBI_EVENT_NETWORK_ID | VBI_EVENT_PROG_ID | VBI_EVENT_LOCAL_TIME | VBI_EVENT_ASPECT, on_event, nullptr);
		unsigned second_handler_at = nfr / 2; static int second_handler_tag;
		bool announced_in_run = false;
		unsigned lastw = ~0u, runw = 0; bool announced = false; ExpAspect cur_as = {1.0, 0, 3, true, false}; bool have_as = false;
		unsigned f = 0;
		while (f < nfr && !rc) {
			unsigned code = s.pick(8);
			unsigned w = WSS_ASPECT[code] | (s.pick(2) << 4) | (s.pick(8) << 5) | (s.pick(4) << 9) | (s.pick(8) << 11);
			bool bad_parity = s.chance(1, 6); if (bad_parity) w ^= 8;
			unsigned len = 1 + s.pick(8);
			for (unsigned k = 0; k < len && f < nfr && !rc; ++k, ++f) {
				if (f == second_handler_at) vbi_event_handler_register(dec, VBI_EVENT_PROG_INFO, on_event_ignore, &second_handler_tag);
				Line l; memset(&l, 0, sizeof l); l.car = WSS; l.wss = w;
				std::vector<vbi_sliced> ls; ls.push_back(mk_line(l));
				size_t ev0 = evs.size();
				frame(ls);
				if (w == lastw) ++runw; else { lastw = w; runw = 1; announced_in_run = false; }
				unsigned n_as = 0; const Ev *ae = nullptr;
				for (size_t i = ev0; i < evs.size(); ++i) if (evs[i].type == VBI_EVENT_ASPECT) { ++n_as; ae = &evs[i]; }
				ExpAspect x = aspect_of(w);
				if (n_as > 1) rc = r.fail("C13:aspect-announced-twice", "frame %u: %u ASPECT events for one WSS word", f, n_as);
				else if (n_as == 1) {
					if (announced_in_run) rc = r.fail("C13:aspect-announced-again", "frame %u: WSS word %04x announced a second time while it keeps arriving unchanged (%u receptions in a row)", f, w, runw);
					else if (bad_parity) rc = r.fail("C13:wss-bad-parity-announced", "frame %u: WSS word %04x with wrong parity in the aspect group was announced", f, w);
					else if (runw < 4) rc = r.fail("C13:wss-announced-too-early", "frame %u: WSS word %04x announced after %u identical receptions", f, w, runw);
					else if (std::fabs(ae->asp.ratio - x.ratio) > 1e-9 || ae->asp.film_mode != x.film || (int) ae->asp.open_subtitles != (x.subt == 0 ? VBI_SUBT_NONE : x.subt == 1 ? VBI_SUBT_ACTIVE : x.subt == 2 ? VBI_SUBT_MATTE : VBI_SUBT_UNKNOWN))
						rc = r.fail("C13:aspect-not-as-transmitted", "frame %u: WSS word %04x: event ratio %.3f film %d subtitles %d, transmitted ratio %.3f film %d subtitles code %d", f, w, ae->asp.ratio, ae->asp.film_mode, ae->asp.open_subtitles, x.ratio, x.film, x.subt);
					else if (x.full && (ae->asp.first_line != 23 || ae->asp.last_line != 310)) rc = r.fail("C13:aspect-lines", "frame %u: full format word %04x reports active lines %d-%d", f, w, ae->asp.first_line, ae->asp.last_line);
					else if (!x.full && !(ae->asp.first_line >= 23 && ae->asp.last_line <= 310 && ae->asp.last_line - ae->asp.first_line < 287 && (!x.top || ae->asp.first_line == 23))) rc = r.fail("C13:aspect-lines", "frame %u: letterbox word %04x reports active lines %d-%d", f, w, ae->asp.first_line, ae->asp.last_line);
					if (announced && runw >= 4) nt = true;
					announced = true; have_as = true; cur_as = x; announced_in_run = true;
				} else if (!bad_parity && runw == 4 && have_as && (x.ratio != cur_as.ratio || x.film != cur_as.film || x.subt != cur_as.subt)) {
					rc = r.fail("C13:aspect-change-not-announced", "frame %u: WSS word %04x received 4 times in a row with valid parity and a different ratio / film / subtitle value, no ASPECT event", f, w);
				}
				r.say("  frame %u: WSS %04x%s run %u -> %u ASPECT\n", f, w, bad_parity ? " (bad parity)" : "", runw, n_as);
			}
		}
	}
done:
	g_ev = nullptr;
	vbi_decoder_delete(dec);
	if (rc) return rc;
	r.nontrivial = nt;
	r.cls(scen == 0 ? "scenario-A-single-carrier" : scen == 1 ? "scenario-B-multi-carrier" : scen == 2 ? "scenario-C-wss" : "scenario-D-xds-network-name");
	if (nt) r.cls("nontrivial");
	return 0;
}

void vf_defaults(bool thorough, uint64_t *cases, size_t *max_size) { *cases = thorough ? 3000000 : 120000; *max_size = 1500; }
