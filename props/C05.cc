// C05 - Raw decoding never touches memory outside the raw image or the output array.
// Any valid sampling configuration (models/raw_gen.h, including the smallest admissible line length) and image contents of every
// kind; the image, every single line copy and every output buffer live in exactly sized heap blocks so that AddressSanitizer
// reports the first byte read or written outside.
#include "../models/raw_gen.h"
extern "C" {
#include "src/bit_slicer.h"
}

const char *vf_prop_id = "C05";
const char *vf_rule =
	"configuration as in C04 (14 service combinations, any rate from the admission limit to 36 MHz, 25 pixel formats, layouts) but with the sampling window "
	"also cut down to the smallest length the service check admits; image content = nominal signals, the same shifted right in steps so that the run-in is "
	"recognised at each of the last positions before the search limit, truncated signals, uniform noise, saturated black / white, square waves at the run-in "
	"frequency; decoded as a whole image into an exactly sized output array of max_lines <= lines records, line by line through vbi3_bit_slicer_slice and "
	"the legacy vbi_bit_slice from exactly sized copies into exactly sized payload buffers. Non-trivial: a run-in was recognised (a record was returned or a "
	"single line slicer returned TRUE) in an image whose signal was shifted or that is no nominal signal at all; distinct = hash of consumed choices.";

using namespace vf;
using namespace rawgen;

static const _vbi_service_par *par_of(unsigned id) { for (const _vbi_service_par *p = _vbi_service_table; p->id; ++p) if (p->id & id) return p; return nullptr; }

int vf_run_case(Src &s, Report &r) {
	Cfg c;
	if (!gen_cfg(s, c, true, 0.0)) return 2;
	// optionally the smallest admissible line: just the nominal signal of the longest service, starting at the window start
	bool tight = s.chance(1, 2);
	if (tight) {
		double need = 0;
		for (const Blk *b = c.set->b; b->service; ++b) { const _vbi_service_par *p = par_of(b->service); need = std::max(need, p->cri_bits / (double) p->cri_rate + (p->frc_bits + p->payload) / (double) p->bit_rate); }
		unsigned spl = (unsigned) std::ceil(need * c.sp.sampling_rate) + s.pick(4);
		if (spl < c.samples_per_line) {
			c.samples_per_line = spl;
			if (c.bpp == 2 && (VBI_PIXFMT_SET(c.sp.sampling_format) & VBI_PIXFMT_SET_YUV)) c.samples_per_line += c.samples_per_line & 1;
			c.sp.bytes_per_line = (int)(c.samples_per_line * c.bpp);
			// start the window right at the earliest run-in so that the signal still (almost) fits
			double smin = 1e9; for (const Blk *b = c.set->b; b->service; ++b) { double a, e; window_us(b->service, &a, &e); smin = std::min(smin, a); }
			c.sp.offset = (int)((smin - 0.2 * (s.u8() / 255.0)) * 1e-6 * c.sp.sampling_rate);
		}
	}
	// invalid geometry that must be refused rather than decoded past the image: interlaced storage with unequal field line counts
	if (c.sp.interlaced && c.sp.count[0] > 1 && s.chance(1, 8)) {
		vbi_sampling_par bad = c.sp; if (s.chance(1, 2)) bad.count[0] -= 1 + (int) s.pick((uint32_t) bad.count[0] - 1); else bad.count[1] -= 1 + (int) s.pick((uint32_t) bad.count[1] - 1 + 1) % bad.count[1];
		if (bad.count[0] != bad.count[1] && bad.count[0] > 0 && bad.count[1] > 0) {
			size_t rows = (size_t) (bad.count[0] + bad.count[1]);
			uint8_t *im = (uint8_t *) calloc(rows, (size_t) bad.bytes_per_line);
			vbi3_raw_decoder *rd = vbi3_raw_decoder_new(&bad);
			if (rd) { vbi_service_set g = vbi3_raw_decoder_add_services(rd, c.requested, 0); vbi_sliced *o = (vbi_sliced *) malloc(sizeof(vbi_sliced) * rows);
				if (g) vbi3_raw_decoder_decode(rd, o, (unsigned) rows, im);	// ASan judges the reads
				free(o); vbi3_raw_decoder_delete(rd); }
			free(im); r.cls("interlaced-with-unequal-field-counts");
		}
	}
	size_t size;
	uint8_t *img = make_image(c, &size);
	if (!img) return 2;
	unsigned lines = (unsigned)(c.sp.count[0] + c.sp.count[1]);
	size_t bpl = (size_t) c.sp.bytes_per_line;
	// content class
	unsigned content = s.pick(7);
	bool odd = content != 0;
	switch (content) {
	case 0: break;	// nominal
	case 1: {	// every line shifted right by its own amount: the run-in moves towards the search limit
		unsigned maxshift = c.samples_per_line / 3 + 2;
		for (unsigned y = 0; y < lines; ++y) {
			unsigned k = s.chance(1, 2) ? s.pick(maxshift) : s.pick(24);
			uint8_t *l = img + y * bpl; uint8_t fill[4]; memcpy(fill, l, c.bpp);
			memmove(l + k * c.bpp, l, bpl - k * c.bpp); for (unsigned i = 0; i < k; ++i) memcpy(l + i * c.bpp, fill, c.bpp);
		} break; }
	case 2: for (unsigned y = 0; y < lines; ++y) { unsigned keep = s.pick(c.samples_per_line + 1); uint8_t *l = img + y * bpl; for (size_t i = keep * c.bpp; i < bpl; ++i) l[i] = l[0]; } break;	// truncated
	case 3: for (size_t i = 0; i < size; ++i) img[i] = s.u8(); break;	// noise (zeros once the choices run out)
	case 4: memset(img, s.chance(1, 2) ? 0x00 : 0xFF, size); break;
	case 5: { // square wave at a run-in like period all along the line
		double per = c.sp.sampling_rate / symbol_rate(c.set->b[0].service) * 2.0 * (0.9 + 0.2 * (s.u8() / 255.0));
		for (unsigned y = 0; y < lines; ++y) for (unsigned x = 0; x < c.samples_per_line; ++x) { uint8_t v = (std::fmod(x, per) < per / 2) ? 200 : 40; for (unsigned b = 0; b < c.bpp; ++b) img[y * bpl + x * c.bpp + b] = v; }
		break; }
	default: {	// nominal signal with noise bursts
		unsigned nb = 1 + s.pick(8);
		for (unsigned k = 0; k < nb && size; ++k) { size_t at = s.u32() % size; size_t len = 1 + s.pick(64); for (size_t i = at; i < at + len && i < size; ++i) img[i] = s.u8(); }
		break; }
	}
	// exactly sized copy: the generator's buffer may be larger than needed for ASan's purposes
	uint8_t *raw = (uint8_t *) malloc(size ? size : 1); memcpy(raw, img, size); free(img);
	int rc = 0; bool recognised = false;
	r.say("set %s rate %d offset %d spl %u fmt %d %s %s strict %u content %u%s lines %u\n", c.set->name, c.sp.sampling_rate, c.sp.offset, c.samples_per_line, c.sp.sampling_format,
	      c.sp.interlaced ? "interlaced" : "sequential", c.sp.synchronous ? "sync" : "nosync", c.strict, content, tight ? " tight" : "", lines);

	vbi3_raw_decoder *rd = vbi3_raw_decoder_new(&c.sp);
	if (!rd) { free(raw); return 2; }
	vbi_service_set granted = vbi3_raw_decoder_add_services(rd, c.requested, (int) c.strict);
	{
		unsigned max_lines = s.chance(1, 2) ? lines : s.pick(lines + 1);
		vbi_sliced *out = (vbi_sliced *) malloc(sizeof(vbi_sliced) * (max_lines ? max_lines : 1));
		unsigned reps = 1 + s.pick(3);	// the decoder adapts its line pattern from frame to frame
		if (s.chance(1, 16)) reps = 17 + s.pick(32);	// ... and re-examines lines it predicts blank every 16 frames
		for (unsigned k = 0; k < reps && !rc; ++k) {
			unsigned n = vbi3_raw_decoder_decode(rd, out, max_lines, raw);
			if (n > max_lines) rc = r.fail("C05:more-records-than-permitted", "vbi3_raw_decoder_decode returned %u records, max_lines %u", n, max_lines);
			for (unsigned i = 0; i < n && !rc; ++i) { if (!(out[i].id & granted)) rc = r.fail("C05:record-of-ungranted-service", "record %u has id 0x%x, granted 0x%x", i, out[i].id, granted); }
			if (n) recognised = true;
		}
		free(out);
	}
	vbi3_raw_decoder_delete(rd);
	// legacy decoder: needs one record per scan line
	if (!rc) {
		vbi_raw_decoder lrd; vbi_raw_decoder_init(&lrd);
		lrd.scanning = c.sp.scanning; lrd.sampling_format = c.sp.sampling_format; lrd.sampling_rate = c.sp.sampling_rate; lrd.bytes_per_line = c.sp.bytes_per_line; lrd.offset = c.sp.offset;
		lrd.start[0] = c.sp.start[0]; lrd.start[1] = c.sp.start[1]; lrd.count[0] = c.sp.count[0]; lrd.count[1] = c.sp.count[1]; lrd.interlaced = c.sp.interlaced; lrd.synchronous = c.sp.synchronous;
		vbi_raw_decoder_add_services(&lrd, c.requested, (int) c.strict);
		vbi_sliced *out = (vbi_sliced *) malloc(sizeof(vbi_sliced) * (lines ? lines : 1));
		int n = vbi_raw_decode(&lrd, raw, out);
		if (n < 0 || (unsigned) n > lines) rc = r.fail("C05:more-records-than-lines", "vbi_raw_decode returned %d records for %u lines", n, lines);
		free(out);
		// a change of the image geometry (vbi_raw_decoder_resize): afterwards the new parameters describe the image and the output array
		if (!rc && s.chance(1, 2)) {
			int st2[2] = { lrd.start[0], lrd.start[1] }; unsigned ct2[2];
			unsigned how = s.pick(4);
			ct2[0] = how == 0 ? (unsigned) lrd.count[0] : s.pick((unsigned) lrd.count[0] + 3);
			ct2[1] = how == 0 ? s.pick((unsigned) lrd.count[1] + 1) : how == 1 ? (unsigned) lrd.count[0] : s.pick((unsigned) lrd.count[1] + 3);
			if (lrd.interlaced) ct2[1] = ct2[0];
			if (ct2[0] + ct2[1] == 0) ct2[0] = 1;
			unsigned lines2 = ct2[0] + ct2[1];
			r.say("resize %d+%d -> %u+%u\n", lrd.count[0], lrd.count[1], ct2[0], ct2[1]);
			vbi_raw_decoder_resize(&lrd, st2, ct2);
			uint8_t *raw2 = (uint8_t *) malloc(lines2 * bpl); for (unsigned y = 0; y < lines2; ++y) memcpy(raw2 + y * bpl, raw + (lines ? y % lines : 0) * bpl, bpl);
			vbi_sliced *out2 = (vbi_sliced *) malloc(sizeof(vbi_sliced) * lines2);
			int n2 = vbi_raw_decode(&lrd, raw2, out2);
			if (n2 < 0 || (unsigned) n2 > lines2) rc = r.fail("C05:more-records-than-lines", "after vbi_raw_decoder_resize to %u+%u lines vbi_raw_decode returned %d records", ct2[0], ct2[1], n2);
			free(out2); free(raw2);
			r.cls("legacy-decoder-resized");
		}
		vbi_raw_decoder_destroy(&lrd);
	}
	// single line slicers on exactly sized line copies
	if (!rc) for (const Blk *b = c.set->b; b->service && !rc; ++b) {
		if (!(b->service & granted)) continue;
		const _vbi_service_par *p = par_of(b->service);
		unsigned pbytes = (p->payload + 7) / 8;
		vbi3_bit_slicer *bs = vbi3_bit_slicer_new();
		bool ok3 = bs && vbi3_bit_slicer_set_params(bs, c.sp.sampling_format, (unsigned) c.sp.sampling_rate, 0, c.samples_per_line, p->cri_frc >> p->frc_bits, p->cri_frc_mask >> p->frc_bits,
				p->cri_bits, p->cri_rate, ~0u, p->cri_frc & ((1u << p->frc_bits) - 1), p->frc_bits, p->payload, p->bit_rate, (vbi3_modulation) p->modulation);
		vbi_bit_slicer ls; memset(&ls, 0, sizeof ls);
		vbi_bit_slicer_init(&ls, (int) c.samples_per_line, c.sp.sampling_rate, (int) p->cri_rate, (int) p->bit_rate, p->cri_frc, p->cri_frc_mask, (int) p->cri_bits, (int) p->frc_bits, (int) p->payload, (vbi_modulation) p->modulation, c.sp.sampling_format);
		unsigned nl = std::min(lines, 1 + s.pick(6));
		for (unsigned k = 0; k < nl; ++k) {
			unsigned y = s.pick(lines);
			uint8_t *line = (uint8_t *) malloc(bpl); memcpy(line, raw + y * bpl, bpl);
			uint8_t *buf = (uint8_t *) malloc(pbytes);
			if (ok3 && vbi3_bit_slicer_slice(bs, buf, pbytes, line)) recognised = true;
			// an output buffer smaller than the payload must be refused, not overrun (the size is a parameter of the call)
			if (ok3 && pbytes > 1) { unsigned small = s.pick(pbytes); uint8_t *b2 = (uint8_t *) malloc(small ? small : 1);
				if (vbi3_bit_slicer_slice(bs, b2, small, line)) rc = r.fail("C05:slicer-accepts-short-buffer", "vbi3_bit_slicer_slice returned TRUE with buffer_size %u for a service with %u payload bytes (service 0x%x)", small, pbytes, b->service);
				free(b2); r.cls("slicer:short-output-buffer"); }
			if (vbi_bit_slice(&ls, line, buf)) recognised = true;
			free(buf); free(line);
		}
		if (bs) vbi3_bit_slicer_delete(bs);
	}
	free(raw);
	if (rc) return rc;
	r.nontrivial = recognised && odd;
	static const char *CL[] = {"nominal", "shifted", "truncated", "noise", "saturated", "square-wave", "noise-bursts"};
	r.cls(std::string("content:") + CL[content]);
	if (recognised) r.cls("run-in-recognised");
	if (tight) r.cls("smallest-admissible-line");
	return 0;
}

void vf_defaults(bool thorough, uint64_t *cases, size_t *max_size) { *cases = thorough ? 6000000 : 200000; *max_size = 4000; }
