// C07 - DVB demux output depends only on the byte stream and recovers after damage.
// Streams come from the harness-side encoder (models/dvb_model.h), not from the library mux.
#include "../engine/engine.h"
#include "../models/dvb_model.h"
extern "C" {
#include "src/libzvbi.h"
vbi_dvb_demux *_vbi_dvb_ts_demux_new(vbi_dvb_demux_cb *callback, void *user_data, unsigned int pid);
}

const char *vf_prop_id = "C07";
const char *vf_rule =
	"stream = 3-12 frames (Teletext/VPS/WSS/Caption lines, a frame split over 1-3 PES packets) encoded as PES or TS by the harness encoder, "
	"mixed with foreign PES stream ids / TS PIDs / adaptation-only and null packets; then a partition into feed calls (single bytes, cuts inside "
	"headers, large chunks) and optionally damage (overwrite with noise, truncate, duplicate, dropped TS packets, broken continuity, TEI, "
	"scrambling bits) or a fully random stream. Non-trivial: a cut inside a PES/TS header, or a frame spanning >= 2 feed calls, or damage inside a packet.";

using namespace vf;

struct DFrame { std::vector<vbi_sliced> sl; int64_t pts; };
static bool same_frame(const DFrame &a, const DFrame &b) {
	if (a.pts != b.pts || a.sl.size() != b.sl.size()) return false;
	for (size_t i = 0; i < a.sl.size(); ++i) {
		const vbi_sliced &x = a.sl[i], &y = b.sl[i];
		if (x.id != y.id || x.line != y.line) return false;
		if (x.id == VBI_SLICED_WSS_625) { if (x.data[0] != y.data[0] || ((x.data[1] ^ y.data[1]) & 0x3F)) return false; }	// 14 payload bits
		else { unsigned n = (x.id & VBI_SLICED_TELETEXT_B_625) ? 42 : x.id == VBI_SLICED_VPS ? 13 : 2; if (memcmp(x.data, y.data, n)) return false; }
	}
	return true;
}
static vbi_bool demux_cb(vbi_dvb_demux *, void *ud, const vbi_sliced *s, unsigned n, int64_t pts) {
	// a callback without lines (a packet that carried only stuffing) has no counterpart in the coroutine interface, where
	// 0 means "need more data"; such empty deliveries are not frames and are ignored on both sides
	if (0 == n) return TRUE;
	std::vector<DFrame> *v = (std::vector<DFrame> *) ud; DFrame f; f.sl.assign(s, s + n); f.pts = pts; v->push_back(f); return TRUE;
}
static std::string show(const std::vector<DFrame> &v) {
	std::string s;
	for (auto &f : v) { s += "{" + std::to_string(f.pts) + ":"; for (auto &l : f.sl) s += " " + std::to_string(l.line); s += "} "; if (s.size() > 600) { s += "..."; break; } }
	return s;
}

struct PktInfo { size_t start, end; int frame; };	// frame = index of the sent frame the packet belongs to, -1 foreign

static vbi_dvb_demux *new_demux(bool ts, unsigned pid, vbi_dvb_demux_cb *cb, void *ud) {
	vbi_dvb_demux *dx = ts ? _vbi_dvb_ts_demux_new(cb, ud, pid) : vbi_dvb_pes_demux_new(cb, ud);
	if (dx && getenv("VF_DEMUX_LOG")) vbi_dvb_demux_set_log_fn(dx, (vbi_log_mask) -1, vbi_log_on_stderr, nullptr);
	return dx;
}

int vf_run_case(Src &s, Report &r) {
	bool ts = s.chance(1, 2);
	unsigned pid = ts ? (s.chance(1, 2) ? 0x100 : s.range(0x10, 0x1FFE)) : 0;
	// known finding C07:ts-false-sync-on-pid-byte: a PID whose low byte is 0x47 puts a second "sync byte" into every packet
	// header; after damage the sync search locks onto it and never recovers. Excluded by construction, counted.
	bool pid47 = ts && ((pid & 0xFF) == 0x47 || (pid >> 8) == 0x07);
	if (pid47 && exclusions_on()) { pid = 0x100 + (pid & 0x3F); pid47 = false; ++r.excluded_known; }
	unsigned mode = s.pick(8);	// 0-4 valid stream, 5-6 damaged, 7 random bytes
	bool damaged = mode == 5 || mode == 6, random_stream = mode == 7;
	std::vector<uint8_t> st;
	std::vector<PktInfo> pk;
	std::vector<DFrame> sent;
	unsigned cc = s.pick(16), cc_other = 3;
	unsigned di = s.chance(1, 2) ? 0x10 + s.pick(16) : 0x99 + s.pick(3);
	if (!random_stream) {
		unsigned nframes = 3 + s.pick(10);
		unsigned last_line = 335;
		for (unsigned fi = 0; fi < nframes; ++fi) {
			// lines ascending; the first line is <= the previous frame's last line so that frames are distinguishable
			std::vector<dvb::Line> lines;
			// every frame starts on line 7: when a frame between two others is lost, EN 301 775 framing (a frame ends where the
			// line number does not increase) would otherwise merge its neighbours, which no demultiplexer can avoid
			unsigned line = 7;
			(void) last_line;
			unsigned nl = 1 + s.pick(s.chance(1, 4) ? 30 : 6);
			for (unsigned k = 0; k < nl && line <= 335; ++k) {
				dvb::Line l; memset(&l, 0, sizeof l); l.line = line;
				if (line == 16 && s.chance(1, 2)) l.svc = dvb::VPS; else if (line == 21 && s.chance(1, 2)) l.svc = dvb::CC; else if (line == 23) l.svc = dvb::WSS; else l.svc = dvb::TTX;
				l.nbytes = l.svc == dvb::TTX ? 42 : l.svc == dvb::VPS ? 13 : 2;
				for (unsigned i = 0; i < l.nbytes; ++i) l.data[i] = (uint8_t)(1 + s.u8() % 255);	// no 00 00 01 inside payloads: PES has no escape mechanism, emulated start codes defeat any resynchronising scanner
				if (l.svc == dvb::WSS) l.data[1] &= 0x3F;
				lines.push_back(l);
				line += 1 + s.pick(4);
				if (line > 23 && line < 320) line = 320 + s.pick(4);
			}
			last_line = lines.back().line;
			int64_t pts = (int64_t) s.u32() | ((int64_t)(s.u8() & 1) << 32);
			DFrame df; df.pts = pts;
			for (auto &l : lines) { vbi_sliced x; memset(&x, 0, sizeof x); x.line = l.line;
				x.id = l.svc == dvb::TTX ? VBI_SLICED_TELETEXT_B_625 : l.svc == dvb::VPS ? VBI_SLICED_VPS : l.svc == dvb::WSS ? VBI_SLICED_WSS_625 : VBI_SLICED_CAPTION_625_F1;
				memcpy(x.data, l.data, l.nbytes); df.sl.push_back(x); }
			sent.push_back(df);
			// split into 1-3 PES packets
			unsigned nsplit = lines.size() >= 3 ? 1 + s.pick(3) : 1;
			size_t at = 0;
			for (unsigned k = 0; k < nsplit; ++k) {
				size_t end = k + 1 == nsplit ? lines.size() : at + (lines.size() - at) / (nsplit - k);
				if (end <= at) continue;
				std::vector<dvb::Line> part(lines.begin() + at, lines.begin() + end); at = end;
				std::vector<uint8_t> pes = dvb::encode_pes(part, di, k == 0 ? pts : pts + k, s.chance(1, 6) ? 184 * (1 + s.pick(4)) : 0);
				// foreign material in front
				if (s.chance(1, 5)) {
					if (ts) {
						unsigned kind = s.pick(3);
						PktInfo fi2 = { st.size(), 0, -1 };
						st.push_back(0x47);
						if (kind == 0) { unsigned op = pid ^ (1 + s.pick(7)); st.push_back((uint8_t)(0x40 | (op >> 8))); st.push_back((uint8_t) op); st.push_back((uint8_t)(0x10 | (cc_other & 15) | (cc_other % 3 == 1 ? 0x80 : cc_other % 5 == 2 ? 0xC0 : 0))); ++cc_other;	/* every third foreign packet is scrambled (pay TV next to the VBI stream) */ for (int i = 0; i < 184; ++i) st.push_back((uint8_t)(2 + s.u8() % 250)); }
						else if (kind == 1) { st.push_back((uint8_t)(pid >> 8)); st.push_back((uint8_t) pid); st.push_back((uint8_t)(0x20 | ((cc - 1) & 15))); st.push_back(183); st.push_back(0); for (int i = 0; i < 182; ++i) st.push_back(0xFF); }	// adaptation field only: continuity counter not incremented
						else { st.push_back(0x1F); st.push_back(0xFF); st.push_back(0x10); for (int i = 0; i < 184; ++i) st.push_back(0xFF); }
						fi2.end = st.size(); pk.push_back(fi2);
					} else {
						static const uint8_t ids[] = {0xE0, 0xC0, 0xBE, 0xBF, 0xBC};
						unsigned len = s.range(3, 300);
						PktInfo fi2 = { st.size(), 0, -1 };
						st.push_back(0); st.push_back(0); st.push_back(1); st.push_back(ids[s.pick(5)]); st.push_back((uint8_t)(len >> 8)); st.push_back((uint8_t) len);
						for (unsigned i = 0; i < len; ++i) st.push_back((uint8_t)(2 + s.u8() % 250));
						fi2.end = st.size(); pk.push_back(fi2);
					}
				}
				PktInfo pi = { st.size(), 0, (int) fi };
				if (ts) dvb::encode_ts(st, pes, pid, &cc); else st.insert(st.end(), pes.begin(), pes.end());
				pi.end = st.size(); pk.push_back(pi);
			}
		}
	} else {
		unsigned n = s.range(0, 3000);
		for (unsigned i = 0; i < n; ++i) st.push_back(s.u8());
		// sprinkle sync bytes / start codes so that the parsers get somewhere
		for (unsigned k = 0; k < n / 100; ++k) { size_t at = s.pick((uint32_t) st.size() - 8); if (ts) { st[at] = 0x47; st[at + 1] = (uint8_t)(pid >> 8); st[at + 2] = (uint8_t) pid; } else { st[at] = 0; st[at + 1] = 0; st[at + 2] = 1; st[at + 3] = 0xBD; } }
	}
	size_t dmg0 = st.size(), dmg1 = 0;	// damaged region in terms of the *original* packet table
	bool damage_in_packet = false;
	unsigned n_damage = 0;
	// Removing or duplicating bytes can emulate start codes and shift length fields; how far the loss then reaches is not bounded
	// by 'the first frame after the damage' for any demultiplexer, so the recovery clause is judged for in-place damage only
	// (partition invariance, the coroutine comparison and memory safety are judged for every kind).
	bool recovery_judged = true;
	if (damaged && !st.empty()) {
		unsigned nd = 1 + s.pick(2);
		n_damage = nd;
		for (unsigned d = 0; d < nd; ++d) {
			unsigned kind = s.pick(ts ? 9 : 4);
			size_t at = s.pick((uint32_t) st.size()), len = 1 + s.pick(s.chance(1, 3) ? 400 : 12);
			if (at + len > st.size()) len = st.size() - at;
			size_t span = len ? len : 1, span_at = at;	// extent in the stream before this damage
			bool hits_len = false;
			if (!ts) for (auto &p : pk) if (span_at < p.start + 6 && span_at + span > p.start + 4 && p.end > p.start) hits_len = true;
			// damage is expressed without changing the stream length where possible; length changing kinds update the table
			switch (kind) {
			case 0: case 1: for (size_t i = 0; i < len; ++i) st[at + i] = (uint8_t)(2 + s.u8() % 254); r.say("damage: overwrite %zu bytes at %zu\n", len, at); break;	// noise without start code emulation
			case 2: { if (dmg1 > at) { dmg1 = dmg1 >= at + len ? dmg1 - len : at + 1; } if (dmg0 < st.size() && dmg0 > at) dmg0 = dmg0 >= at + len ? dmg0 - len : at;
				  st.erase(st.begin() + at, st.begin() + at + len); for (auto &p : pk) { if (p.start >= at + len) p.start -= len; else if (p.start > at) p.start = at; if (p.end >= at + len) p.end -= len; else if (p.end > at) p.end = at; }
				  r.say("damage: remove %zu bytes at %zu\n", len, at); recovery_judged = false;
				  // a PES packet which lost n bytes still claims its old length and swallows n bytes of what follows
				  { size_t ext = 0; if (!ts) for (auto &p : pk) if (p.start <= at && at <= p.end) ext = p.end + len > at ? p.end + len - at : 0; len = ext; }
				  break; }
			case 3: { if (dmg1 > at + len) dmg1 += len; if (dmg0 < st.size() && dmg0 >= at + len) dmg0 += len;
				  std::vector<uint8_t> dup(st.begin() + at, st.begin() + at + len); st.insert(st.begin() + at + len, dup.begin(), dup.end()); for (auto &p : pk) { if (p.start >= at + len) p.start += len; if (p.end > at + len) p.end += len; }
				  r.say("damage: duplicate %zu bytes at %zu\n", len, at); len *= 2; recovery_judged = false; break; }
			case 4: { size_t p0 = at / 188 * 188; if (p0 + 188 <= st.size()) { if (dmg1 > p0) dmg1 = dmg1 >= p0 + 188 ? dmg1 - 188 : p0 + 1; if (dmg0 < st.size() && dmg0 > p0) dmg0 = dmg0 >= p0 + 188 ? dmg0 - 188 : p0; st.erase(st.begin() + p0, st.begin() + p0 + 188); for (auto &p : pk) { if (p.start >= p0 + 188) p.start -= 188; else if (p.start > p0) p.start = p0; if (p.end >= p0 + 188) p.end -= 188; else if (p.end > p0) p.end = p0; } } at = p0; len = 0; r.say("damage: drop TS packet at %zu\n", p0); break; }
			case 5: { size_t p0 = at / 188 * 188; if (p0 + 4 <= st.size()) st[p0 + 3] = (uint8_t)((st[p0 + 3] & 0xF0) | ((st[p0 + 3] + 1 + s.pick(14)) & 15)); at = p0; len = 188; r.say("damage: continuity at %zu\n", p0); break; }
			case 6: { size_t p0 = at / 188 * 188; if (p0 + 4 <= st.size()) st[p0 + 1] |= 0x80; at = p0; len = 188; r.say("damage: TEI at %zu\n", p0); break; }
			case 8: {	// an illegal PES_packet_length (not N x 184 - 6) in a packet that commences a PES packet
				size_t p0 = at / 188 * 188; bool done = false;
				for (size_t q = p0; q + 188 <= st.size() && !done; q += 188) if ((st[q + 1] & 0x40) && st[q + 4] == 0 && st[q + 5] == 0 && st[q + 6] == 1 && st[q + 7] == 0xBD) {
					unsigned L0 = st[q + 8] * 256 + st[q + 9];
					unsigned L = L0 + 1 + s.pick(12);
					if (L0 >= 362 && s.chance(1, 2)) L = L0 - 184 + 1 + s.pick(12);	/* too short by less than one TS packet */
 st[q + 8] = (uint8_t)(L >> 8); st[q + 9] = (uint8_t) L; at = q; len = 188; done = true; r.say("damage: PES_packet_length := %u in the TS packet at %zu\n", L, q); }
				if (!done) { len = 0; }
				break; }
			default: { size_t p0 = at / 188 * 188; if (p0 + 4 <= st.size()) st[p0 + 3] |= 0x40 << s.pick(2); at = p0; len = 188; r.say("damage: scrambling bits at %zu\n", p0); break; }
			}
			// a damaged PES_packet_length makes any demultiplexer skip up to 64 KiB of what follows: no recovery is demanded then
			if (hits_len) { len = st.size() - at; r.cls("damage:length-field"); }
			if (at < dmg0) dmg0 = at;
			if (at + len > dmg1) dmg1 = at + len;
			if (dmg1 < at + 1) dmg1 = at + 1;
			damage_in_packet = true;
		}
	}
	r.say("%s pid=%x data_identifier=%x %zu bytes, %zu frames, mode %u\n", ts ? "TS" : "PES", pid, di, st.size(), sent.size(), mode);
	if (st.empty()) return 2;
	if (r.verbose) { std::string t; for (auto &p : pk) { char b2[48]; snprintf(b2, sizeof b2, "[%zu,%zu)=f%d ", p.start, p.end, p.frame); t += b2; } r.say("packets: %s\nsent: %s\n", t.c_str(), show(sent).c_str()); }

	// (1) reference: one feed call
	std::vector<DFrame> whole;
	{ vbi_dvb_demux *dx = new_demux(ts, pid, demux_cb, &whole); if (!dx) return 2; vbi_dvb_demux_feed(dx, st.data(), (unsigned) st.size()); vbi_dvb_demux_delete(dx); }
	// (2) partition
	std::vector<DFrame> parts;
	bool cut_in_header = false, frame_spans_calls = false;
	{
		vbi_dvb_demux *dx = new_demux(ts, pid, demux_cb, &parts); if (!dx) return 2;
		unsigned style = s.pick(5);
		size_t at = 0;
		std::vector<uint8_t> chunk;
		while (at < st.size()) {
			size_t n;
			switch (style) { case 0: n = 1; break; case 1: n = 1 + s.pick(8); break; case 2: n = 1 + s.pick(400); break; case 3: n = s.chance(1, 2) ? 188 : 184; break; default: n = 1 + s.range(0, 5000); }
			if (at + n > st.size()) n = st.size() - at;
			// each chunk in its own exactly sized heap block: a read before or behind it is visible to ASan
			chunk.assign(st.begin() + at, st.begin() + at + n); chunk.shrink_to_fit();
			std::vector<uint8_t> exact(chunk);
			vbi_dvb_demux_feed(dx, exact.data(), (unsigned) exact.size());
			for (auto &p : pk) { size_t hdr = ts ? 4 + 46 : 46; if (at + n > p.start && at + n < p.start + hdr && at + n < p.end) cut_in_header = true; }
			at += n;
			if (style != 4) frame_spans_calls = true;
		}
		vbi_dvb_demux_delete(dx);
	}
	if (whole.size() != parts.size()) return r.fail("C07:partition-dependent", "one feed call delivers %zu frames [%s], the same bytes in pieces deliver %zu frames [%s]", whole.size(), show(whole).c_str(), parts.size(), show(parts).c_str());
	for (size_t i = 0; i < whole.size(); ++i) if (!same_frame(whole[i], parts[i])) return r.fail("C07:partition-dependent", "frame %zu differs between one feed call [%s] and the same bytes in pieces [%s]", i, show(whole).c_str(), show(parts).c_str());
	// (3) coroutine interface
	{
		std::vector<DFrame> cor;
		vbi_dvb_demux *dx = new_demux(ts, pid, nullptr, nullptr); if (!dx) return 2;
		unsigned style = s.pick(3);
		size_t at = 0;
		while (at < st.size()) {
			size_t n = style == 0 ? st.size() : style == 1 ? 1 + s.pick(600) : 1 + s.pick(16);
			if (at + n > st.size()) n = st.size() - at;
			std::vector<uint8_t> exact(st.begin() + at, st.begin() + at + n);
			const uint8_t *p = exact.data(); unsigned left = (unsigned) n;
			unsigned guard = 0, stalls = 0;
			while (left > 0 && guard++ < 100000) {
				vbi_sliced sl[64 + 2]; int64_t pts = -1;
				memset(sl, 0, sizeof sl);
				unsigned before = left;
				unsigned nl = vbi_dvb_demux_cor(dx, sl, 64, &pts, &p, &left);
				if (nl == 0 && left == before && left > 0) { if (++stalls > 3) { vbi_dvb_demux_delete(dx); return r.fail("C07:cor-livelock", "vbi_dvb_demux_cor returns 0 lines without consuming input (%u bytes left, offset %zu of the stream): a caller looping until the buffer is empty never terminates", left, at + (n - left)); } } else stalls = 0;
				if (nl > 64) { vbi_dvb_demux_delete(dx); return r.fail("C07:cor-overflow", "vbi_dvb_demux_cor returned %u lines for max_lines 64", nl); }
				if (nl > 0) { DFrame f; f.sl.assign(sl, sl + nl); f.pts = pts; cor.push_back(f); }
			}
			if (left > 0) { vbi_dvb_demux_delete(dx); return r.fail("C07:cor-stuck", "vbi_dvb_demux_cor does not consume its input"); }
			at += n;
		}
		vbi_dvb_demux_delete(dx);
		if (whole.size() != cor.size()) return r.fail("C07:coroutine-differs", "feed delivers %zu frames [%s], the coroutine %zu [%s]", whole.size(), show(whole).c_str(), cor.size(), show(cor).c_str());
		for (size_t i = 0; i < whole.size(); ++i) if (!same_frame(whole[i], cor[i])) return r.fail("C07:coroutine-differs", "frame %zu differs between feed [%s] and coroutine [%s]", i, show(whole).c_str(), show(cor).c_str());
	}
	// (4) against the sent frames
	if (!random_stream && recovery_judged) {
		// frames wholly behind the damage
		size_t first_intact = 0;
		if (damaged) { first_intact = sent.size(); for (size_t fi = sent.size(); fi-- > 0;) { bool ok = true; for (auto &p : pk) if (p.frame == (int) fi && p.start < dmg1) ok = false; if (ok) first_intact = fi; else break; } }
		// all frames but the last one (still pending) are due; the first one after the damage (or after the start of a TS stream) may be lost or altered
		// one frame per damage event may be missing or altered ("at most the first frame after the damage")
		size_t tolerated = first_intact + (n_damage > 1 ? n_damage - 1 : 0);
		std::vector<DFrame> must;
		for (size_t fi = tolerated + 1; fi + 1 < sent.size(); ++fi) must.push_back(sent[fi]);
		if (pid47) { bool bad = whole.size() < must.size(); for (size_t i = 0; !bad && i < must.size(); ++i) bad = !same_frame(whole[whole.size() - must.size() + i], must[i]);
			if (!bad) goto clause4_done; }
		if (pid47) return r.fail("C07:ts-false-sync-on-pid-byte", "PID %04x: %zu frames delivered [%s], %zu due after the damage", pid, whole.size(), show(whole).c_str(), must.size());
		if (whole.size() < must.size()) return r.fail(damaged ? "C07:no-recovery" : "C07:frames-missing", "%zu frames delivered [%s]; the %zu frames following %s must all be delivered [%s]", whole.size(), show(whole).c_str(), must.size(), damaged ? "the first frame after the damage" : "the first frame", show(must).c_str());
		size_t off = whole.size() - must.size();
		for (size_t i = 0; i < must.size(); ++i) if (!same_frame(whole[off + i], must[i]))
			return r.fail(damaged ? "C07:no-recovery" : "C07:frame-altered", "delivered [%s]; the frames following the %s must be delivered exactly as sent [%s] (mismatch at #%zu of them)", show(whole).c_str(), damaged ? "damage" : "first frame", show(must).c_str(), i);
		// what precedes: frames equal to sent frames must come in order, at most once; others are tolerated only around the damage
		size_t next = 0; unsigned alien = 0;
		for (size_t i = 0; i < off; ++i) {
			bool found = false;
			for (size_t k = next; k <= tolerated && k < sent.size(); ++k) if (same_frame(whole[i], sent[k])) { next = k + 1; found = true; break; }
			if (!found) ++alien;
		}
		unsigned allowed = damaged ? 3 : (ts ? 1 : 0);	// TS: the first frame after synchronisation may be lost or partial
		if (alien > allowed) return r.fail(damaged ? "C07:garbage-frames" : "C07:frame-altered", "%u delivered frames equal no sent frame (or repeat / reorder one): delivered [%s], sent [%s]", alien, show(whole).c_str(), show(sent).c_str());
		if (!damaged && !ts && off != 1 && sent.size() >= 2) return r.fail("C07:frames-missing", "undamaged PES stream: delivered [%s], sent [%s]", show(whole).c_str(), show(sent).c_str());
	}
clause4_done:
	r.nontrivial = cut_in_header || frame_spans_calls || damage_in_packet;
	if (cut_in_header) r.cls("cut-in-header");
	if (frame_spans_calls) r.cls("frame-spans-calls");
	if (damage_in_packet) r.cls("damaged");
	if (random_stream) r.cls("random-stream");
	if (damaged && recovery_judged) r.cls("recovery-judged");
	r.cls(ts ? "TS" : "PES");
	r.cls("frames-delivered", whole.size());
	return 0;
}

void vf_defaults(bool thorough, uint64_t *cases, size_t *max_size) { *cases = thorough ? 3000000 : 100000; *max_size = 6000; }
