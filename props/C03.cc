// C03 - Transmission errors in Teletext are corrected or contained, never shown as data.
// A generated base transmission (headers, rows, X/26, X/27/0 and /4, X/28/0, M/29/0, 8/30 format 1 and 2, several cycles with
// and without erase) is run through the real decoder once without faults and then once per injected fault; every fault run is
// judged against reference runs of the same transmission (metamorphic oracle), see DESIGN.md section 2, C03.
#include "../engine/engine.h"
#include "../models/ttx_gen.h"
#include "../models/bsd_enc.h"
#include "ttx_shim.h"
extern "C" {
#include "src/libzvbi.h"
}
#include <set>
#include <array>

const char *vf_prop_id = "C03";
const char *vf_rule =
	"base = serial or parallel transmission of 1-3 magazines x 1-2 pages (subcodes 0, 01-79, clock style 0x1234, C5/C6 sometimes) over 2-3 cycles "
	"with and without erase, rows from the C02 grammar, X/26 with character replacing triplets, X/27/0 and X/27/4, X/28/0, M/29/0, 8/30 format 1 "
	"and 2; faults per base: EVERY single bit of every Hamming 8/4 byte and 24/18 triplet (exhaustive), every in-byte double error of the packet "
	"address and designation bytes of every packet and of all eight header bytes (28 pairs per byte), two bit errors in every triplet of every X/26 packet and in every byte of every X/27/0 and 8/30 page link (sampled pairs), a parity error in every text row (one to all 40 "
	"positions in turn), and sampled multi-byte bursts with dropped packets. Non-trivial: the base contains an enhancement or service packet and a "
	"retransmission without erase; every fault run changes a byte the decoder consumes (counted per class in the histogram).";

using namespace vf;

enum { K_HDR, K_FILL, K_ROW, K_X26, K_X27, K_X28, K_M29, K_830, K_BTT };
enum { B_NONE = 0, B_H8, B_H24, B_H24b, B_H24c, B_PAR };
struct Pkt {
	uint8_t b[42]; uint8_t cls[42];
	int kind, mag, pi, cyc, row;
	bool exempt;		// magazine or service level packet: processed whatever happens to the pages in progress
	int span_end;		// headers: index of the packet that terminates this page
};
struct PageDef { unsigned mag, page, sub, national; bool c5, c6; uint8_t header[32]; bool have[25]; uint8_t row[25][40]; bool btt; };	// btt: the TOP basic table page 1F0, rows 1-20 hold one Hamming 8/4 coded page type per page 100-899

struct EvRec { std::string s; bool page_event; };
static std::vector<EvRec> *g_log;
static bool g_full_page_event;

static void put(std::string &o, const void *p, size_t n) { o.append((const char *) p, n); }
static void puti(std::string &o, long long v) { char b[32]; snprintf(b, sizeof b, "%lld,", v); o += b; }

static void on_event(vbi_event *e, void *) {
	if (!g_log) return;
	EvRec rec; rec.page_event = false;
	std::string &o = rec.s;
	puti(o, e->type);
	switch (e->type) {
	case VBI_EVENT_TTX_PAGE:
		rec.page_event = true;
		puti(o, e->ev.ttx_page.pgno); puti(o, e->ev.ttx_page.subno);
		if (g_full_page_event) {
			puti(o, e->ev.ttx_page.roll_header); puti(o, e->ev.ttx_page.header_update); puti(o, e->ev.ttx_page.clock_update); puti(o, e->ev.ttx_page.pn_offset);
			if (e->ev.ttx_page.raw_header) { o += hex(e->ev.ttx_page.raw_header + 8, 32); } else o += "-";
		}
		break;
	case VBI_EVENT_NETWORK: case VBI_EVENT_NETWORK_ID:
		puti(o, e->ev.network.nuid); o += (const char *) e->ev.network.name; o += "|"; o += (const char *) e->ev.network.call; o += "|";
		puti(o, e->ev.network.cni_vps); puti(o, e->ev.network.cni_8301); puti(o, e->ev.network.cni_8302);
		break;
	case VBI_EVENT_LOCAL_TIME:
		puti(o, (long long) e->ev.local_time->time); puti(o, e->ev.local_time->seconds_east); puti(o, e->ev.local_time->seconds_east_valid); puti(o, e->ev.local_time->dst_state);
		break;
	case VBI_EVENT_PROG_ID: {
		const vbi_program_id *p = e->ev.prog_id;
		puti(o, p->channel); puti(o, p->cni_type); puti(o, p->cni); puti(o, p->pil); puti(o, p->luf); puti(o, p->mi); puti(o, p->prf); puti(o, p->pcs_audio); puti(o, p->pty); puti(o, p->tape_delayed);
		break; }
	default: break;
	}
	g_log->push_back(rec);
}

struct Snap {
	std::vector<std::pair<unsigned, std::string>> pages;	// key pgno << 16 | subno  ->  serialized fetches
	std::vector<EvRec> log;
	std::map<unsigned, std::vector<int>> links;		// key -> page numbers of the six navigation links (FLOF, initial page) at Level 2.5
	std::map<unsigned, std::vector<unsigned>> hdr;		// key -> the 40 characters of the header row at Level 1.5
	std::map<unsigned, std::vector<unsigned>> grid;		// key -> 25 x 40 characters at Level 1.5
};

static void ser_page(std::string &o, const vbi_page &pg) {
	{ int32_t h[4] = { pg.pgno, pg.subno, pg.rows, pg.columns }; put(o, h, 16); }	// fixed width, so that first_page_diff can name the cell
	for (int i = 0; i < pg.rows * pg.columns; ++i) {
		const vbi_char &c = pg.text[i];
		unsigned a = c.underline | c.bold << 1 | c.italic << 2 | c.flash << 3 | c.conceal << 4 | c.proportional << 5 | c.link << 6;
		uint8_t rec[8] = { (uint8_t) a, (uint8_t) c.size, (uint8_t) c.opacity, (uint8_t) c.foreground, (uint8_t) c.background, (uint8_t) c.drcs_clut_offs, (uint8_t)(c.unicode & 0xFF), (uint8_t)(c.unicode >> 8) };
		put(o, rec, 8);
	}
	{ int sc = 0, so = 0; memcpy(&sc, &pg.screen_color, sizeof sc); memcpy(&so, &pg.screen_opacity, sizeof so); puti(o, sc); puti(o, so); }	// values beyond the enumerators occur (X/28 colour indices)
	put(o, pg.color_map, sizeof pg.color_map);
	if (pg.drcs_clut) put(o, pg.drcs_clut, 64);
	for (int i = 0; i < 6; ++i) { puti(o, pg.nav_link[i].pgno); puti(o, pg.nav_link[i].subno); }
	put(o, pg.nav_index, sizeof pg.nav_index);
	puti(o, pg.double_height_lower);
	put(o, pg.page_opacity, sizeof pg.page_opacity); put(o, pg.boxed_opacity, sizeof pg.boxed_opacity);
}

// run the transmission; packet i is skipped when drop[i], packet fault_at is replaced by fault_bytes
static void run_tx(const std::vector<Pkt> &tx, const std::vector<char> *drop, int fault_at, const uint8_t *fault_bytes, Snap &out,
		   const std::vector<std::pair<int, const uint8_t *>> *multi = nullptr) {
	vbi_decoder *dec = vbi_decoder_new();
	out.pages.clear(); out.log.clear(); out.links.clear(); out.hdr.clear(); out.grid.clear();
	g_log = &out.log;
	vbi_event_handler_register(dec, VBI_EVENT_TTX_PAGE | VBI_EVENT_NETWORK | VBI_EVENT_NETWORK_ID | VBI_EVENT_LOCAL_TIME | VBI_EVENT_PROG_ID, on_event, nullptr);
	double t = 1000.0;
	size_t mi = 0;
	for (size_t i = 0; i < tx.size(); ++i) {
		if (drop && (*drop)[i]) continue;
		vbi_sliced sl; memset(&sl, 0, sizeof sl);
		sl.id = VBI_SLICED_TELETEXT_B; sl.line = 7;
		memcpy(sl.data, tx[i].b, 42);
		if ((int) i == fault_at) memcpy(sl.data, fault_bytes, 42);
		if (multi) { while (mi < multi->size() && (*multi)[mi].first < (int) i) ++mi; if (mi < multi->size() && (*multi)[mi].first == (int) i) memcpy(sl.data, (*multi)[mi].second, 42); }
		vbi_decode(dec, &sl, 1, t);
		t += 0.04;
	}
	g_log = nullptr;
	static int pgno[4096], subno[4096];
	int n = ttxshim_list_pages(dec, pgno, subno, 4096);
	if (n > 4096) n = 4096;
	for (int i = 0; i < n; ++i) {
		std::string o;
		for (int level : {VBI_WST_LEVEL_1p5, VBI_WST_LEVEL_2p5}) {
			vbi_page pg; memset(&pg, 0, sizeof pg);
			if (vbi_fetch_vt_page(dec, &pg, pgno[i], subno[i], (vbi_wst_level) level, 25, TRUE)) { ser_page(o, pg); if (level == VBI_WST_LEVEL_1p5) { auto &hv = out.hdr[(unsigned) pgno[i] << 16 | (unsigned) subno[i]]; for (int q = 0; q < 40; ++q) hv.push_back(pg.text[q].unicode); auto &gv = out.grid[(unsigned) pgno[i] << 16 | (unsigned) subno[i]]; for (int y = 0; y < 25 && y < pg.rows; ++y) for (int q = 0; q < 40; ++q) gv.push_back(pg.text[y * pg.columns + q].unicode); } if (level == VBI_WST_LEVEL_2p5) { auto &lv = out.links[(unsigned) pgno[i] << 16 | (unsigned) subno[i]]; for (int q = 0; q < 6; ++q) lv.push_back(pg.nav_link[q].pgno); } vbi_unref_page(&pg); }
			else o += "<fetch failed>";
			o += "|L|";
		}
		if (o == "<fetch failed>|L|<fetch failed>|L|") continue;	// not a displayable page (TOP tables): what it says shows in the page classification below
		out.pages.push_back({ (unsigned) pgno[i] << 16 | (unsigned) subno[i], o });
	}
	{	// page classification of all pages 100-899 (TOP basic table, subtitle / newsflash flags): compared like a page
		std::string m;
		for (int mag = 1; mag <= 8; ++mag) for (int tens = 0; tens < 10; ++tens) for (int units = 0; units < 10; ++units) { vbi_subno sb = 0; char *lang = nullptr; m += (char) vbi_classify_page(dec, mag << 8 | tens << 4 | units, &sb, &lang); }
		out.pages.push_back({ 0xFFFFFFFFu, m });
	}
	std::sort(out.pages.begin(), out.pages.end());
	vbi_decoder_delete(dec);
}

static std::string first_page_diff(const Snap &a, const Snap &b) {
	char buf[500];
	size_t i = 0, j = 0;
	while (i < a.pages.size() || j < b.pages.size()) {
		if (j >= b.pages.size() || (i < a.pages.size() && a.pages[i].first < b.pages[j].first)) { snprintf(buf, sizeof buf, "page %x.%x only cached in the fault run", a.pages[i].first >> 16, a.pages[i].first & 0xFFFF); return buf; }
		if (i >= a.pages.size() || b.pages[j].first < a.pages[i].first) { snprintf(buf, sizeof buf, "page %x.%x missing in the fault run", b.pages[j].first >> 16, b.pages[j].first & 0xFFFF); return buf; }
		if (a.pages[i].second != b.pages[j].second) {
			size_t k = 0; while (k < a.pages[i].second.size() && k < b.pages[j].second.size() && a.pages[i].second[k] == b.pages[j].second[k]) ++k;
			int32_t h[4] = {0, 0, 25, 41}; if (a.pages[i].second.size() >= 16) memcpy(h, a.pages[i].second.data(), 16);
			size_t cells = (size_t) h[2] * (size_t) h[3] * 8;
			if (k >= 16 && k < 16 + cells && a.pages[i].second.size() >= 16 + cells && b.pages[j].second.size() >= 16 + cells) {
				size_t c = (k - 16) / 8; const uint8_t *x = (const uint8_t *) a.pages[i].second.data() + 16 + c * 8, *y = (const uint8_t *) b.pages[j].second.data() + 16 + c * 8;
				snprintf(buf, sizeof buf, "page %x.%x fetched differently at level 1.5, row %zu column %zu: fault run U+%04X attr %02x size %u opacity %u fg %u bg %u / reference U+%04X attr %02x size %u opacity %u fg %u bg %u", a.pages[i].first >> 16, a.pages[i].first & 0xFFFF, c / (size_t) h[3], c % (size_t) h[3],
					x[6] | x[7] << 8, x[0], x[1], x[2], x[3], x[4], y[6] | y[7] << 8, y[0], y[1], y[2], y[3], y[4]);
			} else
			snprintf(buf, sizeof buf, "page %x.%x fetched differently (first difference at serialized byte %zu; per level: 16 byte header, %d x %d cell records of 8 bytes, then page attributes)", a.pages[i].first >> 16, a.pages[i].first & 0xFFFF, k, h[2], h[3]);
			return buf;
		}
		++i; ++j;
	}
	return "";
}
static bool same_pages(const Snap &a, const Snap &b) { return a.pages == b.pages; }
static bool same_log(const Snap &a, const Snap &b) {
	if (a.log.size() != b.log.size()) return false;
	for (size_t i = 0; i < a.log.size(); ++i) if (a.log[i].s != b.log[i].s) return false;
	return true;
}
static std::string log_diff(const Snap &a, const Snap &b) {
	char buf[400];
	for (size_t i = 0; i < a.log.size() || i < b.log.size(); ++i) {
		if (i >= a.log.size()) { snprintf(buf, sizeof buf, "event %zu missing in the fault run: %s", i, b.log[i].s.substr(0, 120).c_str()); return buf; }
		if (i >= b.log.size()) { snprintf(buf, sizeof buf, "extra event %zu in the fault run: %s", i, a.log[i].s.substr(0, 120).c_str()); return buf; }
		if (a.log[i].s != b.log[i].s) { snprintf(buf, sizeof buf, "event %zu differs: fault run %s / reference %s", i, a.log[i].s.substr(0, 120).c_str(), b.log[i].s.substr(0, 120).c_str()); return buf; }
	}
	return "";
}

static void mark(Pkt &p, int at, int cls) { p.cls[at] = (uint8_t) cls; if (cls == B_H24) { p.cls[at + 1] = B_H24b; p.cls[at + 2] = B_H24c; } }

static Pkt mk(const tx::Packet &q, int kind, int mag, int pi, int cyc, int row) {
	Pkt p; memcpy(p.b, q.b, 42); memset(p.cls, 0, 42);
	p.kind = kind; p.mag = mag; p.pi = pi; p.cyc = cyc; p.row = row; p.exempt = false; p.span_end = -1;
	p.cls[0] = p.cls[1] = B_H8;
	switch (kind) {
	case K_HDR: case K_FILL: for (int i = 2; i < 10; ++i) p.cls[i] = B_H8; for (int i = 10; i < 42; ++i) p.cls[i] = B_PAR; break;
	case K_ROW: for (int i = 2; i < 42; ++i) p.cls[i] = B_PAR; break;
	case K_BTT: for (int i = 2; i < 42; ++i) p.cls[i] = B_H8; break;
	case K_X26: case K_X28: case K_M29: p.cls[2] = B_H8; for (int i = 0; i < 13; ++i) mark(p, 3 + 3 * i, B_H24); break;
	default: break;
	}
	return p;
}

static const char *kind_name(int k) { static const char *n[] = {"header", "filler-header", "row", "X/26", "X/27", "X/28", "M/29", "8/30", "TOP-BTT-row"}; return n[k]; }

int vf_run_case(Src &s, Report &r) {
	bool thorough = getenv("VF_THOROUGH") != nullptr;
	// ---------- base transmission ----------
	bool serial = s.chance(1, 4);
	unsigned nmag = 1 + s.pick(3);
	unsigned richness = s.pick(3);
	uint8_t hdr_tmpl[32]; for (int i = 0; i < 32; ++i) hdr_tmpl[i] = (uint8_t) s.range(0x20, 0x7E);
	std::vector<PageDef> pages;
	bool dummy = false;
	for (unsigned m = 0; m < nmag; ++m) {
		unsigned mag = 1 + (m * 3 + s.pick(8)) % 8;
		bool clash = false; for (auto &o : pages) if (o.mag == mag) clash = true;
		if (clash) continue;
		unsigned np = 1 + s.pick(2);
		for (unsigned k = 0; k < np; ++k) {
			PageDef p; memset(&p, 0, sizeof p);
			p.mag = mag; p.page = (s.pick(10) << 4) | s.pick(10);
			if (k == 1 && p.page == pages.back().page) p.page = (p.page + 1) % 0x9A, p.page = ((p.page & 15) > 9) ? (p.page & 0xF0) + 0x10 : p.page, p.page = p.page > 0x99 ? 0 : p.page;
			switch (s.pick(4)) { case 0: case 1: p.sub = 0; break; case 2: p.sub = (s.pick(8) << 4) | s.pick(10); break; default: { unsigned hh = 1 + s.pick(22); p.sub = ((hh / 10) << 12) | ((hh % 10) << 8) | (s.pick(6) << 4) | s.pick(10); break; } }	// clock style subcode HHMM
			p.national = s.pick(7);
			p.c5 = s.chance(1, 10); p.c6 = !p.c5 && s.chance(1, 10);
			memcpy(p.header, hdr_tmpl, 32);
			for (int i = 24; i < 32; ++i) p.header[i] = (uint8_t) s.range(0x30, 0x39);
			for (int y = 1; y <= 24; ++y) { p.have[y] = s.chance(1, 4); if (p.have[y]) { ttxgen::gen_row(s, p.row[y], richness, &dummy); } }
			pages.push_back(p);
		}
	}
	// one base in four carries the TOP basic table page 1F0 (derived from a template byte, so that the choice sequence stays as it was)
	bool with_btt = (hdr_tmpl[2] & 3) == 0;
	if (with_btt) {
		PageDef p; memset(&p, 0, sizeof p); p.btt = true; p.mag = 1; p.page = 0xF0; p.sub = 0; memcpy(p.header, hdr_tmpl, 32); for (int i = 24; i < 32; ++i) p.header[i] = '0';
		uint32_t x = 0x9E3779B9u ^ (hdr_tmpl[3] << 16 | hdr_tmpl[4] << 8 | hdr_tmpl[5]);
		auto nxt = [&]() { x ^= x << 13; x ^= x >> 17; x ^= x << 5; return x >> 8; };
		for (int y = 1; y <= 20; ++y) { p.have[y] = nxt() % 3 != 0; for (int i = 0; i < 40; ++i) { unsigned c = nxt() % 16; p.row[y][i] = (uint8_t) (c < 13 ? c : 0); } }
		pages.push_back(p);
	}
	unsigned ncyc = 2 + s.pick(2);
	std::vector<Pkt> txv;
	bool has_enh = false, has_noerase = false;
	unsigned cni = s.chance(1, 2) ? 0x0D8F : 0x3D00 + s.pick(256);
	std::set<unsigned> sent_keys;
	for (unsigned cyc = 0; cyc < ncyc; ++cyc) {
		// service packets and magazine level packets at the start of a cycle (no page is in progress here)
		if (s.chance(1, 2)) {
			for (int rep = 0; rep < 2; ++rep) {
				tx::Packet q; bsd::base_830(q.b, 0); bsd::enc_8301(q.b, cni, 2, 58000 + cyc, 12, 30, rep);
				Pkt p = mk(q, K_830, 8, -1, (int) cyc, 30); p.exempt = true; for (int i = 2; i <= 8; ++i) p.cls[i] = B_H8; for (int i = 22; i < 42; ++i) p.cls[i] = B_PAR; txv.push_back(p);
			}
			for (int rep = 0; rep < 2; ++rep) {
				tx::Packet q; bsd::base_830(q.b, 2); bsd::F2 f = {0, 0, 0, 1, 1, 0, cni, 0x2A5D7u & 0xFFFFF, 0x42}; bsd::enc_8302(q.b, f);
				Pkt p = mk(q, K_830, 8, -1, (int) cyc, 30); p.exempt = true; for (int i = 2; i <= 21; ++i) p.cls[i] = B_H8; for (int i = 22; i < 42; ++i) p.cls[i] = B_PAR; txv.push_back(p);
			}
			has_enh = true;
		}
		std::set<unsigned> mags; for (auto &p : pages) mags.insert(p.mag);
		for (unsigned mag : mags) if (s.chance(1, 4)) {
			unsigned t[13]; for (auto &x : t) x = s.u32() & 0x3FFFF;
			t[0] &= ~0x7Fu;	// function LOP, coding 0
			unsigned des29 = (t[12] & 3) == 3 ? 1 : (t[12] & 3) == 2 ? 4 : 0;	// M/29/0, /4 (colour maps) or /1 (DRCS colour look-up table)
			Pkt p = mk(tx::triplets(mag, 29, des29, t), K_M29, (int) mag, -1, (int) cyc, 29); p.exempt = true; txv.push_back(p); has_enh = true;
		}
		// per page packet lists for this cycle
		std::vector<std::vector<Pkt>> plist(pages.size());
		for (size_t pi = 0; pi < pages.size(); ++pi) {
			PageDef &p = pages[pi];
			if (p.btt) {	// no choices are consumed for this page
				tx::HeaderFlags f; f.c4_erase = cyc == 0; f.c11_serial = serial;
				plist[pi].push_back(mk(tx::header(p.mag, p.page, p.sub, f, p.header), K_HDR, (int) p.mag, (int) pi, (int) cyc, 0));
				sent_keys.insert((((p.mag << 8) | p.page) << 16));
				for (int y = 1; y <= 20; ++y) if (p.have[y] && (cyc == 0 || (y + cyc) % 3)) {
					tx::Packet q; enc::address(q.b, p.mag, (unsigned) y); for (int i = 0; i < 40; ++i) q.b[2 + i] = enc::ham8(p.row[y][i]);
					plist[pi].push_back(mk(q, K_BTT, (int) p.mag, (int) pi, (int) cyc, y));
				}
				has_enh = true;
				continue;
			}
			tx::HeaderFlags f; f.c4_erase = cyc == 0 ? s.chance(1, 2) : s.chance(1, 4); f.c5_newsflash = p.c5; f.c6_subtitle = p.c6; f.c11_serial = serial; f.national = p.national;
			if (cyc > 0 && !f.c4_erase) has_noerase = true;
			plist[pi].push_back(mk(tx::header(p.mag, p.page, p.sub, f, p.header), K_HDR, (int) p.mag, (int) pi, (int) cyc, 0));
			sent_keys.insert((((p.mag << 8) | p.page) << 16) | (p.sub & 0x3F7F));
			if (p.sub > 0x79) sent_keys.insert(((p.mag << 8) | p.page) << 16);	// the cache documents that it keeps one version of clock / rolling pages, possibly as subpage 0
			std::vector<int> rows;
			for (int y = 1; y <= 24; ++y) {
				if (!p.have[y]) continue;
				if (cyc > 0 && s.chance(1, 4)) ttxgen::gen_row(s, p.row[y], richness, &dummy);
				if (cyc > 0 && s.chance(1, 4)) continue;
				rows.push_back(y);
			}
			if (s.chance(1, 4)) for (size_t i = rows.size(); i > 1; --i) std::swap(rows[i - 1], rows[s.pick((uint32_t) i)]);
			for (int y : rows) plist[pi].push_back(mk(tx::row(p.mag, (unsigned) y, p.row[y]), K_ROW, (int) p.mag, (int) pi, (int) cyc, y));
			if (s.chance(1, 3)) {	// X/26: character replacements on transmitted rows
				unsigned nd = 1 + s.pick(2);
				for (unsigned d = 0; d < nd; ++d) {
					unsigned t[13]; unsigned k = 0;
					while (k < 13) {
						if (k < 12 && !rows.empty() && s.chance(3, 4)) {
							int y = rows[s.pick((uint32_t) rows.size())];
							unsigned rb = s.u8();
							if (rb >= 171) t[k++] = (40u + (y == 24 ? 0 : (unsigned) y)) | (0x01u << 6) | (s.pick(32) << 11);	// full row colour (also moves the active position)
							else if (rb >= 150) t[k++] = 63u | (0x07u << 6) | (s.pick(32) << 11);	// address display row 0: the characters that follow go to the header
							else t[k++] = (40u + (y == 24 ? 0 : (unsigned) y)) | (0x04u << 6);	// set active position
							unsigned nc = 1 + s.pick(3);
							for (unsigned c = 0; c < nc && k < 13; ++c) {
								static const unsigned modes[] = {0x0F, 0x10, 0x11, 0x14, 0x18, 0x1F, 0x09, 0x01, 0x02, 0x0B, 0x03, 0x07, 0x0C};
								t[k++] = s.pick(40) | (modes[s.pick(13)] << 6) | (s.range(0x20, 0x7F) << 11);
							}
						} else t[k++] = 0x3F | (0x1F << 6) | (0x7F << 11);	// termination marker
					}
					plist[pi].push_back(mk(tx::triplets(p.mag, 26, d, t), K_X26, (int) p.mag, (int) pi, (int) cyc, 26));
				}
				has_enh = true;
			}
			if (s.chance(1, 3)) {
				unsigned lp[6], ls[6]; for (int i = 0; i < 6; ++i) { lp[i] = ((1 + s.pick(8)) << 8) | (s.pick(10) << 4) | s.pick(10); ls[i] = s.chance(1, 2) ? 0x3F7F : s.pick(0x3F80) & 0x3F7F; }
				Pkt q = mk(tx::x27(p.mag, 0, lp, ls, s.pick(16)), K_X27, (int) p.mag, (int) pi, (int) cyc, 27);
				for (int i = 2; i <= 39; ++i) q.cls[i] = B_H8;
				plist[pi].push_back(q); has_enh = true;
			}
			if (s.chance(1, 5)) {	// X/27/4: six links of two triplets
				unsigned t[13]; for (auto &x : t) x = s.u32() & 0x3FFFF; t[12] = 0;
				tx::Packet q = tx::triplets(p.mag, 27, 4, t);
				Pkt pk = mk(q, K_X27, (int) p.mag, (int) pi, (int) cyc, 27); pk.cls[2] = B_H8; for (int i = 0; i < 12; ++i) mark(pk, 3 + 3 * i, B_H24);
				plist[pi].push_back(pk); has_enh = true;
			}
			if (s.chance(1, 5)) {
				unsigned t[13]; for (auto &x : t) x = s.u32() & 0x3FFFF;
				t[0] &= ~0x7Fu;
				unsigned des28 = (t[12] & 3) == 3 ? 1 : (t[12] & 3) == 2 ? 4 : 0;
				plist[pi].push_back(mk(tx::triplets(p.mag, 28, des28, t), K_X28, (int) p.mag, (int) pi, (int) cyc, 28)); has_enh = true;
			}
		}
		// schedule
		std::vector<size_t> at(pages.size(), 0);
		std::vector<size_t> magq;	// index of the page currently transmitted per magazine: pages of one magazine are sent one after another
		auto next_of_mag = [&](unsigned mag) -> int { for (size_t pi = 0; pi < pages.size(); ++pi) if (pages[pi].mag == mag && at[pi] < plist[pi].size()) return (int) pi; return -1; };
		for (;;) {
			std::vector<unsigned> alive; for (unsigned mag : mags) if (next_of_mag(mag) >= 0) alive.push_back(mag);
			if (alive.empty()) break;
			if (serial) {	// whole pages one after another
				int pi = next_of_mag(alive[0]);
				while (at[pi] < plist[pi].size()) txv.push_back(plist[pi][at[pi]++]);
			} else {
				unsigned mag = alive[s.pick((uint32_t) alive.size())];
				int pi = next_of_mag(mag);
				unsigned burst = 1 + s.pick(4);
				while (burst-- && at[pi] < plist[pi].size()) txv.push_back(plist[pi][at[pi]++]);
			}
		}
		for (unsigned mag : mags) {
			tx::HeaderFlags ff; ff.c11_serial = serial; uint8_t txt[32]; memcpy(txt, hdr_tmpl, 32);
			txv.push_back(mk(tx::header(mag, 0xFF, 0x3F7F, ff, txt), K_FILL, (int) mag, -1, (int) cyc, 0));
		}
	}
	int n = (int) txv.size();
	// page spans: a page counts as in progress until the next header of its own magazine (in serial mode a decoder may complete it at the
	// next header of any magazine or keep it pending until then; both are accepted)
	for (int i = 0; i < n; ++i) if (txv[i].kind == K_HDR || txv[i].kind == K_FILL) {
		int e = n; for (int j = i + 1; j < n; ++j) if ((txv[j].kind == K_HDR || txv[j].kind == K_FILL) && txv[j].mag == txv[i].mag) { e = j; break; }
		txv[i].span_end = e;
	}
	if (r.verbose) {
		r.say("%s mode, %zu pages, %u cycles, %d packets\n", serial ? "serial" : "parallel", pages.size(), ncyc, n);
		for (int i = 0; i < n; ++i) r.say("  #%d %s mag %d cycle %d row %d: %s\n", i, kind_name(txv[i].kind), txv[i].mag, txv[i].cyc, txv[i].row, hex(txv[i].b, 42).c_str());
	}
	g_full_page_event = true;
	Snap ref; run_tx(txv, nullptr, -1, nullptr, ref);
	for (auto &kv : ref.pages) if (kv.first != 0xFFFFFFFFu && !sent_keys.count(kv.first)) return r.fail("C03:faultfree-foreign-page", "fault-free run cached %x.%x which was not transmitted", kv.first >> 16, kv.first & 0xFFFF);

	uint64_t budget = thorough ? 20000 : 3000;	// fault runs per base; classes below are enumerated completely unless the base is larger than this
	uint64_t runs = 0;
	Snap got, cand;
	uint8_t fb[42];
	auto describe = [&](int i, const uint8_t *bytes) { char b[400]; snprintf(b, sizeof b, "packet #%d (%s, magazine %d, cycle %d, row/packet %d) sent as %s instead of %s", i, kind_name(txv[i].kind), txv[i].mag, txv[i].cyc, txv[i].row, hex(bytes, 42).c_str(), hex(txv[i].b, 42).c_str()); return std::string(b); };

	// ---------- class 1: every single bit of every Hamming protected byte / triplet: nothing may change ----------
	uint64_t total1 = 0; for (int i = 0; i < n; ++i) for (int k = 0; k < 42; ++k) if (txv[i].cls[k] >= B_H8 && txv[i].cls[k] <= B_H24c) total1 += 8;
	unsigned stride1 = 1; if (total1 > budget * 6 / 10) { stride1 = (unsigned)(total1 / (budget * 6 / 10)) + 1; r.cls("single-bit-class-sampled-not-exhaustive"); }
	uint64_t idx = s.pick(stride1 ? stride1 : 1);
	for (int i = 0; i < n; ++i) for (int k = 0; k < 42; ++k) {
		int c = txv[i].cls[k]; if (c < B_H8 || c > B_H24c) continue;
		for (int bit = 0; bit < 8; ++bit, ++idx) {
			if (idx % stride1) continue;
			memcpy(fb, txv[i].b, 42); fb[k] ^= 1 << bit;
			run_tx(txv, nullptr, i, fb, got); ++runs;
			r.cls(c == B_H8 ? "faults:single-bit-hamming-8/4" : "faults:single-bit-hamming-24/18");
			if (!same_pages(got, ref)) return r.fail(c == B_H8 ? "C03:single-bit-8/4-changes-pages" : "C03:single-bit-24/18-changes-pages", "one bit error (byte %d bit %d): %s; %s", k, bit, describe(i, fb).c_str(), first_page_diff(got, ref).c_str());
			if (!same_log(got, ref)) return r.fail(c == B_H8 ? "C03:single-bit-8/4-changes-events" : "C03:single-bit-24/18-changes-events", "one bit error (byte %d bit %d): %s; %s", k, bit, describe(i, fb).c_str(), log_diff(got, ref).c_str());
		}
	}

	// ---------- class 2: uncorrectable address / designation byte of a non-header packet: as if the packet was lost ----------
	std::vector<char> drop(n, 0);
	std::map<int, Snap> dropped_ref;
	auto ref_without = [&](int i) -> const Snap & { auto it = dropped_ref.find(i); if (it != dropped_ref.end()) return it->second; std::fill(drop.begin(), drop.end(), 0); drop[i] = 1; Snap &sn = dropped_ref[i]; run_tx(txv, &drop, -1, nullptr, sn); if (dropped_ref.size() > 64) { /* keep memory bounded */ } return sn; };
	for (int i = 0; i < n; ++i) {
		bool hdr = txv[i].kind == K_HDR || txv[i].kind == K_FILL;
		dropped_ref.clear();
		for (int k = 0; k < (hdr ? 2 : 3); ++k) {
			if (txv[i].cls[k] != B_H8) continue;
			if (k == 2 && txv[i].kind == K_BTT) continue;	// a data byte there (class 2e)
			if (hdr && k >= 0) { /* address bytes of a header: same rule, the header is lost */ }
			for (int b1 = 0; b1 < 8; ++b1) for (int b2 = b1 + 1; b2 < 8; ++b2) {
				if (runs > budget * 8 / 10 && ((b1 * 8 + b2 + i) % 7)) continue;
				memcpy(fb, txv[i].b, 42); fb[k] ^= (1 << b1) | (1 << b2);
				run_tx(txv, nullptr, i, fb, got); ++runs;
				r.cls(k < 2 ? "faults:double-bit-address" : "faults:double-bit-designation");
				const Snap &w = ref_without(i);
				if (!same_pages(got, w)) return r.fail(k < 2 ? "C03:uncorrectable-address-not-dropped" : "C03:uncorrectable-designation-not-dropped", "two bit errors in byte %d: %s: pages differ from the run without this packet; %s", k, describe(i, fb).c_str(), first_page_diff(got, w).c_str());
				if (!same_log(got, w)) return r.fail("C03:uncorrectable-packet-changes-events", "two bit errors in byte %d: %s; %s", k, describe(i, fb).c_str(), log_diff(got, w).c_str());
			}
		}
	}
	dropped_ref.clear();

	// ---------- class 2b: uncorrectable triplet inside an X/26 packet: the enhancement data is cut or dropped, never re-aligned ----------
	// Enhancement triplets are position dependent (column triplets apply to the row the last row address triplet selected), so a
	// receiver that merely leaves the damaged triplet out shows the following characters in a row they were not sent for. Accepted
	// outcomes: the fault-free pages (the triplet lies behind a termination marker), the packet cut at the damaged triplet and the
	// later X/26 packets of this transmission of the page ignored (what follows the cut is empty, or keeps the content of the previous
	// transmission when the page was not erased), the whole packet ignored with or without the later ones, or the
	// page abandoned.
	for (int i = 0; i < n; ++i) {
		if (txv[i].kind != K_X26) continue;
		std::vector<char> later(n, 0);	// later X/26 packets of the same transmission of the page
		{ int h = -1; for (int j = i; j >= 0; --j) if (txv[j].kind == K_HDR && txv[j].pi == txv[i].pi) { h = j; break; }
		  int e = h >= 0 ? txv[h].span_end : n;
		  for (int j = i + 1; j < e; ++j) if (txv[j].kind == K_X26 && txv[j].pi == txv[i].pi && txv[j].cyc == txv[i].cyc) later[j] = 1; }
		Snap dropOnly, dropLater, abandoned; bool haveD = false;
		for (int q = 0; q < 13; ++q) {
			unsigned reps = (runs > budget * 9 / 10) ? 1 : 2;
			for (unsigned rep = 0; rep < reps; ++rep) {
				unsigned x1 = s.pick(24), x2 = s.pick(23); if (x2 >= x1) ++x2;
				memcpy(fb, txv[i].b, 42);
				fb[3 + 3 * q + x1 / 8] ^= 1 << (x1 & 7); fb[3 + 3 * q + x2 / 8] ^= 1 << (x2 & 7);
				run_tx(txv, nullptr, i, fb, got); ++runs;
				r.cls("faults:double-bit-X/26-triplet");
				if (same_pages(got, ref)) continue;
				r.cls("faults:double-bit-X/26-triplet-with-effect");
				// cut at q
				uint8_t cut[42]; memcpy(cut, txv[i].b, 42);
				for (int k = q; k < 13; ++k) enc::ham24(cut + 3 + 3 * k, 0x3Fu | (0x1Fu << 6) | (0x7Fu << 11));
				std::fill(drop.begin(), drop.end(), 0); for (int j = 0; j < n; ++j) if (later[j]) drop[j] = 1;
				run_tx(txv, &drop, i, cut, cand);
				if (same_pages(got, cand)) continue;
				// cut at q, the rest of the enhancement data keeps its earlier content (the page was not erased): the triplets of the
				// previous transmission of this designation
				{ int prev = -1; for (int j = i - 1; j >= 0; --j) if (txv[j].kind == K_X26 && txv[j].pi == txv[i].pi && txv[j].b[2] == txv[i].b[2]) { prev = j; break; }
				  if (prev >= 0) { memcpy(cut + 3 + 3 * q, txv[prev].b + 3 + 3 * q, (size_t) (13 - q) * 3); run_tx(txv, &drop, i, cut, cand); if (same_pages(got, cand)) { r.cls("faults:double-bit-X/26-triplet-earlier-content-kept"); continue; } } }
				if (!haveD) {
					std::fill(drop.begin(), drop.end(), 0); drop[i] = 1; run_tx(txv, &drop, -1, nullptr, dropOnly);
					for (int j = 0; j < n; ++j) if (later[j]) drop[j] = 1; run_tx(txv, &drop, -1, nullptr, dropLater);
					std::fill(drop.begin(), drop.end(), 0);
					{ int h = -1; for (int j = i; j >= 0; --j) if (txv[j].kind == K_HDR && txv[j].pi == txv[i].pi) { h = j; break; }
					  if (h >= 0) for (int j = h; j < txv[h].span_end; ++j) if (!txv[j].exempt && txv[j].mag == txv[h].mag) drop[j] = 1; }
					run_tx(txv, &drop, -1, nullptr, abandoned);
					haveD = true;
				}
				if (same_pages(got, dropOnly) || same_pages(got, dropLater) || same_pages(got, abandoned)) continue;
				return r.fail("C03:uncorrectable-X/26-triplet-shown-as-data", "two bit errors in triplet %d (bits %u and %u): %s: the fetched pages equal neither the fault-free run, nor the run with the enhancement data cut at this triplet, nor a run without this packet (with or without the later X/26 packets), nor a run without this transmission of the page; against the cut packet: %s; against the run without this and the later X/26 packets: %s",
					q, x1, x2, describe(i, fb).c_str(), first_page_diff(got, cand).c_str(), first_page_diff(got, dropLater).c_str());
			}
		}
	}

	// ---------- class 2d: uncorrectable triplet in an X/28 or M/29 packet (colour maps, character sets, DRCS colour look-up table): the packet is ignored ----------
	for (int i = 0; i < n; ++i) {
		if (txv[i].kind != K_X28 && txv[i].kind != K_M29) continue;
		bool haveW = false; Snap without;
		for (int q = 0; q < 13; ++q) {
			unsigned x1 = s.pick(24), x2 = s.pick(23); if (x2 >= x1) ++x2;
			memcpy(fb, txv[i].b, 42);
			fb[3 + 3 * q + x1 / 8] ^= 1 << (x1 & 7); fb[3 + 3 * q + x2 / 8] ^= 1 << (x2 & 7);
			run_tx(txv, nullptr, i, fb, got); ++runs;
			r.cls("faults:double-bit-X/28-M/29-triplet");
			if (same_pages(got, ref)) continue;
			if (!haveW) { std::fill(drop.begin(), drop.end(), 0); drop[i] = 1; run_tx(txv, &drop, -1, nullptr, without); haveW = true; }
			if (same_pages(got, without)) continue;
			return r.fail("C03:uncorrectable-X/28-M/29-triplet-shown-as-data", "two bit errors in triplet %d (bits %u and %u): %s: the fetched pages equal neither the fault-free run nor the run without this packet; against the fault-free run: %s; against the run without the packet: %s",
				q, x1, x2, describe(i, fb).c_str(), first_page_diff(got, ref).c_str(), first_page_diff(got, without).c_str());
		}
	}

	// ---------- class 2e: uncorrectable byte in a row of the TOP basic table: at most the page type of that one page is affected ----------
	for (int i = 0; i < n; ++i) {
		if (txv[i].kind != K_BTT) continue;
		bool haveW = false; Snap without;
		for (unsigned rep = 0; rep < 6; ++rep) {
			int j = (int) s.pick(40); unsigned b1 = s.pick(8), b2 = s.pick(7); if (b2 >= b1) ++b2;
			memcpy(fb, txv[i].b, 42); fb[2 + j] ^= (uint8_t) ((1u << b1) | (1u << b2));
			run_tx(txv, nullptr, i, fb, got); ++runs;
			r.cls("faults:double-bit-TOP-basic-table-byte");
			if (same_pages(got, ref)) continue;
			if (!haveW) { std::fill(drop.begin(), drop.end(), 0); drop[i] = 1; run_tx(txv, &drop, -1, nullptr, without); haveW = true; }
			if (same_pages(got, without)) continue;
			if (got.pages.size() != ref.pages.size()) return r.fail("C03:uncorrectable-basic-table-byte-changes-pages", "two bit errors in byte %d: %s: %s", 2 + j, describe(i, fb).c_str(), first_page_diff(got, ref).c_str());
			size_t damaged = (size_t) (txv[i].row - 1) * 40 + (size_t) j;	// rows 1-20 x 40 bytes = pages 100-899 in order
			for (size_t q = 0; q < got.pages.size(); ++q) {
				if (got.pages[q].first != ref.pages[q].first) return r.fail("C03:uncorrectable-basic-table-byte-changes-pages", "two bit errors in byte %d: %s: %s", 2 + j, describe(i, fb).c_str(), first_page_diff(got, ref).c_str());
				if (got.pages[q].first != 0xFFFFFFFFu) { if (got.pages[q].second != ref.pages[q].second && got.pages[q].second != without.pages[q].second) return r.fail("C03:uncorrectable-basic-table-byte-changes-pages", "two bit errors in byte %d: %s: %s", 2 + j, describe(i, fb).c_str(), first_page_diff(got, ref).c_str()); continue; }
				const std::string &g = got.pages[q].second, &a = ref.pages[q].second, &w = without.pages[q].second;
				for (size_t pgi = 0; pgi < g.size() && pgi < a.size() && pgi < w.size(); ++pgi) if (pgi != damaged && g[pgi] != a[pgi] && g[pgi] != w[pgi])
					return r.fail("C03:uncorrectable-basic-table-byte-moves-page-types", "two bit errors in byte %d (the entry of page %zu): %s: page %zu is classified as type %d; fault-free %d, without this packet %d", 2 + j, 100 + damaged, describe(i, fb).c_str(), 100 + pgi, (int) (unsigned char) g[pgi], (int) (unsigned char) a[pgi], (int) (unsigned char) w[pgi]);
			}
		}
	}

	// ---------- class 2c: uncorrectable Hamming 8/4 byte inside a page link (X/27/0-3 FLOF links, 8/30 initial page): the link is ignored ----------
	// Accepted: any outcome in which no page is lost or gained and every navigation link of every page points where it points in the
	// fault-free run, in the run without this packet, or nowhere. A link to a page number that no fault-free run shows is data made up
	// from a transmission error.
	for (int i = 0; i < n; ++i) {
		if (txv[i].kind != K_X27 && txv[i].kind != K_830) continue;
		if (txv[i].cls[3] != B_H8) continue;	// X/27/4 carries triplets
		std::set<int> allowed; bool haveW = false; Snap without;
		for (auto &kv : ref.links) for (int l : kv.second) allowed.insert(l);
		// every link target transmitted by any packet of this kind in the base (a link that is not updated keeps its earlier content, which
		// no complete run may show: an earlier X/27/0 without the "display row 24" bit hides its links)
		for (int j = 0; j < n; ++j) if ((txv[j].kind == K_X27 && txv[j].cls[3] == B_H8) || txv[j].kind == K_830) {
			int nl = txv[j].kind == K_X27 ? 6 : 1;
			for (int q = 0; q < nl; ++q) {
				const uint8_t *raw = txv[j].b + 3 + 6 * q;
				int b1 = vbi_unham16p(raw), b2 = vbi_unham16p(raw + 2), b3 = vbi_unham16p(raw + 4);
				if ((b1 | b2 | b3) < 0) continue;
				int m = ((b3 >> 5) & 6) + (b2 >> 7), mag0 = txv[j].kind == K_X27 ? (txv[j].mag & 7) : 0;
				allowed.insert((((mag0 ^ m) ? (mag0 ^ m) : 8) << 8) + b1);
			}
		}
		for (int k = 3; k < 42; ++k) {
			if (txv[i].cls[k] != B_H8) continue;
			unsigned reps = runs > budget ? 1 : 2;
			for (unsigned rep = 0; rep < reps; ++rep) {
				unsigned b1 = s.pick(8), b2 = s.pick(7); if (b2 >= b1) ++b2;
				memcpy(fb, txv[i].b, 42); fb[k] ^= (uint8_t) ((1u << b1) | (1u << b2));
				run_tx(txv, nullptr, i, fb, got); ++runs;
				r.cls(txv[i].kind == K_X27 ? "faults:double-bit-X/27-link-byte" : "faults:double-bit-8/30-byte");
				if (same_pages(got, ref)) continue;
				if (!haveW) { std::fill(drop.begin(), drop.end(), 0); drop[i] = 1; run_tx(txv, &drop, -1, nullptr, without); for (auto &kv : without.links) for (int l : kv.second) allowed.insert(l); haveW = true; }
				if (same_pages(got, without)) continue;
				if (got.pages.size() != ref.pages.size()) return r.fail("C03:uncorrectable-link-byte-changes-page-set", "two bit errors in byte %d: %s: %s", k, describe(i, fb).c_str(), first_page_diff(got, ref).c_str());
				for (size_t q = 0; q < got.pages.size(); ++q) if (got.pages[q].first != ref.pages[q].first) return r.fail("C03:uncorrectable-link-byte-changes-page-set", "two bit errors in byte %d: %s: %s", k, describe(i, fb).c_str(), first_page_diff(got, ref).c_str());
				for (auto &kv : got.links) for (size_t q = 0; q < kv.second.size(); ++q) if (!allowed.count(kv.second[q]) && !(kv.second[q] < 0x100 || kv.second[q] > 0x8FF || (kv.second[q] & 0xFF) == 0xFF))	/* (no page: nowhere) */
					return r.fail("C03:uncorrectable-link-byte-shown-as-link", "two bit errors in byte %d: %s: page %x.%x navigation link %zu points to page %x, which no fault-free run of this transmission (with or without this packet) shows", k, describe(i, fb).c_str(), kv.first >> 16, kv.first & 0xFFFF, q, kv.second[q]);
			}
		}
	}

	// ---------- class 3: uncorrectable header byte: only pages in progress may be abandoned ----------
	for (int i = 0; i < n; ++i) {
		if (txv[i].kind != K_HDR && txv[i].kind != K_FILL) continue;
		// pages in progress when this header arrives
		std::vector<int> open;
		for (int j = 0; j < i; ++j) if (txv[j].kind == K_HDR && txv[j].span_end >= i) open.push_back(j);
		// candidate reference runs: the damaged header either vanishes or still acts as a terminator for its magazine (= a time filling
		// header), its own page is abandoned, and any subset of the pages in progress is abandoned
		std::vector<Snap> cands; std::vector<bool> have;
		unsigned nsub = 1u << open.size();
		unsigned ncand = 2 * nsub;
		cands.resize(ncand); have.assign(ncand, false);
		uint8_t filler[42]; memcpy(filler, txv[i].b, 42); filler[2] = filler[3] = enc::ham8(15);
		auto candidate = [&](unsigned id) -> const Snap & {
			if (have[id]) return cands[id];
			unsigned mask = id % nsub; bool as_filler = id >= nsub;
			std::fill(drop.begin(), drop.end(), 0);
			for (int j = i; j < txv[i].span_end; ++j) if (!txv[j].exempt && txv[j].mag == txv[i].mag) drop[j] = 1;
			for (size_t o = 0; o < open.size(); ++o) if (mask & (1u << o)) { int h = open[o];
				bool immediate = txv[h].pi >= 0 && pages[(size_t) txv[h].pi].btt;	// the rows of the TOP basic table take effect when they arrive: abandoning that page only stops the rows that follow
				for (int j = immediate ? i : h; j < txv[h].span_end; ++j) if (!txv[j].exempt && txv[j].mag == txv[h].mag) drop[j] = 1; }
			if (as_filler) drop[i] = 0;
			run_tx(txv, &drop, as_filler ? i : -1, filler, cands[id]); have[id] = true; return cands[id];
		};
		for (int k = 2; k < 10; ++k) for (int b1 = 0; b1 < 8; ++b1) for (int b2 = b1 + 1; b2 < 8; ++b2) {
			if (runs > budget && ((b1 * 8 + b2 + i + k) % 5)) continue;
			memcpy(fb, txv[i].b, 42); fb[k] ^= (1 << b1) | (1 << b2);
			run_tx(txv, nullptr, i, fb, got); ++runs;
			r.cls("faults:double-bit-header-byte");
			bool ok = false;
			// try what implementations usually do first: terminator kept and nothing abandoned, everything in progress abandoned
			std::vector<unsigned> order; order.push_back(nsub); order.push_back(nsub - 1); order.push_back(2 * nsub - 1); order.push_back(0);
			for (unsigned m = 0; m < ncand; ++m) if (m != nsub && m != nsub - 1 && m != 2 * nsub - 1 && m != 0) order.push_back(m);
			for (unsigned m : order) if (same_pages(got, candidate(m))) { ok = true; break; }
			if (!ok) {
				for (auto &kv : got.pages) if (kv.first != 0xFFFFFFFFu && !sent_keys.count(kv.first)) return r.fail("C03:uncorrectable-header-stores-foreign-page", "two bit errors in header byte %d: %s: page %x.%x was never transmitted", k, describe(i, fb).c_str(), kv.first >> 16, kv.first & 0xFFFF);
				return r.fail("C03:uncorrectable-header-damages-pages", "two bit errors in header byte %d: %s: the cached pages equal no run in which this header's page and any subset of the %zu pages in progress are abandoned; against 'all abandoned': %s; against 'header still terminates, none abandoned': %s",
					k, describe(i, fb).c_str(), open.size(), first_page_diff(got, candidate(nsub - 1)).c_str(), first_page_diff(got, candidate(nsub)).c_str());
			}
			// no page event for a page that was not transmitted
			for (auto &e : got.log) if (e.page_event) { unsigned pg = 0, sb = 0; sscanf(e.s.c_str(), "%*d,%u,%u", &pg, &sb); if (!sent_keys.count((pg << 16) | sb)) return r.fail("C03:uncorrectable-header-foreign-page-event", "two bit errors in header byte %d: %s: page event for %x.%x which was never transmitted", k, describe(i, fb).c_str(), pg, sb); }
		}
	}

	// ---------- class 4: parity errors in text rows: the row keeps its earlier content or stays blank ----------
	g_full_page_event = false;
	Snap ref_lite; run_tx(txv, nullptr, -1, nullptr, ref_lite);
	uint64_t runs4 = 0;
	for (int i = 0; i < n; ++i) {
		if (txv[i].kind != K_ROW || txv[i].row > 24) continue;
		// cells addressed by character triplets of the page's X/26 packets (any cycle: enhancement data stays cached) are excepted by the
		// statement; walk the triplets as EN 300 706 12.3 describes: row address triplets 0x01, 0x04, 0x07 move the active row
		std::set<int> ov, xcols;
		for (int j = 0; j < n; ++j) if (txv[j].kind == K_X26 && txv[j].pi == txv[i].pi) {
			// designation 0 starts at row 0; later designations continue, which the conservative union over all rows of a column below covers
			int row = -1;
			for (int q = 0; q < 13; ++q) {
				unsigned t18 = 0; { const uint8_t *tp = txv[j].b + 3 + 3 * q; unsigned v = tp[0] | tp[1] << 8 | tp[2] << 16; int kk = 0; for (int pos = 1; pos <= 23; ++pos) { if ((pos & (pos - 1)) == 0) continue; t18 |= ((v >> (pos - 1)) & 1) << kk++; } }
				unsigned addr = t18 & 0x3F, mode = (t18 >> 6) & 0x1F;
				if (addr >= 40) { if (mode == 0x01 || mode == 0x04) { row = (int) addr - 40; if (!row) row = 24; } else if (mode == 0x07) row = 0; }
				else if (mode == 0x01 || mode == 0x02 || mode == 0x0B || mode == 0x08 || mode == 0x09 || mode == 0x0D || mode == 0x0F || mode >= 0x10) { xcols.insert((int) addr); if (row >= 0) ov.insert(row * 64 + (int) addr); else for (int rr = 0; rr < 25; ++rr) ov.insert(rr * 64 + (int) addr); }
			}
		}
		std::vector<int> tcols; for (int c : xcols) if (!ov.count(txv[i].row * 64 + c)) tcols.push_back(c);	// addressed by a triplet, but in another row
		unsigned nflt = 2 + s.pick(4);
		for (unsigned f = 0; f < nflt; ++f) {
			if (runs4 > budget / 3) break;
			memcpy(fb, txv[i].b, 42);
			unsigned cnt = s.chance(1, 4) ? 1 + s.pick(40) : 1;
			for (unsigned c = 0; c < cnt; ++c) {
				int col = (int) s.pick(48); if (col >= 40) col = col >= 44 ? 39 : 0;	// the first and the last column a little more often
				if (!tcols.empty() && s.chance(1, 2)) col = tcols[s.pick((uint32_t) tcols.size())];
				else if (!xcols.empty() && s.chance(1, 4)) { auto it = xcols.begin(); std::advance(it, s.pick((uint32_t) xcols.size())); col = *it; }
				if (ov.count(txv[i].row * 64 + col)) { r.cls("parity-fault-position-overridden-by-X/26-skipped"); continue; }
				fb[2 + col] ^= 1 << s.pick(8);
			}
			bool any_bad = false; for (int k = 2; k < 42; ++k) if (!enc::par_ok(fb[k])) any_bad = true;
			if (!any_bad) continue;
			run_tx(txv, nullptr, i, fb, got); ++runs; ++runs4;
			r.cls("faults:parity-text-row");
			if (!tcols.empty()) r.cls("faults:parity-text-row-on-page-with-X/26");
			std::fill(drop.begin(), drop.end(), 0); drop[i] = 1;
			run_tx(txv, &drop, -1, nullptr, cand);
			if (same_pages(got, cand)) continue;
			// a decoder may also keep the good characters of the row: bad positions keep the earlier content or a blank
			bool ok = false;
			for (int variant = 0; variant < 2 && !ok; ++variant) {
				uint8_t alt[42]; memcpy(alt, fb, 42);
				for (int k = 2; k < 42; ++k) if (!enc::par_ok(alt[k])) {
					uint8_t earlier = enc::par(0x20);
					if (variant == 1) for (int j = i - 1; j >= 0; --j) if (txv[j].kind == K_ROW && txv[j].pi == txv[i].pi && txv[j].row == txv[i].row) { earlier = txv[j].b[k]; break; }
					alt[k] = earlier;
				}
				run_tx(txv, nullptr, i, alt, cand);
				if (same_pages(got, cand)) ok = true;
			}
			if (ok) {
				// ... but only where the row had no earlier content to keep: "a text row received with a parity error never replaces a previously
				// received good row". Earlier content = what the run without this packet shows in that row of the page.
				Snap without_row; std::fill(drop.begin(), drop.end(), 0); drop[i] = 1; run_tx(txv, &drop, -1, nullptr, without_row);
				const PageDef &pd = pages[(size_t) txv[i].pi]; unsigned pgno = pd.mag << 8 | pd.page; int y = txv[i].row;
				for (auto &kv : without_row.grid) if ((kv.first >> 16) == pgno && y >= 1 && y <= 24 && kv.second.size() >= (size_t) (y + 1) * 40) {
					bool blank = true; for (int q = 0; q < 40; ++q) { unsigned u = kv.second[(size_t) y * 40 + (size_t) q]; if (u != 0x20 && u != 0xEE20 && u != 0xEE00) blank = false; }
					auto g = got.grid.find(kv.first);
					bool changed = g != got.grid.end() && g->second.size() == kv.second.size() && !std::equal(g->second.begin() + y * 40, g->second.begin() + (y + 1) * 40, kv.second.begin() + y * 40);
					if (!blank && changed) return r.fail("C03:parity-error-row-replaces-good-row", "parity error(s) in %s: row %d of page %x.%x had content from an earlier transmission (it shows in the run without this packet), the damaged row has replaced it", describe(i, fb).c_str(), y, kv.first >> 16, kv.first & 0xFFFF);
				}
				r.cls("faults:parity-text-row-position-wise-outcome");
			}
			if (!ok) {
				std::fill(drop.begin(), drop.end(), 0); drop[i] = 1; run_tx(txv, &drop, -1, nullptr, cand);
				return r.fail("C03:parity-error-row-shown", "parity error(s) in %s: the fetched pages equal neither the run without this row (row keeps its earlier content or stays blank) nor a run in which only the damaged positions keep their earlier content; against the run without the row: %s", describe(i, fb).c_str(), first_page_diff(got, cand).c_str());
			}
		}
	}
	// header text parity errors: the page must still be cached under its number, other pages untouched
	for (int i = 0; i < n; ++i) {
		if (txv[i].kind != K_HDR) continue;
		memcpy(fb, txv[i].b, 42);
		int k = 10 + (int) s.pick(32); fb[k] ^= 1 << s.pick(8);
		run_tx(txv, nullptr, i, fb, got); ++runs;
		r.cls("faults:parity-header-text");
		if (got.pages.size() != ref_lite.pages.size()) return r.fail("C03:header-parity-error-changes-page-set", "parity error in header text byte %d: %s: %s", k, describe(i, fb).c_str(), first_page_diff(got, ref_lite).c_str());
		for (size_t q = 0; q < got.pages.size(); ++q) {
			if (got.pages[q].first != ref_lite.pages[q].first) return r.fail("C03:header-parity-error-changes-page-set", "parity error in header text byte %d: %s: %s", k, describe(i, fb).c_str(), first_page_diff(got, ref_lite).c_str());
			unsigned key = got.pages[q].first; const PageDef &pd = pages[txv[i].pi];
			bool own = key == (((((pd.mag << 8) | pd.page)) << 16) | (pd.sub & 0x3F7F));
			if (own && got.hdr.count(key) && ref_lite.hdr.count(key)) {	// the damaged character is blanked or (retransmission) keeps its earlier content; never another character
				const auto &gh = got.hdr[key], &rh = ref_lite.hdr[key]; int col = 8 + (k - 10);
				// earlier content: the same column of this page's header in an earlier cycle
				std::set<unsigned> okc; okc.insert(0x20); if (col < (int) rh.size()) okc.insert(rh[(size_t) col]);
				for (size_t c = 8; c < gh.size() && c < rh.size(); ++c) {
					if ((int) c == col ? !okc.count(gh[c]) : false) {
						// (the clock digits differ from cycle to cycle: any digit the page ever carried there is earlier content)
						bool earlier = false; for (int j = 0; j < n; ++j) if (txv[j].kind == K_HDR && txv[j].pi == txv[i].pi) { unsigned ch = txv[j].b[10 + (c - 8)] & 0x7F; if (gh[c] == ch) earlier = true; }
						if (!earlier) return r.fail("C03:header-parity-error-shown-as-character", "parity error in header text byte %d: %s: the header of page %x.%x shows U+%04X in column %zu, transmitted U+%04X (a damaged character is blanked or keeps its earlier content)", k, describe(i, fb).c_str(), key >> 16, key & 0xFFFF, gh[c], c, rh[c]);
					}
				}
			}
			if (!own && got.pages[q].second != ref_lite.pages[q].second) return r.fail("C03:header-parity-error-changes-other-page", "parity error in header text byte %d: %s: %s", k, describe(i, fb).c_str(), first_page_diff(got, ref_lite).c_str());
		}
	}

	// ---------- class 5: bursts: up to two bit errors in every protected byte of many packets plus dropped packets: no foreign page ----------
	unsigned nburst = thorough ? 40 : 12;
	for (unsigned bi = 0; bi < nburst; ++bi) {
		std::vector<std::array<uint8_t, 42>> store; store.reserve(n);
		std::vector<std::pair<int, const uint8_t *>> multi;
		std::fill(drop.begin(), drop.end(), 0);
		unsigned density = 1 + s.pick(8);
		for (int i = 0; i < n; ++i) {
			if (s.chance(1, 16)) { drop[i] = 1; continue; }
			if (!s.chance(density, 10)) continue;
			std::array<uint8_t, 42> a; memcpy(a.data(), txv[i].b, 42);
			for (int k = 0; k < 42; ++k) {
				int c = txv[i].cls[k];
				if (c == B_H8 || c == B_PAR) { if (s.chance(1, 3)) { a[k] ^= 1 << s.pick(8); if (s.chance(1, 2)) a[k] ^= 1 << s.pick(8); } }
				else if (c == B_H24) { if (s.chance(1, 3)) { unsigned x = s.pick(24); a[k + x / 8] ^= 1 << (x & 7); if (s.chance(1, 2)) { x = s.pick(24); a[k + x / 8] ^= 1 << (x & 7); } } }
			}
			store.push_back(a); multi.push_back({ i, store.back().data() });
		}
		run_tx(txv, &drop, -1, nullptr, got, &multi); ++runs;
		r.cls("faults:burst-up-to-2-bits-per-protected-byte");
		for (auto &kv : got.pages) if (kv.first != 0xFFFFFFFFu && !sent_keys.count(kv.first)) return r.fail("C03:burst-stores-foreign-page", "burst %u (up to two bit errors per protected byte in %zu packets, dropped packets): page %x.%x is cached but was never transmitted", bi, multi.size(), kv.first >> 16, kv.first & 0xFFFF);
		for (auto &e : got.log) if (e.page_event) { unsigned pg = 0, sb = 0; sscanf(e.s.c_str(), "%*d,%u,%u", &pg, &sb); if (!sent_keys.count((pg << 16) | sb)) return r.fail("C03:burst-foreign-page-event", "burst %u: page event for %x.%x which was never transmitted", bi, pg, sb); }
	}

	r.nontrivial = has_enh && has_noerase;
	r.cls("fault-runs", runs);
	r.cls(serial ? "base:serial" : "base:parallel");
	if (has_enh) r.cls("base:with-enhancement-or-service-packets");
	if (has_noerase) r.cls("base:no-erase-retransmission");
	return 0;
}

void vf_defaults(bool thorough, uint64_t *cases, size_t *max_size) { *cases = thorough ? 3000 : 200; *max_size = 6000; }
bool vf_leak_check() { return true; }
