// C06 - DVB VBI multiplexer output is standard-conformant and demultiplexes to its input.
// Oracle: independent parser (models/dvb_model.h), callback vs coroutine byte equality,
// the library's own demultiplexers, rejected frames produce no output and leave the mux usable.
#include "../engine/engine.h"
#include "../models/dvb_model.h"
extern "C" {
#include "src/libzvbi.h"
vbi_dvb_demux *_vbi_dvb_ts_demux_new(vbi_dvb_demux_cb *callback, void *user_data, unsigned int pid);
}

const char *vf_prop_id = "C06";
const char *vf_rule =
	"case = mux configuration (PES or TS with PID, data_identifier legal/illegal, min/max PES size incl. unaligned and swapped) + 1-8 frames "
	"(subsets of lines 7-23 / 320-335 with Teletext B (3 ids), VPS@16, WSS@23, Caption@21, random payloads, service mask, 33+ bit PTS) "
	"with deliberately unacceptable frames interleaved (wrong line, wrong order, duplicate, foreign service, too large), emitted through the "
	"callback and the coroutine interface (generated output buffer sizes). Non-trivial: a frame needs >= 3 TS packets or >= 2 x 184 bytes, "
	"or follows a rejected frame, or the coroutine buffer is smaller than the packet.";

using namespace vf;

struct Frame { std::vector<vbi_sliced> sl; int64_t pts; unsigned mask; bool legal; bool only_masked_bad; std::string why; };
struct Out { std::vector<uint8_t> bytes; std::vector<size_t> chunks; };

static vbi_bool mux_cb(vbi_dvb_mux *, void *ud, const uint8_t *p, unsigned n) { Out *o = (Out *) ud; o->bytes.insert(o->bytes.end(), p, p + n); o->chunks.push_back(n); return TRUE; }

struct DFrame { std::vector<vbi_sliced> sl; int64_t pts; };
static vbi_bool demux_cb(vbi_dvb_demux *, void *ud, const vbi_sliced *s, unsigned n, int64_t pts) {
	std::vector<DFrame> *v = (std::vector<DFrame> *) ud; DFrame f; f.sl.assign(s, s + n); f.pts = pts; v->push_back(f); return TRUE;
}

static const unsigned TTX_IDS[3] = {VBI_SLICED_TELETEXT_B_625, VBI_SLICED_TELETEXT_B_L10_625, VBI_SLICED_TELETEXT_B_L25_625};

static unsigned du_size(unsigned id, bool fixed) {
	if (fixed) return 46;
	if (id & VBI_SLICED_TELETEXT_B_625) return 46;
	if (id == VBI_SLICED_VPS) return 16;
	return 5;
}
static int svc_of(unsigned id) { if (id & VBI_SLICED_TELETEXT_B_625) return dvb::TTX; if (id == VBI_SLICED_VPS) return dvb::VPS; if (id == VBI_SLICED_WSS_625) return dvb::WSS; return dvb::CC; }
static unsigned norm_id(unsigned id) { if (id & VBI_SLICED_TELETEXT_B_625) return VBI_SLICED_TELETEXT_B_625; if (id & VBI_SLICED_CAPTION_625) return VBI_SLICED_CAPTION_625_F1; return id; }
static unsigned nbytes(int svc) { return svc == dvb::TTX ? 42 : svc == dvb::VPS ? 13 : 2; }

static Frame gen_frame(Src &s, Report &r) {
	Frame f; f.legal = true; f.only_masked_bad = false; f.mask = ~0u;
	f.pts = (int64_t) s.u32() | ((int64_t)(s.u8() & (s.chance(1, 8) ? 0xFF : 1)) << 32);
	unsigned density = s.pick(4);	// 0 sparse .. 3 full
	for (unsigned line = 7; line <= 335; ++line) {
		if (line == 24) line = 320;
		unsigned thr = density == 0 ? 40 : density == 1 ? 100 : density == 2 ? 180 : 250;
		if (s.u8() <= 255 - thr) continue;
		vbi_sliced x; memset(&x, 0, sizeof x); x.line = line;
		if (line == 16 && s.chance(2, 3)) x.id = VBI_SLICED_VPS;
		else if (line == 21 && s.chance(2, 3)) x.id = s.chance(1, 2) ? VBI_SLICED_CAPTION_625_F1 : VBI_SLICED_CAPTION_625;
		else if (line == 23) x.id = VBI_SLICED_WSS_625;
		else x.id = TTX_IDS[s.pick(3)];
		unsigned nb = nbytes(svc_of(x.id));
		for (unsigned i = 0; i < nb; ++i) x.data[i] = s.u8();
		if (x.id == VBI_SLICED_WSS_625) x.data[1] &= 0x3F;
		f.sl.push_back(x);
	}
	if (f.sl.empty()) { vbi_sliced x; memset(&x, 0, sizeof x); x.id = VBI_SLICED_TELETEXT_B_625; x.line = 7 + s.pick(16); for (int i = 0; i < 42; ++i) x.data[i] = s.u8(); f.sl.push_back(x); }
	if (s.chance(1, 12) && !f.sl.empty()) { f.sl[s.pick((uint32_t) f.sl.size())].line = 0; if (f.sl.back().line == 0 || true) { /* line 0 only legal for Teletext */ } }
	for (auto &x : f.sl) if (x.line == 0 && !(x.id & VBI_SLICED_TELETEXT_B_625)) { f.legal = false; f.why = "line 0 on a non-Teletext service"; }
	if (s.chance(1, 10)) { static const unsigned masks[] = {VBI_SLICED_TELETEXT_B_625, VBI_SLICED_VPS | VBI_SLICED_WSS_625, VBI_SLICED_CAPTION_625, VBI_SLICED_TELETEXT_B_L10_625, 0}; f.mask = masks[s.pick(5)]; }
	// deliberately unacceptable frames
	if (s.chance(1, 5)) {
		unsigned kind = s.pick(5);
		vbi_sliced x; memset(&x, 0, sizeof x);
		size_t at = f.sl.empty() ? 0 : s.pick((uint32_t) f.sl.size() + 1);
		switch (kind) {
		case 0: {	// wrong line for the service
			static const unsigned ids[] = {VBI_SLICED_TELETEXT_B_625, VBI_SLICED_VPS, VBI_SLICED_WSS_625, VBI_SLICED_CAPTION_625, VBI_SLICED_TELETEXT_B_625, VBI_SLICED_TELETEXT_B_625};
			static const unsigned lines[] = {23, 17, 22, 22, 6, 336};
			unsigned k = s.pick(6); x.id = ids[k]; x.line = lines[k];
			// keep the order legal so that only the line is wrong
			std::vector<vbi_sliced> n2; bool put = false;
			for (auto &y : f.sl) { if (!put && y.line != 0 && y.line >= x.line) { if (y.line == x.line) { put = true; n2.push_back(x); continue; } n2.push_back(x); put = true; } n2.push_back(y); }
			if (!put) n2.push_back(x);
			f.sl = n2; f.why = "wrong line for service";
			break;
		}
		case 1: if (f.sl.size() >= 2) { size_t i = s.pick((uint32_t) f.sl.size() - 1); if (f.sl[i].line && f.sl[i + 1].line) { std::swap(f.sl[i], f.sl[i + 1]); f.why = "line order"; } else { f.why = ""; } } break;
		case 2: if (!f.sl.empty()) { size_t i = s.pick((uint32_t) f.sl.size()); if (f.sl[i].line) { f.sl.insert(f.sl.begin() + i, f.sl[i]); f.why = "duplicate line"; } } break;
		case 3: { static const unsigned ids[] = {VBI_SLICED_CAPTION_525, VBI_SLICED_TELETEXT_B_525, VBI_SLICED_VPS | VBI_SLICED_CAPTION_625, VBI_SLICED_WSS_CPR1204, VBI_SLICED_CAPTION_625_F2};
			x.id = ids[s.pick(5)]; x.line = f.sl.empty() ? 10 : (at < f.sl.size() ? f.sl[at].line : f.sl.back().line + 1);
			if (at < f.sl.size()) f.sl[at] = x; else f.sl.push_back(x);
			f.why = "foreign service"; break; }
		default: break;
		}
		if (!f.why.empty()) {
			f.legal = false;
			// is the offence confined to lines the service mask drops? then either outcome is accepted
		}
	}
	// recompute legality from the documented table (independent of how the frame was built)
	{
		bool ok = true, ok_unmasked = true; unsigned last = 0; std::string why;
		for (auto &x : f.sl) {
			bool bad = false;
			if (x.line) { if (x.line <= last) { bad = true; why = "line order / duplicate"; ok = false; ok_unmasked = false; } last = x.line; }
			bool m = (x.id & f.mask) != 0;
			unsigned fl = x.line >= 313 ? x.line - 313 : x.line;
			if (x.id == VBI_SLICED_TELETEXT_B_625 || x.id == VBI_SLICED_TELETEXT_B_L10_625 || x.id == VBI_SLICED_TELETEXT_B_L25_625) { if (x.line != 0 && (fl < 7 || fl > 22)) bad = true; }
			else if (x.id == VBI_SLICED_VPS) { if (x.line != 16) bad = true; }
			else if (x.id == VBI_SLICED_WSS_625) { if (x.line != 23) bad = true; }
			else if (x.id == VBI_SLICED_CAPTION_625 || x.id == VBI_SLICED_CAPTION_625_F1) { if (x.line != 21) bad = true; }
			else if (x.id != 0) bad = true;
			if (bad && why.empty()) why = "line / service not in the documented table";
			if (bad) { ok = false; if (m) ok_unmasked = false; }
		}
		f.legal = ok; f.only_masked_bad = !ok && ok_unmasked; if (!ok && f.why.empty()) f.why = why; if (ok) f.why = "";
	}
	(void) r;
	return f;
}

// ---------- raw lines: VBI_SLICED_VBI_625 records carried as monochrome 4:2:2 sample data units (EN 301 775 4.9) ----------
// The samples of every raw line must be those of its row of the caller's image (rows laid out as the sampling parameters say:
// sequential = first field then second field, interlaced = alternating), in segments of at most 40 samples that follow each other
// from first_pixel_position = offset - 132, flagged first / last, in line order together with the sliced lines.
static int raw_case(Src &s, Report &r) {
	vbi_sampling_par sp; memset(&sp, 0, sizeof sp);
	sp.scanning = 625; sp.sampling_format = VBI_PIXFMT_YUV420; sp.sampling_rate = 13500000; sp.synchronous = TRUE;
	unsigned off = 132 + (s.chance(1, 2) ? 0 : s.pick(300));
	unsigned room = 132 + 720 - off;
	unsigned spl = s.chance(1, 3) ? room : 1 + s.pick(room);
	sp.offset = (int) off; sp.bytes_per_line = (int) spl;
	sp.start[0] = 6 + (int) s.pick(11); sp.count[0] = 1 + (int) s.pick((uint32_t) (23 - sp.start[0] + 1));	// (lines 6 and 319 can be sampled but not carried: a raw line there makes the frame unacceptable)
	sp.start[1] = 319 + (int) s.pick(11); sp.count[1] = 1 + (int) s.pick((uint32_t) (335 - sp.start[1] + 1));
	sp.interlaced = s.chance(1, 4);
	if (sp.interlaced) { int c = std::min(sp.count[0], sp.count[1]); sp.count[0] = sp.count[1] = c; }
	unsigned rows = (unsigned) (sp.count[0] + sp.count[1]), seed = s.u8();
	std::vector<uint8_t> raw((size_t) rows * spl);
	for (unsigned y = 0; y < rows; ++y) for (unsigned x = 0; x < spl; ++x) raw[(size_t) y * spl + x] = (uint8_t) (y * 53 + x * 7 + seed);
	// the frame: raw lines and a few Teletext lines, ascending
	std::vector<vbi_sliced> sl;
	for (int f = 0; f < 2; ++f) for (int k = 0; k < sp.count[f]; ++k) {
		unsigned line = (unsigned) (sp.start[f] + k); unsigned what = s.pick(6);
		if (what >= 3) continue;
		vbi_sliced x; memset(&x, 0, sizeof x); x.line = line;
		if (what == 2 && (line <= 22 || line >= 320)) { x.id = VBI_SLICED_TELETEXT_B_625; for (int i = 0; i < 42; ++i) x.data[i] = s.u8(); }
		else x.id = VBI_SLICED_VBI_625;
		sl.push_back(x);
	}
	if (sl.empty()) { vbi_sliced x; memset(&x, 0, sizeof x); x.id = VBI_SLICED_VBI_625; x.line = (unsigned) sp.start[1]; sl.push_back(x); }
	Out out;
	vbi_dvb_mux *m = vbi_dvb_pes_mux_new(mux_cb, &out);
	if (!m) return 2;
	int64_t pts = s.u32();
	vbi_bool ok = vbi_dvb_mux_feed(m, sl.data(), (unsigned) sl.size(), ~0u, raw.data(), &sp, pts);
	if (!ok) {	// a rejected frame leaves the multiplexer usable: an ordinary frame that follows is accepted and produces a packet
		size_t before = out.bytes.size();
		vbi_sliced t; memset(&t, 0, sizeof t); t.id = VBI_SLICED_TELETEXT_B_625; t.line = 8; for (int i = 0; i < 42; ++i) t.data[i] = (uint8_t) (i * 3 + seed);
		vbi_bool ok2 = vbi_dvb_mux_feed(m, &t, 1, ~0u, nullptr, nullptr, pts + 3600);
		if (before == 0 && (!ok2 || out.bytes.size() == before)) { vbi_dvb_mux_delete(m); return r.fail("C06:mux-unusable-after-rejected-frame", "a frame with raw lines was rejected (raw lines on line %u ..., window %d+%d / %d+%d); the ordinary frame fed next was %s", sl.front().line, sp.start[0], sp.count[0], sp.start[1], sp.count[1], ok2 ? "accepted without output" : "rejected too"); }
		out.bytes.resize(before);
		r.cls("raw:frame-after-rejected-frame");
	}
	vbi_dvb_mux_delete(m);
	r.say("raw case: offset %u spl %u start %d+%d count %d+%d %s, %zu lines -> %s, %zu bytes\n", off, spl, sp.start[0], sp.start[1], sp.count[0], sp.count[1], sp.interlaced ? "interlaced" : "sequential", sl.size(), ok ? "accepted" : "rejected", out.bytes.size());
	r.cls(ok ? "raw:accepted" : "raw:rejected");
	if (!ok) {
		if (!out.bytes.empty()) return r.fail("C06:rejected-frame-output", "a frame with raw lines was rejected but produced %zu output bytes", out.bytes.size());
		// the frame needs more than the default maximum PES size when many raw lines are long: a legitimate refusal
		return 0;
	}
	dvb::Pes pp; std::string err = dvb::parse_pes(out.bytes.data(), out.bytes.size(), &pp);
	if (!err.empty()) return r.fail("C06:nonconformant-output", "frame with raw lines: %s", err.c_str());
	size_t ui = 0;
	for (auto &x : sl) {
		while (ui < pp.units.size() && !pp.units[ui].is_line) ++ui;
		if (x.id != VBI_SLICED_VBI_625) {
			if (ui >= pp.units.size() || pp.units[ui].l.svc != dvb::TTX || pp.units[ui].l.line != x.line || memcmp(pp.units[ui].l.data, x.data, 42)) return r.fail("C06:lines-differ", "frame with raw lines: Teletext line %u is not where it belongs in the packet", x.line);
			++ui; continue;
		}
		unsigned field = x.line >= 313, rowi = x.line - (unsigned) sp.start[field];
		unsigned row = sp.interlaced ? rowi * 2 + field : rowi + (field ? (unsigned) sp.count[0] : 0);
		const uint8_t *want = raw.data() + (size_t) row * spl;
		unsigned got_n = 0; bool first = true;
		for (;;) {
			while (ui < pp.units.size() && !pp.units[ui].is_line) ++ui;
			if (ui >= pp.units.size() || pp.units[ui].l.svc != dvb::RAW || pp.units[ui].l.line != x.line) return r.fail("C06:raw-line-segments", "raw line %u: %u of %u samples found, then the packet goes on with something else", x.line, got_n, spl);
			const dvb::Unit &u = pp.units[ui++];
			if ((bool) u.first_seg != first) return r.fail("C06:raw-line-segments", "raw line %u: first_segment flag %d on the segment at sample %u", x.line, (int) (bool) u.first_seg, got_n);
			if (u.first_pixel != off - 132 + got_n) return r.fail("C06:raw-line-segments", "raw line %u: segment starts at pixel %u, expected %u (offset %u - 132 + %u samples sent)", x.line, u.first_pixel, off - 132 + got_n, off, got_n);
			if (u.n_pixels == 0 || u.n_pixels > 40 || got_n + u.n_pixels > spl) return r.fail("C06:raw-line-segments", "raw line %u: segment of %u samples after %u of %u", x.line, u.n_pixels, got_n, spl);
			if (memcmp(u.samples.data(), want + got_n, u.n_pixels)) return r.fail("C06:raw-line-samples", "raw line %u (image row %u of %u, %s): the segment at sample %u does not carry the samples of that row (first sample %02x, row has %02x)", x.line, row, rows, sp.interlaced ? "interlaced" : "sequential", got_n, u.samples[0], want[got_n]);
			got_n += u.n_pixels; first = false;
			bool last = got_n == spl;
			if ((bool) u.last_seg != last) return r.fail("C06:raw-line-segments", "raw line %u: last_segment flag %d after %u of %u samples", x.line, (int) (bool) u.last_seg, got_n, spl);
			if (last) break;
		}
	}
	while (ui < pp.units.size() && !pp.units[ui].is_line) ++ui;
	if (ui < pp.units.size()) return r.fail("C06:lines-differ", "frame with raw lines: the packet carries more line data units than were sent");
	if (pp.pts != (pts & ((1LL << 33) - 1))) return r.fail("C06:pts", "frame with raw lines: PTS %lld in the packet, %lld sent", (long long) pp.pts, (long long) pts);
	r.nontrivial = sp.count[0] != sp.count[1] || spl > 40;
	return 0;
}

int vf_run_case(Src &s, Report &r) {
	unsigned first_choice = s.u8();	// >= 128: TS, 100-127: a frame with raw lines, below: PES (as s.chance(1, 2) did, except for 100-127)
	if (first_choice >= 100 && first_choice < 128) return raw_case(s, r);
	bool ts = first_choice >= 128;
	unsigned pid = 0;
	if (ts) { static const unsigned pids[] = {0x10, 0x1FFE, 0x100, 0x1234}; pid = s.chance(1, 2) ? pids[s.pick(4)] : s.range(0x10, 0x1FFE); }
	unsigned di; bool di_legal = true;
	switch (s.pick(6)) { case 0: di = 0x10 + s.pick(16); break; case 1: di = 0x99 + s.pick(3); break; case 2: di = 0x10; break; case 3: di = 0x99; break;
		case 4: { static const unsigned bad[] = {0x00, 0x0F, 0x20, 0x98, 0x9C, 0xFF, 0x100, 0x1010}; di = bad[s.pick(8)]; di_legal = false; break; } default: di = 0x15; }
	unsigned min_req, max_req;
	switch (s.pick(6)) { case 0: min_req = 184; max_req = 65504; break; case 1: min_req = 184 * (1 + s.pick(4)); max_req = 184 * (1 + s.pick(12)); break;
		case 2: min_req = s.range(0, 2000); max_req = s.range(0, 3000); break; case 3: min_req = 0; max_req = 0; break; case 4: min_req = 100000; max_req = s.range(0, 70000); break; default: min_req = 184; max_req = 184 * (2 + s.pick(8)); }
	unsigned nframes = 1 + s.pick(8);
	std::vector<Frame> frames;
	for (unsigned i = 0; i < nframes; ++i) frames.push_back(gen_frame(s, r));
	// terminating frame so that the demultiplexer flushes the last one
	// (two of them: the TS demultiplexer may hold a PES packet back until the next one commences)
	for (int k = 0; k < 2; ++k) { Frame t; t.legal = true; t.only_masked_bad = false; t.mask = ~0u; t.pts = 12345 + k; vbi_sliced x; memset(&x, 0, sizeof x); x.id = VBI_SLICED_TELETEXT_B_625; x.line = 7; t.sl.push_back(x); frames.push_back(t); }
	r.say("%s pid=%x data_identifier=%x%s min=%u max=%u frames=%u\n", ts ? "TS" : "PES", pid, di, di_legal ? "" : " (illegal)", min_req, max_req, nframes);

	Out cb_out, co_out;
	vbi_dvb_mux *m1 = ts ? vbi_dvb_ts_mux_new(pid, mux_cb, &cb_out) : vbi_dvb_pes_mux_new(mux_cb, &cb_out);
	vbi_dvb_mux *m2 = ts ? vbi_dvb_ts_mux_new(pid, nullptr, nullptr) : vbi_dvb_pes_mux_new(nullptr, nullptr);
	if (!m1 || !m2) { vbi_dvb_mux_delete(m1); vbi_dvb_mux_delete(m2); return 2; }
	int rc = 0;
	unsigned eff_di = 0x10;
	for (vbi_dvb_mux *m : {m1, m2}) {
		unsigned before = vbi_dvb_mux_get_data_identifier(m);
		vbi_bool ok = vbi_dvb_mux_set_data_identifier(m, di);
		if (ok != (vbi_bool) di_legal) { rc = r.fail("C06:data-identifier-check", "set_data_identifier(%x) returned %d", di, ok); break; }
		if (!ok && vbi_dvb_mux_get_data_identifier(m) != before) { rc = r.fail("C06:data-identifier-check", "rejected data_identifier changed the setting"); break; }
		if (ok) eff_di = di;
		vbi_dvb_mux_set_pes_packet_size(m, min_req, max_req);
	}
	unsigned cmin = vbi_dvb_mux_get_min_pes_packet_size(m1), cmax = vbi_dvb_mux_get_max_pes_packet_size(m1);
	if (!rc && (cmin % 184 || cmax % 184 || cmin < 184 || cmin > cmax || cmax > 65536))
		rc = r.fail("C06:packet-size-config", "set_pes_packet_size(%u, %u) configured min %u max %u", min_req, max_req, cmin, cmax);
	bool fixed = dvb::fixed_format(eff_di);
	dvb::TsState tss;
	std::vector<std::vector<dvb::Line>> sent;	// accepted frames: expected lines (after mask)
	std::vector<int64_t> sent_pts;
	bool prev_rejected = false, nt = false, has_line0 = false, known_ts_first = false;
	size_t first_pes_size = 0;
	for (size_t fi = 0; fi < frames.size() && !rc; ++fi) {
		Frame &f = frames[fi];
		// expected lines and size
		std::vector<dvb::Line> want; size_t need = 46;
		for (auto &x : f.sl) if (x.id & f.mask) { dvb::Line l; l.svc = svc_of(x.id); l.line = x.line; l.nbytes = nbytes(l.svc); memcpy(l.data, x.data, 42); want.push_back(l); need += du_size(x.id, fixed); }
		bool too_big = need > cmax;
		if (r.verbose) { std::string d; for (auto &x : f.sl) { char b[32]; snprintf(b, sizeof b, "%u:%x ", x.line, x.id); d += b; }
			r.say("frame %zu: mask %x pts %lld lines [%s] %s%s%s\n", fi, f.mask, (long long) f.pts, d.c_str(), f.legal ? "legal" : "ILLEGAL: ", f.why.c_str(), too_big ? " TOO BIG" : ""); }
		size_t b1 = cb_out.bytes.size(), c1 = cb_out.chunks.size();
		static vbi_sliced dummy_line;	// an empty frame is passed as (valid pointer, 0 lines); NULL + 0 in generate_pes_packet is only a pedantic UBSan report
		vbi_bool ok1 = vbi_dvb_mux_feed(m1, f.sl.empty() ? &dummy_line : f.sl.data(), (unsigned) f.sl.size(), f.mask, nullptr, nullptr, f.pts);
		// coroutine
		size_t b2 = co_out.bytes.size();
		vbi_bool ok2 = TRUE;
		bool small_buf = false;
		if (f.sl.empty()) { ok2 = ok1; if (ok1) co_out.bytes.insert(co_out.bytes.end(), cb_out.bytes.begin() + b1, cb_out.bytes.end()); }	// cor refuses empty frames by contract
		else {
			const vbi_sliced *sp = f.sl.data(); unsigned left = (unsigned) f.sl.size();
			unsigned guard = 0;
			unsigned pattern = s.pick(5), tiny_budget = 600;
			static std::vector<uint8_t> buf;
			while (left > 0 && guard++ < 200000) {
				unsigned bs; switch (pattern) { case 0: bs = tiny_budget ? 1 : 4096; break; case 1: bs = 188; break; case 2: bs = tiny_budget ? 1 + (guard * 37) % 300 : 5000; break; case 3: bs = 70000; break; default: bs = 4096; }
				if (tiny_budget) --tiny_budget;
				buf.assign(bs + 8, 0xA5);
				uint8_t *p = buf.data(); unsigned bl = bs;
				ok2 = vbi_dvb_mux_cor(m2, &p, &bl, &sp, &left, f.mask, nullptr, nullptr, f.pts);
				for (unsigned k = bs; k < bs + 8; ++k) if (buf[k] != 0xA5) { rc = r.fail("C06:cor-overrun", "vbi_dvb_mux_cor wrote past the %u byte output buffer", bs); break; }
				if (rc) break;
				if (!ok2) { if (bl != bs || p != buf.data()) rc = r.fail("C06:cor-failed-with-output", "vbi_dvb_mux_cor failed but consumed output space"); break; }
				co_out.bytes.insert(co_out.bytes.end(), buf.data(), p);
				if (bs < 184) small_buf = true;
			}
			if (rc) break;
		}
		if (ok1 != ok2) { rc = r.fail("C06:feed-cor-disagree", "frame %zu: vbi_dvb_mux_feed returned %d, vbi_dvb_mux_cor %d", fi, ok1, ok2); break; }
		bool accepted = ok1;
		if (f.legal && !too_big && !accepted) { rc = r.fail("C06:legal-frame-rejected", "frame %zu satisfies the documented table and fits (%zu <= %u) but was rejected", fi, need, cmax); break; }
		if ((!f.legal && !f.only_masked_bad) && accepted) { rc = r.fail("C06:illegal-frame-accepted", "frame %zu (%s) was accepted", fi, f.why.c_str()); break; }
		if (too_big && f.legal && accepted) { rc = r.fail("C06:oversized-frame-accepted", "frame %zu needs %zu bytes, max PES size %u, but was accepted", fi, need, cmax); break; }
		if (!accepted) {
			if (cb_out.bytes.size() != b1 || co_out.bytes.size() != b2) { rc = r.fail("C06:rejected-frame-output", "frame %zu was rejected but produced %zu / %zu output bytes", fi, cb_out.bytes.size() - b1, co_out.bytes.size() - b2); break; }
			prev_rejected = true; r.cls("frame:rejected");
			continue;
		}
		r.cls("frame:accepted");
		// callback granularity
		for (size_t k = c1; k < cb_out.chunks.size(); ++k) if (ts && cb_out.chunks[k] != 188) { rc = r.fail("C06:ts-callback-size", "TS callback with %zu bytes", cb_out.chunks[k]); }
		if (!ts && cb_out.chunks.size() != c1 + 1) rc = r.fail("C06:pes-callback-count", "%zu callbacks for one frame", cb_out.chunks.size() - c1);
		if (rc) break;
		// identical bytes from both interfaces
		if (cb_out.bytes.size() - b1 != co_out.bytes.size() - b2 || memcmp(cb_out.bytes.data() + b1, co_out.bytes.data() + b2, cb_out.bytes.size() - b1)) {
			rc = r.fail("C06:callback-coroutine-differ", "frame %zu: callback output %zu bytes, coroutine output %zu bytes, contents differ", fi, cb_out.bytes.size() - b1, co_out.bytes.size() - b2); break; }
		// parse
		std::vector<std::vector<uint8_t>> pes;
		std::string err;
		if (ts) err = dvb::parse_ts(cb_out.bytes.data() + b1, cb_out.bytes.size() - b1, pid, tss, &pes);
		else pes.push_back(std::vector<uint8_t>(cb_out.bytes.begin() + b1, cb_out.bytes.end()));
		if (err.empty() && pes.size() != 1) err = "frame produced " + std::to_string(pes.size()) + " PES packets";
		dvb::Pes pp;
		if (err.empty()) err = dvb::parse_pes(pes[0].data(), pes[0].size(), &pp);
		if (err.empty() && ts && (cb_out.bytes.size() - b1) / 188 * 184 != pes[0].size()) err = "TS packet count does not match the PES size";
		if (!err.empty()) { rc = r.fail("C06:nonconformant-output", "frame %zu: %s", fi, err.c_str()); break; }
		if (pp.size < cmin || pp.size > cmax) { rc = r.fail("C06:pes-size-bounds", "frame %zu: PES size %zu outside the configured [%u, %u]", fi, pp.size, cmin, cmax); break; }
		if (pp.pts != (f.pts & ((1LL << 33) - 1))) { rc = r.fail("C06:pts", "frame %zu: PTS %lld in the packet, %lld sent", fi, (long long) pp.pts, (long long)(f.pts & ((1LL << 33) - 1))); break; }
		if (pp.data_identifier != eff_di) { rc = r.fail("C06:data-identifier", "data_identifier %02x in the packet, configured %02x", pp.data_identifier, eff_di); break; }
		std::vector<dvb::Line> got; for (auto &u : pp.units) if (u.is_line) got.push_back(u.l);
		bool same = got.size() == want.size();
		for (size_t k = 0; same && k < got.size(); ++k) same = got[k].svc == want[k].svc && got[k].line == want[k].line && !memcmp(got[k].data, want[k].data, want[k].nbytes);
		if (!same) {
			std::string a, b; for (auto &l : want) { char t[24]; snprintf(t, sizeof t, "%u/%d ", l.line, l.svc); a += t; } for (auto &l : got) { char t[24]; snprintf(t, sizeof t, "%u/%d ", l.line, l.svc); b += t; }
			rc = r.fail("C06:lines-differ", "frame %zu: sent lines [%s], the packet carries [%s] (line/service; or payload differs)", fi, a.c_str(), b.c_str()); break; }
		for (auto &l : want) if (l.line == 0) has_line0 = true;
		if (sent.empty()) first_pes_size = pp.size;
		sent.push_back(want); sent_pts.push_back(f.pts & ((1LL << 33) - 1));
		if (pp.size >= 368 || prev_rejected || small_buf) nt = true;
		if (pp.size >= 368) r.cls("frame:>=2x184");
		if (prev_rejected) r.cls("frame:after-rejected");
		if (small_buf) r.cls("cor:small-buffer");
		prev_rejected = false;
	}
	vbi_dvb_mux_delete(m1); vbi_dvb_mux_delete(m2);
	// the library's demultiplexer must return the same lines
	if (!rc && !has_line0 && !sent.empty()) {
		std::vector<DFrame> got;
		vbi_dvb_demux *dx = ts ? _vbi_dvb_ts_demux_new(demux_cb, &got, pid) : vbi_dvb_pes_demux_new(demux_cb, &got);
		if (dx) {
			vbi_dvb_demux_feed(dx, cb_out.bytes.data(), (unsigned) cb_out.bytes.size());
			vbi_dvb_demux_delete(dx);
			// expected frames: consecutive packets whose lines keep increasing form one frame; the last one stays pending
			struct EF { std::vector<dvb::Line> l; int64_t pts; bool pts_any; };
			std::vector<EF> exp;
			bool after_empty = false;
			// known finding C06:ts-first-single-packet-pes-lost: the TS demultiplexer loses the first PES packet after
			// (re)synchronisation when it fits into one TS packet; excluded (its lines are not expected), counted
			bool drop_first = false;
			if (ts && first_pes_size == 184 && !sent.front().empty()) {
				if (exclusions_on()) { drop_first = true; ++r.excluded_known; } else known_ts_first = true;
			}
			for (size_t i = 0; i < sent.size(); ++i) {
				if (i == 0 && drop_first) continue;
				// a packet without lines (everything masked out) carries a PTS but no frame; which PTS the next frame
				// reports is then not defined by the statement
				if (sent[i].empty()) { after_empty = true; continue; }
				if (!exp.empty() && sent[i].front().line > exp.back().l.back().line) { exp.back().l.insert(exp.back().l.end(), sent[i].begin(), sent[i].end()); }
				else { EF e; e.l = sent[i]; e.pts = sent_pts[i]; e.pts_any = after_empty; exp.push_back(e); }
				after_empty = false;
			}
			if (!exp.empty()) exp.pop_back();
			// the first terminating frame may still be pending as well
			if (!exp.empty() && got.size() + 1 == exp.size()) exp.pop_back();
			bool same = exp.size() == got.size();
			for (size_t i = 0; same && i < exp.size(); ++i) {
				same = exp[i].l.size() == got[i].sl.size() && (exp[i].pts_any || exp[i].pts == got[i].pts);
				for (size_t k = 0; same && k < exp[i].l.size(); ++k) {
					const dvb::Line &l = exp[i].l[k]; const vbi_sliced &g = got[i].sl[k];
					unsigned want_id = l.svc == dvb::TTX ? VBI_SLICED_TELETEXT_B_625 : l.svc == dvb::VPS ? VBI_SLICED_VPS : l.svc == dvb::WSS ? VBI_SLICED_WSS_625 : VBI_SLICED_CAPTION_625_F1;
					same = g.id == want_id && g.line == l.line && (l.svc == dvb::WSS ? (g.data[0] == l.data[0] && (g.data[1] & 0x3F) == l.data[1])	// 14 payload bits
						: !memcmp(g.data, l.data, l.nbytes));
					if (!same) r.say("first difference: frame %zu line %u: demux id %x line %u data %s, sent id %x line %u data %s\n", i, l.line, g.id, g.line, hex(g.data, l.nbytes).c_str(), want_id, l.line, hex(l.data, l.nbytes).c_str());
				}
			}
			if (!same) {
				std::string a, b;
				for (auto &e : exp) { a += "{pts " + std::to_string(e.pts) + ":"; for (auto &l : e.l) a += " " + std::to_string(l.line); a += "} "; }
				for (auto &e : got) { b += "{pts " + std::to_string(e.pts) + ":"; for (auto &l : e.sl) b += " " + std::to_string(l.line); b += "} "; }
				if (known_ts_first) rc = r.fail("C06:ts-first-single-packet-pes-lost", "TS demultiplexer lost the first frame (single TS packet PES): returned %s, sent %s", b.c_str(), a.c_str());
				else rc = r.fail("C06:demux-differs", "the library demultiplexer returned %s, sent %s (lines, services, payloads or PTS differ)", b.c_str(), a.c_str());
			}
			r.cls("demux:frames", exp.size());
		}
	}
	if (has_line0) r.cls("case:has-line-0");
	r.nontrivial = nt;
	return rc;
}

void vf_defaults(bool thorough, uint64_t *cases, size_t *max_size) { *cases = thorough ? 4000000 : 200000; *max_size = 4000; }
