// C20 - Documented cross-thread use of service decoder and raw decoder is race-free.
// ThreadSanitizer build.  Part A: one thread decodes a generated caption stream, others fetch caption pages (and request channel
// switches); every fetched page must be a snapshot of the sequential execution.  Part B (props/C20_raw.cc): one thread decodes raw
// images while others add / remove / check services; every result must correspond to one consistent service set.
#include "../engine/engine.h"
#include "../models/ttx_enc.h"
extern "C" {
#include "src/libzvbi.h"
}
#include <thread>
#include <atomic>
#include <set>
#include <unistd.h>

const char *vf_prop_id = "C20";
const char *vf_rule =
	"schedule = (part, operation streams per thread, generated yields / microsleeps at operation boundaries). Part A: decoding thread feeds 40-400 caption pairs "
	"(pop-on, roll-up, paint-on and text commands on CC1-CC4 / T1-T2 with text, as in the C08 grammar) one per vbi_decode call, an event handler yields inside the "
	"callback window where the library has dropped its mutex; 1-2 threads call vbi_fetch_cc_page (channels 1-4, reset on / off) and, in a third of the cases, "
	"vbi_channel_switched. Part B: decoding thread calls vbi_raw_decode on two generated images in turn, 1-2 threads call vbi_raw_decoder_add_services / "
	"_remove_services / _check_services. Non-trivial: at least one fetch / service change actually overlapped the decoding thread's activity (sequence counters); "
	"distinct = hash of consumed choices.";

using namespace vf;

int c20_raw_case(Src &s, Report &r);	// props/C20_raw.cc

static uint8_t par7(unsigned c) { return enc::par((uint8_t) c); }

static uint64_t page_hash(const vbi_page &pg) {
	uint64_t h = 0xcbf29ce484222325ull;
	for (int i = 0; i < pg.rows * pg.columns; ++i) {
		const vbi_char &c = pg.text[i];
		unsigned v[4] = { c.unicode, (unsigned)(c.foreground | c.background << 8), (unsigned)(c.underline | c.italic << 1 | c.flash << 2 | c.opacity << 4), (unsigned) c.size };
		h = fnv1a(v, sizeof v, h);
	}
	return h;
}

static void gen_stream(Src &s, std::vector<std::pair<uint8_t, uint8_t>> &out) {
	unsigned n = 40 + s.pick(360);
	auto ctl = [&](unsigned a, unsigned b) { out.push_back({ par7(a), par7(b) }); out.push_back({ par7(a), par7(b) }); };
	while (out.size() < n) {
		unsigned ch = s.pick(2) << 3;
		switch (s.pick(10)) {
		case 0: ctl(0x14 | ch, 0x20); break;				// RCL
		case 1: ctl(0x14 | ch, 0x25 + s.pick(3)); break;		// RU2-4
		case 2: ctl(0x14 | ch, 0x29); break;				// RDC
		case 3: ctl(0x14 | ch, 0x2F); break;				// EOC
		case 4: ctl(0x14 | ch, 0x2D); break;				// CR
		case 5: ctl(0x14 | ch, s.chance(1, 2) ? 0x2C : 0x2E); break;	// EDM / ENM
		case 6: ctl(0x10 + s.pick(8) + ch, 0x40 + s.pick(64)); break;	// PAC
		case 7: ctl(0x11 | ch, 0x20 + s.pick(16)); break;		// mid row
		default: { unsigned k = 1 + s.pick(8); for (unsigned i = 0; i < k; ++i) out.push_back({ par7(s.range(0x20, 0x7F)), par7(s.range(0x20, 0x7F)) }); break; }
		}
	}
}

static std::atomic<int> g_in_callback;
static void on_event(vbi_event *, void *) { g_in_callback.fetch_add(1); sched_yield(); g_in_callback.fetch_sub(1); }
// reference run: the library drops its mutex around the callback, so what is visible here is a legitimate snapshot too
static std::set<uint64_t> *g_ref_snaps; static vbi_decoder *g_ref_dec;
static uint64_t page_hash(const vbi_page &pg);
static void on_event_ref(vbi_event *, void *) { vbi_page pg; for (int ch = 1; ch <= 4; ++ch) if (vbi_fetch_cc_page(g_ref_dec, &pg, ch, FALSE)) g_ref_snaps[ch].insert(page_hash(pg)); }

static int caption_case(Src &s, Report &r) {
	std::vector<std::pair<uint8_t, uint8_t>> stream; gen_stream(s, stream);
	bool with_switch = s.chance(1, 3);
	unsigned nfetchers = 1 + s.pick(2);
	// schedules: per thread a list of (delay in units of ~20 us, operation parameters)
	struct Op { unsigned delay, ch, reset, what; };
	std::vector<std::vector<Op>> fops(nfetchers);
	for (auto &v : fops) { unsigned k = 20 + s.pick(200); for (unsigned i = 0; i < k; ++i) v.push_back({ s.chance(1, 2) ? 0u : s.pick(8), 1 + s.pick(4), s.pick(2), (with_switch && s.chance(1, 40)) ? 1u : 0u }); }
	std::vector<uint8_t> ddelay(stream.size()); for (auto &d : ddelay) d = s.chance(1, 4) ? (uint8_t) s.pick(6) : 0;

	// sequential reference: the snapshots a fetch may see, per channel
	std::set<uint64_t> snaps[5];
	if (!with_switch) {
		vbi_decoder *ref = vbi_decoder_new(); g_ref_dec = ref; g_ref_snaps = snaps; vbi_event_handler_register(ref, VBI_EVENT_CAPTION, on_event_ref, nullptr);
		double t = 10.0; vbi_page pg;
		for (int ch = 1; ch <= 4; ++ch) if (vbi_fetch_cc_page(ref, &pg, ch, FALSE)) snaps[ch].insert(page_hash(pg));
		for (auto &p : stream) {
			vbi_sliced sl; memset(&sl, 0, sizeof sl); sl.id = VBI_SLICED_CAPTION_525_F1; sl.line = 21; sl.data[0] = p.first; sl.data[1] = p.second;
			vbi_decode(ref, &sl, 1, t); t += 1 / 30.0;
			for (int ch = 1; ch <= 4; ++ch) if (vbi_fetch_cc_page(ref, &pg, ch, FALSE)) snaps[ch].insert(page_hash(pg));
		}
		vbi_decoder_delete(ref);
	}

	vbi_decoder *dec = vbi_decoder_new();
	vbi_event_handler_register(dec, VBI_EVENT_CAPTION, on_event, nullptr);
	std::atomic<int> decoding_pos{0}; std::atomic<bool> done{false};
	std::atomic<int> overlaps{0};
	struct Bad { int ch; uint64_t h; int pos; };
	std::vector<Bad> bad[2];
	std::thread D([&]() {
		double t = 10.0;
		for (size_t i = 0; i < stream.size(); ++i) {
			vbi_sliced sl; memset(&sl, 0, sizeof sl); sl.id = VBI_SLICED_CAPTION_525_F1; sl.line = 21; sl.data[0] = stream[i].first; sl.data[1] = stream[i].second;
			decoding_pos.store((int) i * 2 + 1);
			vbi_decode(dec, &sl, 1, t); t += 1 / 30.0;
			decoding_pos.store((int) i * 2 + 2);
			if (ddelay[i]) usleep(ddelay[i] * 15);
		}
		done.store(true);
	});
	std::vector<std::thread> F;
	for (unsigned f = 0; f < nfetchers; ++f) F.emplace_back([&, f]() {
		size_t i = 0;
		while (!done.load() && i < fops[f].size() * 50) {
			const Op &op = fops[f][i % fops[f].size()]; ++i;
			if (op.delay) usleep(op.delay * 20); else sched_yield();
			if (op.what == 1) { vbi_channel_switched(dec, 0); continue; }
			vbi_page pg;
			int before = decoding_pos.load();
			if (!vbi_fetch_cc_page(dec, &pg, (vbi_pgno) op.ch, (vbi_bool) op.reset)) continue;
			int after = decoding_pos.load();
			if ((before & 1) || (after & 1) || before != after || g_in_callback.load()) overlaps.fetch_add(1);
			if (!with_switch) { uint64_t h = page_hash(pg); if (!snaps[op.ch].count(h)) bad[f].push_back({ (int) op.ch, h, after / 2 }); }
		}
	});
	D.join(); for (auto &t : F) t.join();
	vbi_decoder_delete(dec);
	for (unsigned f = 0; f < nfetchers; ++f) if (!bad[f].empty())
		return r.fail("C20:caption-page-not-a-snapshot", "a page of channel %d fetched while the decoding thread was near pair %d of %zu equals none of the %zu pages the sequential execution produces for that channel (%zu such fetches)",
			bad[f][0].ch, bad[f][0].pos, stream.size(), snaps[bad[f][0].ch].size(), bad[f].size());
	r.nontrivial = overlaps.load() > 0;
	r.cls(with_switch ? "caption:with-channel-switch" : "caption:snapshot-oracle");
	if (overlaps.load()) r.cls("caption:fetch-overlapped-decode");
	return 0;
}

int vf_run_case(Src &s, Report &r) {
	if (s.chance(1, 2)) return c20_raw_case(s, r);
	return caption_case(s, r);
}

void vf_defaults(bool thorough, uint64_t *cases, size_t *max_size) { *cases = thorough ? 60000 : 1500; *max_size = 1500; }
bool vf_leak_check() { return false; }
