#!/usr/bin/env python3
"""Rewrite the seeded-change table in DESIGN.md (between the MUTANT-TABLE markers) from seeded/*/meta.json."""
import json, glob, os, re
root = os.path.dirname(os.path.dirname(os.path.abspath(__file__)))
rows = ['| change | result of the quick tier (seed 1) | signature | s | remark |', '|---|---|---|---|---|']
for p in sorted(glob.glob(os.path.join(root, 'seeded/*/meta.json'))):
    j = json.load(open(p)); d = j.get('detection') or {}
    name = os.path.basename(os.path.dirname(p))
    res = d.get('result') or 'obsolete: the code it changes was rewritten by a fix commit'
    cl = lambda x: str(x).replace('|', '/').replace('\n', ' ')
    rows.append('| %s | %s | %s | %s | %s |' % (name, cl(res), cl(d.get('signature', '')), cl(d.get('seconds', '')), cl(d.get('note', ''))))
path = os.path.join(root, 'DESIGN.md')
s = open(path).read()
s = re.sub(r'(<!-- MUTANT-TABLE-BEGIN -->\n).*?(<!-- MUTANT-TABLE-END -->)', lambda m: m.group(1) + '\n'.join(rows) + '\n' + m.group(2), s, flags=re.S)
open(path, 'w').write(s)
