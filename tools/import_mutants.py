#!/usr/bin/env python3
"""import confirmed sub-agent mutants from a scratch worktree into /verif/seeded/<prop>-<mN>/"""
import sys, os, shutil, json, glob, re
wt, prop, confirm_log = sys.argv[1], sys.argv[2], sys.argv[3]
# new changes get the next free numbers of the property
existing = [int(re.search(r'-m(\d+)$', d).group(1)) for d in glob.glob('/verif/seeded/%s-m*' % prop)]
next_id = max(existing + [0]) + 1
lines = [l.strip() for l in open(confirm_log) if l.startswith(wt + ' ')]
for m in ("m1", "m2"):
    line = [l for l in lines if l.startswith('%s %s:' % (wt, m))]
    if not line:
        print('no confirmation line for', wt, m); continue
    line = line[-1]
    ok = re.search(r'clean_demo_rc=0 mutant_demo_rc=([1-9]\d*) make_check=\[#PASS:1#FAIL:0#ERROR:0#PASS:18#FAIL:0#ERROR:0\]', line)
    if not ok:
        print('NOT confirmed:', line); continue
    d = '/verif/seeded/%s-m%d' % (prop, next_id); next_id += 1
    os.makedirs(d, exist_ok=True)
    shutil.copy(os.path.join(wt, 'mutants', m + '.diff'), os.path.join(d, 'patch.diff'))
    for f in glob.glob(os.path.join(wt, 'mutants', m + '_demo.*')) + glob.glob(os.path.join(wt, 'mutants', '*.h')) + glob.glob(os.path.join(wt, 'mutants', m + '_build.sh')) + glob.glob(os.path.join(wt, 'mutants', m + '_*.c')) + glob.glob(os.path.join(wt, 'mutants', m + '_*.py')):
        if not f.endswith('.log'):
            shutil.copy(f, d)
    readme = open(os.path.join(wt, 'mutants', m + '_README.txt'), errors='replace').read()
    shutil.copy(os.path.join(wt, 'mutants', m + '_README.txt'), os.path.join(d, 'README.txt'))
    meta = {
        'property': prop,
        'source': 'fresh sub-agent given only the property text and a scratch worktree',
        'needs_to_manifest': readme[:1500],
        'confirmed_by': 'tools/confirm_mutant.sh in a scratch worktree: demo exits 0 on the clean tree; with patch.diff applied `make -j16 check` passes 19/19 and the demo exits %s' % ok.group(1),
        'confirmation_line': line,
        'detection': {},
    }
    mp = os.path.join(d, 'meta.json')
    if os.path.exists(mp):
        meta['detection'] = json.load(open(mp)).get('detection', {})
    json.dump(meta, open(mp, 'w'), indent=1)
    print('imported', d)
