#!/bin/sh
# validate MANIFEST.json and all evidence files against the schemas
python3-vt - <<'PY'
import json, jsonschema, glob
m=json.load(open('/verif/MANIFEST.json')); jsonschema.validate(m, json.load(open('/root/.vp/MANIFEST.schema.json')))
print('manifest ok: %d checks, %d not_applicable' % (len(m['checks']), len(m.get('not_applicable',[]))))
s=json.load(open('/root/.vp/EVIDENCE.schema.json'))
for f in sorted(glob.glob('/verif/evidence/*.json')):
    jsonschema.validate(json.load(open(f)), s); print('ok', f)
PY
