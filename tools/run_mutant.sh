#!/bin/bash
# usage: run_mutant.sh <patch.diff> <prop> [tier] [seed]  -- apply a seeded change to /repo, run the check, undo
patch="$(realpath "$1")"; prop="$2"; tier="${3:-quick}"; seed="${4:-1}"
cd /verif
git -C /repo diff --quiet || { echo "/repo has uncommitted changes"; exit 2; }
git -C /repo apply "$patch" || { echo "patch does not apply"; exit 2; }
cp -f evidence/$prop.json /tmp/ev_save.$$ 2>/dev/null
start=$(date +%s)
VERIF_SEED=$seed ./check "$prop" --tier "$tier" > /tmp/mut_out.$$ 2>&1; rc=$?
end=$(date +%s)
git -C /repo checkout -- .
[ -f /tmp/ev_save.$$ ] && mv -f /tmp/ev_save.$$ evidence/$prop.json
echo "== $patch on $prop ($tier, seed $seed): rc=$rc in $((end-start))s"
grep -E "^(VIOLATION|--- violation|KNOWN)" /tmp/mut_out.$$ | cut -c1-220 | head -8
rm -f /tmp/mut_out.$$
