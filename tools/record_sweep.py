#!/usr/bin/env python3
"""usage: record_sweep.py <sweep log>...  -- store the 'MUTANT <id> prop=.. tier=.. rc=.. secs=.. sig=..' lines of tools/sweep_mutants.sh
as the detection record of seeded/<id>/meta.json (rc 1 = VIOLATION, rc 0 = missed); keeps an existing note."""
import sys, re, json, os
root = os.path.dirname(os.path.dirname(os.path.abspath(__file__)))
for f in sys.argv[1:]:
    for line in open(f, errors='replace'):
        m = re.match(r'MUTANT (\S+) prop=(\S+) tier=(\S+) rc=(\d+) secs=(\d+) sig=(.*)$', line.strip())
        if not m:
            continue
        mid, prop, tier, rc, secs, sig = m.groups()
        p = os.path.join(root, 'seeded', mid, 'meta.json')
        j = json.load(open(p))
        old = j.get('detection') or {}
        d = {'check': prop, 'tier': tier, 'seed': int(os.environ.get('VERIF_SEED', '1')),
             'result': 'VIOLATION' if rc == '1' else ('missed' if rc == '0' else 'check error rc=' + rc),
             'signature': sig.strip(), 'seconds': int(secs)}
        if old.get('note'):
            d['note'] = old['note']
        j['detection'] = d
        json.dump(j, open(p, 'w'), indent=1)
        print(mid, d['result'], d['signature'][:80])
