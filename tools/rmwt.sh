#!/bin/sh
# usage: rmwt.sh <dir>... -- remove scratch worktrees with their build output
for d in "$@"; do git -C /repo worktree remove --force "$d" 2>/dev/null; rm -rf "$d"; done
git -C /repo worktree prune
