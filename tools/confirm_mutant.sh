#!/bin/bash
# usage: confirm_mutant.sh <worktree> <mN>  -- confirm: clean demo passes; with patch: make check passes, demo fails
wt="$1"; m="$2"; cd "$wt" || exit 2
git checkout -q -- . 
demo=$(ls mutants/${m}_demo.sh 2>/dev/null || ls mutants/${m}_demo.* 2>/dev/null | grep -v '\.o$' | grep -v '_bin$' | head -1)
build_demo() {
  if [ -f mutants/${m}_build.sh ]; then sh mutants/${m}_build.sh >mutants/${m}_build.log 2>&1; return $?; fi
  case "$demo" in
    *.sh) return 0;;
    *.cc|*.cpp) g++ -I. -Isrc "$demo" src/.libs/libzvbi.a -lpthread -lm -lpng -lz -o mutants/${m}_demo_bin 2>mutants/${m}_build.log;;
    *) gcc -I. -Isrc "$demo" src/.libs/libzvbi.a -lpthread -lm -lpng -lz -o mutants/${m}_demo_bin 2>mutants/${m}_build.log;;
  esac
}
run_demo() { case "$demo" in *.sh) timeout 600 sh "$demo";; *) timeout 300 ./mutants/${m}_demo_bin;; esac >mutants/${m}_out_$1.log 2>&1; echo $?; }
make -j16 >/dev/null 2>&1
build_demo || { echo "$wt $m: demo build failed (clean)"; exit 1; }
clean_rc=$(run_demo clean)
git apply mutants/$m.diff || { echo "$wt $m: patch does not apply"; exit 1; }
make -j16 >/dev/null 2>&1 || { echo "$wt $m: does not compile"; git checkout -q -- .; exit 1; }
chk=$(make -j16 check 2>&1 | grep -E "^# (PASS|FAIL|ERROR):" | tr -d ' \n')
build_demo || { echo "$wt $m: demo build failed (mutant)"; }
mut_rc=$(run_demo mutant)
git checkout -q -- .
make -j16 >/dev/null 2>&1
rm -f mutants/${m}_demo_bin
echo "$wt $m: clean_demo_rc=$clean_rc mutant_demo_rc=$mut_rc make_check=[$chk]"
