#!/bin/bash
# usage: sweep_mutants.sh [tier] <Cxx-mN>...   -- for each seeded change: apply to $VERIF_REPO (default /repo; use a snapshot,
# e.g. vp run --with-repo -- env VERIF_REPO=\$VP_RUN_REPO tools/sweep_mutants.sh quick C02-m1 ...), run the check of its property, undo.
# Prints one summary line per change:  MUTANT <id> prop=<Cxx> tier=<t> rc=<rc> secs=<n> sig=<first violation signature>
cd "$(dirname "$0")/.."
tier=quick
case "$1" in quick|thorough) tier=$1; shift;; esac
repo="${VERIF_REPO:-/repo}"
export VERIF_REPO="$repo"
for id in "$@"; do
  prop="${id%%-*}"
  [ -n "$SWEEP_PROP" ] && prop="$SWEEP_PROP"
  patch="seeded/$id/patch.diff"
  git -C "$repo" diff --quiet || { echo "MUTANT $id: $repo has uncommitted changes"; exit 2; }
  git -C "$repo" apply "$(realpath $patch)" || { echo "MUTANT $id: patch does not apply"; continue; }
  start=$(date +%s)
  VERIF_SEED=${VERIF_SEED:-1} ./check "$prop" --tier "$tier" > /tmp/sweep_out.$$ 2>&1; rc=$?
  end=$(date +%s)
  git -C "$repo" checkout -- .
  sig=$(grep -m1 -E "^--- violation signature" /tmp/sweep_out.$$ | cut -c25-140)
  echo "MUTANT $id prop=$prop tier=$tier rc=$rc secs=$((end-start)) sig=$sig"
  [ $rc -ne 0 ] && [ $rc -ne 1 ] && tail -5 /tmp/sweep_out.$$
  rm -f /tmp/sweep_out.$$
done
