#!/bin/sh
# usage: mkwt.sh <dir>   -- scratch git worktree of /repo at HEAD, populated with the
# generated (git-ignored) configure results and build output so that `make -j16 check` works.
set -e
d="$1"
git -C /repo worktree add -f --detach "$d" HEAD >/dev/null 2>&1
rsync -a --ignore-existing --exclude .git /repo/ "$d"/
echo "$d"
