/*
 *  Test driver for the C18/C19 checks (VBI proxy daemon).  One process is one
 *  client of zvbid.
 *
 *  client lib <device> <client name> <log file> <script>
 *      well-behaved client using the real client library (proxy-client.c)
 *  client raw <socket path> <log file> <script>
 *      raw protocol client: sends the bytes it is told to, logs what comes back
 *  client layout
 *      prints the layout of the protocol structures as JSON (the orchestrator
 *      builds and mutates messages from it)
 *  client msgfuzz <seed> <iterations>
 *      in-process fuzzing of vbi_proxy_msg_handle_read()/_write() over a socketpair
 *
 *  The log formats are documented in /verif/proxy/NOTES.md.
 */

#include "config.h"

#include <stdio.h>
#include <stdlib.h>
#include <stddef.h>
#include <string.h>
#include <stdint.h>
#include <unistd.h>
#include <errno.h>
#include <time.h>
#include <math.h>
#include <fcntl.h>
#include <signal.h>
#include <poll.h>
#include <sys/time.h>
#include <sys/ioctl.h>
#include <sys/types.h>
#include <sys/socket.h>
#include <sys/un.h>
#include <arpa/inet.h>

#include "src/vbi.h"
#include "src/inout.h"
#include "src/proxy-msg.h"
#include "src/proxy-client.h"

#ifdef ENABLE_V4L2
#include <asm/types.h>
#include "src/videodev2k.h"
#endif

static FILE *lg;
static int opt_dump;

static double
now (void)
{
	struct timespec ts;

	clock_gettime (CLOCK_MONOTONIC, &ts);
	return ts.tv_sec + ts.tv_nsec / 1e9;
}

static void
msleep (long ms)
{
	struct timespec ts;

	if (ms <= 0)
		return;
	ts.tv_sec = ms / 1000;
	ts.tv_nsec = (ms % 1000) * 1000000L;
	while (nanosleep (&ts, &ts) == -1 && errno == EINTR)
		;
}

static uint64_t
mix64 (uint64_t x)
{
	x += 0x9E3779B97F4A7C15ULL;
	x = (x ^ (x >> 30)) * 0xBF58476D1CE4E5B9ULL;
	x = (x ^ (x >> 27)) * 0x94D049BB133111EBULL;
	return x ^ (x >> 31);
}

/* ------------------------------------------------------------------------ */
/*  lib mode                                                                */
/* ------------------------------------------------------------------------ */

static vbi_proxy_client *vpc;
static vbi_capture *cap;
static const char *dev_name;
static const char *client_name;
static char ctx = '-';		/* API call we are in: r read, u update, q request, n notify */
static int on_reclaim;		/* 0 ignore, 1 return (TOKEN) in callback, 2 release in callback, 3 return after the call */
static int on_grant;		/* 0 hold, 1 return in callback, 2 release in callback */
static int pending_return;
static int in_callback;
static long n_frames;
static unsigned int cur_services;	/* model of the services granted to this connection */

static void do_notify (int flags);

static void
event_cb (void *data, VBI_PROXY_EV_TYPE ev)
{
	data = data;

	fprintf (lg, "EV %.6f %d %d %c\n", now (), (int) ev,
		 (int) vbi_proxy_client_has_channel_control (vpc), ctx);

	if (in_callback)
		return;
	in_callback = 1;

	if (ev & VBI_PROXY_EV_CHN_RECLAIMED) {
		if (1 == on_reclaim)
			do_notify (VBI_PROXY_CHN_TOKEN);
		else if (2 == on_reclaim)
			do_notify (VBI_PROXY_CHN_RELEASE);
		else if (3 == on_reclaim)
			pending_return = 1;
	} else if (ev & VBI_PROXY_EV_CHN_GRANTED) {
		if (1 == on_grant)
			do_notify (VBI_PROXY_CHN_TOKEN);
		else if (2 == on_grant)
			do_notify (VBI_PROXY_CHN_RELEASE);
	}

	in_callback = 0;
}

static void
do_notify (int flags)
{
	double t0 = now ();
	char old = ctx;
	int r;

	if (NULL == vpc || NULL == cap) {
		fprintf (lg, "ERR %.6f notify-not-connected\n", t0);
		return;
	}
	/* the time before the request is what the token oracle needs */
	fprintf (lg, "NOT0 %.6f %d %d\n", t0, flags, in_callback);
	ctx = 'n';
	r = vbi_proxy_client_channel_notify (vpc, (VBI_PROXY_CHN_FLAGS) flags, 0);
	ctx = old;
	fprintf (lg, "NOT %.6f %.6f %d %d %d\n", t0, now (), flags, r, in_callback);
}

static void
log_frame (vbi_capture_buffer *b)
{
	const vbi_sliced *s = (const vbi_sliced *) b->data;
	unsigned int n_lines = b->size / sizeof (vbi_sliced);
	uint64_t d = 0x0123456789ABCDEFULL;
	long long n = llround (b->timestamp * 25.0);
	int exact = (b->timestamp == (double) n / 25.0);
	int fmt_ok = 1;
	unsigned int i, k;

	for (i = 0; i < n_lines; ++i) {
		uint64_t w, w2;

		memcpy (&w, s[i].data, 8);
		for (k = 8; k + 8 <= sizeof (s[i].data); k += 8) {
			memcpy (&w2, s[i].data + k, 8);
			if (w2 != w)
				fmt_ok = 0;
		}
		d = mix64 (d ^ mix64 ((uint64_t) s[i].id * 1024 + s[i].line) ^ w);
	}

	fprintf (lg, "F %.6f %lld %d %u %016llx %d\n", now (), n, exact, n_lines,
		 (unsigned long long) d, fmt_ok);

	if (opt_dump) {
		for (i = 0; i < n_lines; ++i) {
			uint64_t w;

			memcpy (&w, s[i].data, 8);
			fprintf (lg, "L %lld 0x%x %u %016llx\n", n, s[i].id, s[i].line,
				 (unsigned long long) w);
		}
	}
	++n_frames;
}

/* returns 1 frame, 0 timeout / other message, -1 error */
static int
pull_one (long timeout_ms)
{
	vbi_capture_buffer *b = NULL;
	struct timeval tv;
	struct pollfd pfd;
	int fd, r;

	if (NULL == cap)
		return -1;

	/* the daemon may have switched off the library's timeouts (debug mode): wait here */
	fd = vbi_capture_fd (cap);
	if (fd < 0)
		return -1;
	pfd.fd = fd;
	pfd.events = POLLIN;
	r = poll (&pfd, 1, (int) timeout_ms);
	if (r <= 0)
		return 0;

	tv.tv_sec = 2;
	tv.tv_usec = 0;
	ctx = 'r';
	r = vbi_capture_pull_sliced (cap, &b, &tv);
	ctx = '-';
	if (r > 0 && NULL != b)
		log_frame (b);
	if (pending_return) {
		pending_return = 0;
		do_notify (VBI_PROXY_CHN_TOKEN);
	}
	return r;
}

static void
read_frames (long count, long ms, int until_token)
{
	double t_end = now () + ms / 1000.0;
	double t_last = now ();
	long got = 0;

	for (;;) {
		double t = now ();
		int r;

		if (count >= 0 && got >= count)
			break;
		if (count < 0 && t >= t_end)
			break;
		if (until_token && vbi_proxy_client_has_channel_control (vpc))
			break;
		if (t - t_last > 8.0) {
			/* watchdog: no frame for 8 s; the orchestrator calls this inconclusive */
			fprintf (lg, "TO %.6f\n", t);
			break;
		}
		r = pull_one (count >= 0 ? 200 : (long) ((t_end - t) * 1000) + 1);
		if (r > 0) {
			++got;
			t_last = now ();
		} else if (r < 0) {
			fprintf (lg, "ERR %.6f read errno=%d\n", now (), errno);
			break;
		}
	}
}

static void
disconnect (void)
{
	fprintf (lg, "DIS %.6f\n", now ());
	if (NULL != cap)
		vbi_capture_delete (cap);
	cap = NULL;
	if (NULL != vpc)
		vbi_proxy_client_destroy (vpc);
	vpc = NULL;
}

static int
lib_main (int argc, char **argv)
{
	char *script, *op, *save = NULL;

	if (argc < 6)
		return 2;
	dev_name = argv[2];
	client_name = argv[3];
	lg = fopen (argv[4], "w");
	if (NULL == lg)
		return 2;
	setvbuf (lg, NULL, _IOLBF, 0);
	script = strdup (argv[5]);

	fprintf (lg, "BEGIN %.6f %d %s\n", now (), (int) getpid (), client_name);

	for (op = strtok_r (script, ";", &save); NULL != op; op = strtok_r (NULL, ";", &save)) {
		long a[6] = { 0, 0, 0, 0, 0, 0 };
		char c = op[0];
		char *p = op + 1;
		int na = 0;

		while (na < 6 && *p) {
			char *e;

			a[na] = strtol (p, &e, 0);
			if (e == p)
				break;
			++na;
			p = e;
			while (',' == *p || ' ' == *p)
				++p;
		}

		switch (c) {
		case 'C': /* connect: services strict buffers flags */
		{
			unsigned int services = (unsigned int) a[0];
			char *err = NULL;
			double t0 = now ();

			if (NULL != vpc)
				disconnect ();
			vpc = vbi_proxy_client_create (dev_name, client_name,
						       (VBI_PROXY_CLIENT_FLAGS) a[3], &err, 0);
			if (NULL == vpc) {
				fprintf (lg, "CON %.6f %.6f 0x%x %ld 0 0 0 0 create-failed\n",
					 t0, now (), services, a[1]);
				break;
			}
			vbi_proxy_client_set_callback (vpc, event_cb, NULL);
			ctx = 'c';
			cap = vbi_capture_proxy_new (vpc, (int) (a[2] ? a[2] : 5), 0,
						     &services, (int) a[1], &err);
			ctx = '-';
			if (NULL == cap) {
				char *q;

				for (q = err; q && *q; ++q)
					if (' ' == *q || '\n' == *q)
						*q = '_';
				fprintf (lg, "CON %.6f %.6f 0x%lx %ld 0 0 0 0 %s\n", t0, now (),
					 (unsigned long) a[0], a[1], err ? err : "?");
				free (err);
				vbi_proxy_client_destroy (vpc);
				vpc = NULL;
			} else {
				vbi_raw_decoder *rd = vbi_capture_parameters (cap);

				cur_services = services;
				fprintf (lg, "CON %.6f %.6f 0x%lx %ld 1 0x%x %d %d -\n", t0, now (),
					 (unsigned long) a[0], a[1], services,
					 rd ? rd->count[0] : -1, rd ? rd->count[1] : -1);
			}
			break;
		}

		case 'R': /* read k frames */
			if (NULL != cap && 0 == cur_services) {
				/* the daemon forwards nothing to a client without services */
				fprintf (lg, "NOSUB %.6f\n", now ());
				read_frames (-1, 30, 0);
			} else if (NULL != cap)
				read_frames (a[0], 0, 0);
			break;

		case 'T': /* read for ms */
			if (NULL != cap)
				read_frames (-1, a[0], 0);
			break;

		case 'W': /* read until the token is held or ms elapsed */
			if (NULL != cap)
				read_frames (-1, a[0], 1);
			break;

		case 'S': /* stall */
		case 'Z':
			fprintf (lg, "STALL %.6f %ld\n", now (), a[0]);
			msleep (a[0]);
			fprintf (lg, "STALLEND %.6f\n", now ());
			break;

		case 'B': /* receive buffer size of the socket */
			if (NULL != cap) {
				int fd = vbi_capture_fd (cap);
				int v = (int) a[0];
				socklen_t l = sizeof (v);

				setsockopt (fd, SOL_SOCKET, SO_RCVBUF, &v, sizeof (v));
				getsockopt (fd, SOL_SOCKET, SO_RCVBUF, &v, &l);
				fprintf (lg, "BUF %.6f %d\n", now (), v);
			}
			break;

		case 'U': /* update services: services strict reset */
			if (NULL != cap) {
				char *err = NULL;
				double t0 = now ();
				unsigned int r;
				vbi_raw_decoder *rd;

				fprintf (lg, "UPD0 %.6f\n", t0);
				ctx = 'u';
				r = vbi_capture_update_services (cap, (vbi_bool) a[2], TRUE,
								 (unsigned int) a[0], (int) a[1], &err);
				ctx = '-';
				cur_services = (a[2] ? 0 : (cur_services & ~(unsigned int) a[0]))
					| (NULL != err ? 0 : r);
				rd = vbi_capture_parameters (cap);
				fprintf (lg, "UPD %.6f %.6f 0x%lx %ld %ld 0x%x %d %d %d\n", t0, now (),
					 (unsigned long) a[0], a[1], a[2], r, NULL != err,
					 rd ? rd->count[0] : -1, rd ? rd->count[1] : -1);
				free (err);
			}
			break;

		case 'Q': /* channel request: prio subprio min_duration is_valid */
			if (NULL != vpc && NULL != cap) {
				vbi_channel_profile prof;
				double t0 = now ();
				int r;

				memset (&prof, 0, sizeof (prof));
				prof.is_valid = (uint8_t) a[3];
				prof.sub_prio = (uint8_t) a[1];
				prof.min_duration = a[2];
				prof.exp_duration = a[2];
				prof.allow_suspend = 1;
				fprintf (lg, "TOK0 %.6f %ld %ld %ld %ld\n", t0, a[0], a[1], a[2], a[3]);
				ctx = 'q';
				r = vbi_proxy_client_channel_request (vpc, (VBI_CHN_PRIO) a[0], &prof);
				ctx = '-';
				fprintf (lg, "TOK %.6f %.6f %ld %ld %ld %ld %d %d\n", t0, now (),
					 a[0], a[1], a[2], a[3], r,
					 (int) vbi_proxy_client_has_channel_control (vpc));
			}
			break;

		case 'N': /* channel notify: flags */
			do_notify ((int) a[0]);
			break;

		case 'I': /* device ioctl through the proxy: index into a table of harmless V4L2 requests */
			if (NULL != vpc && NULL != cap) {
#ifdef ENABLE_V4L2
				static const unsigned int req[] = {
					VIDIOC_G_STD, VIDIOC_QUERYSTD, VIDIOC_G_INPUT, VIDIOC_G_TUNER,
					VIDIOC_G_FREQUENCY, VIDIOC_QUERYCAP, VIDIOC_ENUMINPUT, VIDIOC_G_CTRL
				};
				union {
					uint8_t b[512];
					uint64_t align;
				} arg;
				double t0 = now ();
				int r;

				memset (&arg, 0, sizeof (arg));
				ctx = 'i';
				r = vbi_proxy_client_device_ioctl (vpc, (int) req[a[0] % 8], &arg);
				ctx = '-';
				fprintf (lg, "IOC %.6f %.6f %ld %d %d\n", t0, now (), a[0] % 8, r, errno);
#endif
			}
			break;

		case 'H': /* channel notify, only while the token is held */
			if (NULL != vpc && vbi_proxy_client_has_channel_control (vpc))
				do_notify ((int) a[0]);
			break;

		case 'O':
			on_reclaim = (int) a[0];
			break;

		case 'G':
			on_grant = (int) a[0];
			break;

		case 'D':
			disconnect ();
			break;

		case 'K': /* die with the connection open */
			fprintf (lg, "KIL %.6f\n", now ());
			fflush (lg);
			_exit (0);

		default:
			fprintf (lg, "ERR %.6f bad-op %c\n", now (), c);
			break;
		}

		if (NULL != vpc && NULL == cap) {
			/* cannot happen */
			vbi_proxy_client_destroy (vpc);
			vpc = NULL;
		}
	}

	if (NULL != vpc)
		disconnect ();

	fprintf (lg, "END %.6f %ld\n", now (), n_frames);
	fclose (lg);
	return 0;
}

/* ------------------------------------------------------------------------ */
/*  raw mode                                                                */
/* ------------------------------------------------------------------------ */

static int rfd = -1;
static uint8_t rbuf[1 << 16];
static size_t rlen;
static long sl_count;
static long long sl_first, sl_last;
static int raw_eof;

static int
hexval (int c)
{
	if (c >= '0' && c <= '9')
		return c - '0';
	if (c >= 'a' && c <= 'f')
		return c - 'a' + 10;
	if (c >= 'A' && c <= 'F')
		return c - 'A' + 10;
	return -1;
}

static size_t
unhex (const char *s, uint8_t **out)
{
	size_t n = strlen (s) / 2, i;
	uint8_t *b = malloc (n + 1);

	for (i = 0; i < n; ++i)
		b[i] = (uint8_t) (hexval (s[2 * i]) * 16 + hexval (s[2 * i + 1]));
	*out = b;
	return n;
}

static void
flush_sliced_summary (void)
{
	if (sl_count > 0)
		fprintf (lg, "SL %.6f %ld %lld %lld\n", now (), sl_count, sl_first, sl_last);
	sl_count = 0;
}

/* parse complete messages in rbuf; returns 1 if a message of type want was seen */
static int
raw_parse (int want)
{
	int seen = 0;

	while (rlen >= sizeof (VBIPROXY_MSG_HEADER)) {
		uint32_t len, type;

		memcpy (&len, rbuf, 4);
		memcpy (&type, rbuf + 4, 4);
		len = ntohl (len);
		type = ntohl (type);
		if (len < sizeof (VBIPROXY_MSG_HEADER) || len > sizeof (rbuf)) {
			fprintf (lg, "BADLEN %.6f %u %u\n", now (), len, type);
			rlen = 0;
			break;
		}
		if (rlen < len)
			break;
		if ((int) type == want)
			seen = 1;
		if (MSG_TYPE_SLICED_IND == type) {
			VBIPROXY_SLICED_IND ind;
			long long n;

			memcpy (&ind, rbuf + sizeof (VBIPROXY_MSG_HEADER),
				len - sizeof (VBIPROXY_MSG_HEADER) < sizeof (ind)
				? len - sizeof (VBIPROXY_MSG_HEADER) : sizeof (ind));
			n = llround (ind.timestamp * 25.0);
			if (0 == sl_count)
				sl_first = n;
			sl_last = n;
			++sl_count;
		} else {
			long extra = -1;
			const uint8_t *body = rbuf + sizeof (VBIPROXY_MSG_HEADER);

			flush_sliced_summary ();
			switch (type) {
			case MSG_TYPE_CHN_TOKEN_CNF:
				if (len >= sizeof (VBIPROXY_MSG_HEADER) + sizeof (VBIPROXY_CHN_TOKEN_CNF)) {
					VBIPROXY_CHN_TOKEN_CNF c;

					memcpy (&c, body, sizeof (c));
					extra = c.token_ind;
				}
				break;
			case MSG_TYPE_CONNECT_CNF:
				if (len >= sizeof (VBIPROXY_MSG_HEADER) + sizeof (VBIPROXY_CONNECT_CNF)) {
					VBIPROXY_CONNECT_CNF c;

					memcpy (&c, body, sizeof (c));
					extra = c.services;
				}
				break;
			case MSG_TYPE_SERVICE_CNF:
				if (len >= sizeof (VBIPROXY_MSG_HEADER) + sizeof (VBIPROXY_SERVICE_CNF)) {
					VBIPROXY_SERVICE_CNF c;

					memcpy (&c, body, sizeof (c));
					extra = c.services;
				}
				break;
			case MSG_TYPE_DAEMON_PID_CNF:
				if (len >= sizeof (VBIPROXY_MSG_HEADER) + sizeof (VBIPROXY_DAEMON_PID_CNF)) {
					VBIPROXY_DAEMON_PID_CNF c;

					memcpy (&c, body, sizeof (c));
					extra = c.pid;
				}
				break;
			case MSG_TYPE_CHN_CHANGE_IND:
				if (len >= sizeof (VBIPROXY_MSG_HEADER) + sizeof (VBIPROXY_CHN_CHANGE_IND)) {
					VBIPROXY_CHN_CHANGE_IND c;

					memcpy (&c, body, sizeof (c));
					extra = c.notify_flags;
				}
				break;
			default:
				break;
			}
			fprintf (lg, "M %.6f %u %u %ld\n", now (), type, len, extra);
		}
		memmove (rbuf, rbuf + len, rlen - len);
		rlen -= len;
	}
	return seen;
}

/* receive for ms milliseconds, or until a message of type want arrived */
static void
raw_recv (long ms, int want)
{
	double t_end = now () + ms / 1000.0;

	while (rfd >= 0 && !raw_eof) {
		struct pollfd pfd;
		double t = now ();
		ssize_t r;

		if (t >= t_end)
			break;
		pfd.fd = rfd;
		pfd.events = POLLIN;
		if (poll (&pfd, 1, (int) ((t_end - t) * 1000) + 1) <= 0)
			continue;
		r = recv (rfd, rbuf + rlen, sizeof (rbuf) - rlen, MSG_DONTWAIT);
		if (0 == r) {
			flush_sliced_summary ();
			fprintf (lg, "EOF %.6f\n", now ());
			raw_eof = 1;
			break;
		} else if (r < 0) {
			if (EAGAIN == errno || EINTR == errno)
				continue;
			flush_sliced_summary ();
			fprintf (lg, "RERR %.6f %d\n", now (), errno);
			raw_eof = 1;
			break;
		}
		rlen += (size_t) r;
		if (raw_parse (want) && want >= 0)
			break;
	}
	flush_sliced_summary ();
}

static void
raw_send (int idx, const uint8_t *b, size_t n)
{
	size_t off = 0;
	double t0 = now ();
	double t_end = t0 + 3.0;

	fprintf (lg, "S0 %.6f %d %zu\n", t0, idx, n);
	while (off < n && rfd >= 0) {
		ssize_t r = send (rfd, b + off, n - off, MSG_NOSIGNAL | MSG_DONTWAIT);

		if (r > 0) {
			off += (size_t) r;
		} else if (r < 0 && (EAGAIN == errno || EINTR == errno)) {
			struct pollfd pfd;

			if (now () > t_end)
				break;
			pfd.fd = rfd;
			pfd.events = POLLOUT;
			poll (&pfd, 1, 100);
		} else {
			fprintf (lg, "SERR %.6f %d %d\n", now (), idx, errno);
			break;
		}
	}
	fprintf (lg, "S %.6f %d %zu %zu\n", now (), idx, n, off);
}

/* ---- several connections in one process: failures that hit the daemon within one pass of its loop ---- */

#define MAX_MFD 8
static int mfd[MAX_MFD];
static int n_mfd;

static int
unix_connect (const char *path)
{
	struct sockaddr_un sa;
	int fd = socket (AF_UNIX, SOCK_STREAM, 0);
	int i;

	memset (&sa, 0, sizeof (sa));
	sa.sun_family = AF_UNIX;
	snprintf (sa.sun_path, sizeof (sa.sun_path), "%s", path);
	for (i = 0; i < 50; ++i) {
		if (0 == connect (fd, (struct sockaddr *) &sa, sizeof (sa)))
			return fd;
		msleep (20);
	}
	close (fd);
	return -1;
}

/* read from one socket until a message of this type arrived or ms elapsed; messages are not logged */
static int
multi_wait (int fd, int want, long ms)
{
	static uint8_t buf[1 << 16];
	size_t len = 0;
	double t_end = now () + ms / 1000.0;

	while (now () < t_end) {
		struct pollfd pfd;
		ssize_t r;

		pfd.fd = fd;
		pfd.events = POLLIN;
		if (poll (&pfd, 1, 20) <= 0)
			continue;
		r = recv (fd, buf + len, sizeof (buf) - len, MSG_DONTWAIT);
		if (r <= 0)
			return 0;
		len += (size_t) r;
		while (len >= 8) {
			uint32_t l, t;

			memcpy (&l, buf, 4);
			memcpy (&t, buf + 4, 4);
			l = ntohl (l);
			t = ntohl (t);
			if (l < 8 || l > sizeof (buf))
				return 0;
			if (len < l)
				break;
			if ((int) t == want)
				return 1;
			memmove (buf, buf + l, len - l);
			len -= l;
		}
	}
	return 0;
}

static void
multi_drain (long ms)
{
	double t_end = now () + ms / 1000.0;
	uint8_t sink[8192];

	while (now () < t_end) {
		struct pollfd pfd[MAX_MFD];
		int i, n = 0;

		for (i = 0; i < n_mfd; ++i)
			if (mfd[i] >= 0) {
				pfd[n].fd = mfd[i];
				pfd[n].events = POLLIN;
				++n;
			}
		if (0 == n) {
			msleep ((long) ((t_end - now ()) * 1000));
			break;
		}
		if (poll (pfd, (nfds_t) n, 10) <= 0)
			continue;
		for (i = 0; i < n_mfd; ++i)
			if (mfd[i] >= 0) {
				ssize_t r = recv (mfd[i], sink, sizeof (sink), MSG_DONTWAIT);

				if (0 == r || (r < 0 && EAGAIN != errno && EINTR != errno)) {
					fprintf (lg, "MEOF %.6f %d\n", now (), i);
					close (mfd[i]);
					mfd[i] = -1;
				}
			}
	}
}

static int
raw_main (int argc, char **argv)
{
	char *script, *op, *save = NULL;
	int idx = 0;

	if (argc < 5)
		return 2;
	lg = fopen (argv[3], "w");
	if (NULL == lg)
		return 2;
	setvbuf (lg, NULL, _IOLBF, 0);
	script = strdup (argv[4]);
	signal (SIGPIPE, SIG_IGN);

	fprintf (lg, "BEGIN %.6f %d raw\n", now (), (int) getpid ());

	for (op = strtok_r (script, ";", &save); NULL != op; op = strtok_r (NULL, ";", &save), ++idx) {
		char c = op[0];
		char *arg = op + 1;

		switch (c) {
		case 'c':
		{
			struct sockaddr_un sa;
			int i;

			if (rfd >= 0)
				close (rfd);
			raw_eof = 0;
			rlen = 0;
			rfd = socket (AF_UNIX, SOCK_STREAM, 0);
			memset (&sa, 0, sizeof (sa));
			sa.sun_family = AF_UNIX;
			snprintf (sa.sun_path, sizeof (sa.sun_path), "%s", argv[2]);
			for (i = 0; i < 50; ++i) {
				if (0 == connect (rfd, (struct sockaddr *) &sa, sizeof (sa)))
					break;
				msleep (20);
			}
			fprintf (lg, "CONN %.6f %d\n", now (), i < 50);
			if (i >= 50) {
				close (rfd);
				rfd = -1;
			}
			break;
		}

		case 's': /* send all bytes with as few send() calls as possible */
		{
			uint8_t *b;
			size_t n = unhex (arg, &b);

			if (rfd >= 0)
				raw_send (idx, b, n);
			free (b);
			break;
		}

		case 'p': /* partial: p<k>,<ms>,<hex>: first k bytes, pause, the rest */
		{
			char *e;
			long k = strtol (arg, &e, 0);
			long ms = strtol (e + 1, &e, 0);
			uint8_t *b;
			size_t n = unhex (e + 1, &b);

			if (k > (long) n)
				k = (long) n;
			if (rfd >= 0) {
				raw_send (idx, b, (size_t) k);
				raw_recv (ms, -1);
				if (rfd >= 0 && !raw_eof && (size_t) k < n)
					raw_send (idx, b + k, n - (size_t) k);
			}
			free (b);
			break;
		}

		case 'C': /* C<n>,<hex>: open n connections one after the other, send hex (a CONNECT_REQ) on each, wait for CONNECT_CNF */
		{
			char *e;
			long n = strtol (arg, &e, 0);
			uint8_t *b;
			size_t len = unhex (e + 1, &b);
			int i, ok = 0;

			for (i = 0; i < n_mfd; ++i)
				if (mfd[i] >= 0)
					close (mfd[i]);
			n_mfd = 0;
			for (i = 0; i < n && i < MAX_MFD; ++i) {
				int fd = unix_connect (argv[2]);

				mfd[n_mfd++] = fd;
				if (fd < 0)
					continue;
				if ((ssize_t) len == send (fd, b, len, MSG_NOSIGNAL)
				    && multi_wait (fd, MSG_TYPE_CONNECT_CNF, 1500)) {
					++ok;
					fprintf (lg, "M %.6f %d %d -1\n", now (), MSG_TYPE_CONNECT_CNF, 0);
				}
			}
			fprintf (lg, "MCONN %.6f %ld %d\n", now (), n, ok);
			free (b);
			break;
		}

		case 'B': /* B<hex0>/<hex1>/...: back to back, per connection: send the bytes, or close it if the entry is "-" */
		{
			uint8_t *bufs[MAX_MFD];
			size_t lens[MAX_MFD];
			int act[MAX_MFD];
			char *tok, *sv = NULL;
			int k = 0, i;
			double t0;

			for (tok = strtok_r (arg, "/", &sv); tok && k < MAX_MFD; tok = strtok_r (NULL, "/", &sv), ++k) {
				if ('-' == tok[0]) {
					act[k] = 0;
					bufs[k] = NULL;
					lens[k] = 0;
				} else if ('=' == tok[0]) {
					act[k] = 2;	/* leave this connection alone */
					bufs[k] = NULL;
					lens[k] = 0;
				} else {
					act[k] = 1;
					lens[k] = unhex (tok, &bufs[k]);
				}
			}
			t0 = now ();
			fprintf (lg, "S0 %.6f %d %d\n", t0, idx, k);
			for (i = 0; i < k && i < n_mfd; ++i) {
				if (mfd[i] < 0)
					continue;
				if (0 == act[i]) {
					close (mfd[i]);
					mfd[i] = -1;
				} else if (1 == act[i]) {
					send (mfd[i], bufs[i], lens[i], MSG_NOSIGNAL | MSG_DONTWAIT);
				}
			}
			fprintf (lg, "S %.6f %d %d %d\n", now (), idx, k, k);
			for (i = 0; i < k; ++i)
				free (bufs[i]);
			break;
		}

		case 'R': /* drain all connections for ms */
			multi_drain (strtol (arg, NULL, 0));
			break;

		case 'X':
		{
			int i;

			fprintf (lg, "CLOSE %.6f\n", now ());
			for (i = 0; i < n_mfd; ++i)
				if (mfd[i] >= 0) {
					close (mfd[i]);
					mfd[i] = -1;
				}
			break;
		}

		case 'r': /* receive for ms */
			raw_recv (strtol (arg, NULL, 0), -1);
			break;

		case 'w': /* w<type>,<ms>: receive until a message of this type or ms */
		{
			char *e;
			long type = strtol (arg, &e, 0);
			long ms = strtol (e + 1, NULL, 0);

			raw_recv (ms, (int) type);
			break;
		}

		case 'z': /* silence: neither read nor write */
			msleep (strtol (arg, NULL, 0));
			break;

		case 'h':
			if (rfd >= 0)
				shutdown (rfd, SHUT_WR);
			fprintf (lg, "SHUT %.6f\n", now ());
			break;

		case 'x':
			fprintf (lg, "CLOSE %.6f\n", now ());
			if (rfd >= 0)
				close (rfd);
			rfd = -1;
			break;

		case 'k':
			fprintf (lg, "KIL %.6f\n", now ());
			fflush (lg);
			_exit (0);

		default:
			fprintf (lg, "ERR %.6f bad-op %c\n", now (), c);
			break;
		}
	}

	if (rfd >= 0) {
		fprintf (lg, "CLOSE %.6f\n", now ());
		close (rfd);
	}
	fprintf (lg, "END %.6f\n", now ());
	fclose (lg);
	return 0;
}

/* ------------------------------------------------------------------------ */
/*  layout                                                                  */
/* ------------------------------------------------------------------------ */

#define FLD(st, f) \
	printf ("%s[\"%s\", %zu, %zu]", (first ? "" : ", "), #f, \
		offsetof (st, f), sizeof (((st *) 0)->f)), first = 0

static int
layout_main (void)
{
	int first;

	printf ("{\n \"header\": %zu,\n \"msg\": %zu,\n \"body_offset\": %ld,\n",
		sizeof (VBIPROXY_MSG_HEADER), sizeof (VBIPROXY_MSG), (long) offsetof (VBIPROXY_MSG, body));
	printf (" \"sliced\": %zu,\n \"raw_decoder\": %zu,\n", sizeof (vbi_sliced), sizeof (vbi_raw_decoder));
	printf (" \"compat_version\": %u,\n \"version\": %u,\n \"endian_magic\": %u,\n \"endian_mismatch\": %u,\n",
		VBIPROXY_COMPAT_VERSION, VBIPROXY_VERSION, VBIPROXY_ENDIAN_MAGIC, VBIPROXY_ENDIAN_MISMATCH);
	printf (" \"types\": {");
	{
		int t;

		for (t = 0; t < MSG_TYPE_COUNT; ++t)
			printf ("%s\"%s\": %d", t ? ", " : "", vbi_proxy_msg_debug_get_type_str (t), t);
	}
	printf ("},\n");

	printf (" \"CONNECT_REQ\": {\"size\": %zu, \"fields\": [", sizeof (VBIPROXY_CONNECT_REQ));
	first = 1;
	FLD (VBIPROXY_CONNECT_REQ, magics.protocol_magic);
	FLD (VBIPROXY_CONNECT_REQ, magics.protocol_compat_version);
	FLD (VBIPROXY_CONNECT_REQ, magics.protocol_version);
	FLD (VBIPROXY_CONNECT_REQ, magics.endian_magic);
	FLD (VBIPROXY_CONNECT_REQ, client_name);
	FLD (VBIPROXY_CONNECT_REQ, pid);
	FLD (VBIPROXY_CONNECT_REQ, client_flags);
	FLD (VBIPROXY_CONNECT_REQ, scanning);
	FLD (VBIPROXY_CONNECT_REQ, buffer_count);
	FLD (VBIPROXY_CONNECT_REQ, services);
	FLD (VBIPROXY_CONNECT_REQ, strict);
	FLD (VBIPROXY_CONNECT_REQ, reserved);
	printf ("]},\n");

	printf (" \"SERVICE_REQ\": {\"size\": %zu, \"fields\": [", sizeof (VBIPROXY_SERVICE_REQ));
	first = 1;
	FLD (VBIPROXY_SERVICE_REQ, reset);
	FLD (VBIPROXY_SERVICE_REQ, commit);
	FLD (VBIPROXY_SERVICE_REQ, strict);
	FLD (VBIPROXY_SERVICE_REQ, services);
	printf ("]},\n");

	printf (" \"CHN_TOKEN_REQ\": {\"size\": %zu, \"fields\": [", sizeof (VBIPROXY_CHN_TOKEN_REQ));
	first = 1;
	FLD (VBIPROXY_CHN_TOKEN_REQ, chn_prio);
	FLD (VBIPROXY_CHN_TOKEN_REQ, chn_profile.is_valid);
	FLD (VBIPROXY_CHN_TOKEN_REQ, chn_profile.sub_prio);
	FLD (VBIPROXY_CHN_TOKEN_REQ, chn_profile.allow_suspend);
	FLD (VBIPROXY_CHN_TOKEN_REQ, chn_profile.reserved0);
	FLD (VBIPROXY_CHN_TOKEN_REQ, chn_profile.min_duration);
	FLD (VBIPROXY_CHN_TOKEN_REQ, chn_profile.exp_duration);
	FLD (VBIPROXY_CHN_TOKEN_REQ, chn_profile.reserved1);
	printf ("]},\n");

	printf (" \"CHN_NOTIFY_REQ\": {\"size\": %zu, \"fields\": [", sizeof (VBIPROXY_CHN_NOTIFY_REQ));
	first = 1;
	FLD (VBIPROXY_CHN_NOTIFY_REQ, notify_flags);
	FLD (VBIPROXY_CHN_NOTIFY_REQ, scanning);
	FLD (VBIPROXY_CHN_NOTIFY_REQ, cause);
	FLD (VBIPROXY_CHN_NOTIFY_REQ, reserved);
	printf ("]},\n");

	printf (" \"CHN_SUSPEND_REQ\": {\"size\": %zu, \"fields\": [", sizeof (VBIPROXY_CHN_SUSPEND_REQ));
	first = 1;
	FLD (VBIPROXY_CHN_SUSPEND_REQ, enable);
	FLD (VBIPROXY_CHN_SUSPEND_REQ, cause);
	printf ("]},\n");

	printf (" \"CHN_IOCTL_REQ\": {\"size\": %zu, \"fields\": [", sizeof (VBIPROXY_CHN_IOCTL_REQ));
	first = 1;
	FLD (VBIPROXY_CHN_IOCTL_REQ, request);
	FLD (VBIPROXY_CHN_IOCTL_REQ, reserved_0);
	FLD (VBIPROXY_CHN_IOCTL_REQ, reserved_1);
	FLD (VBIPROXY_CHN_IOCTL_REQ, arg_size);
	printf ("]},\n");

	printf (" \"CHN_RECLAIM_CNF\": {\"size\": %zu, \"fields\": []},\n", sizeof (VBIPROXY_CHN_RECLAIM_CNF));

	printf (" \"DAEMON_PID_REQ\": {\"size\": %zu, \"fields\": [", sizeof (VBIPROXY_DAEMON_PID_REQ));
	first = 1;
	FLD (VBIPROXY_DAEMON_PID_REQ, magics.protocol_magic);
	FLD (VBIPROXY_DAEMON_PID_REQ, magics.protocol_compat_version);
	FLD (VBIPROXY_DAEMON_PID_REQ, magics.protocol_version);
	FLD (VBIPROXY_DAEMON_PID_REQ, magics.endian_magic);
	printf ("]},\n");

	printf (" \"DAEMON_PID_CNF\": {\"size\": %zu, \"fields\": []},\n", sizeof (VBIPROXY_DAEMON_PID_CNF));
	printf (" \"CONNECT_CNF\": {\"size\": %zu, \"fields\": []},\n", sizeof (VBIPROXY_CONNECT_CNF));
	printf (" \"CHN_NOTIFY_CNF\": {\"size\": %zu, \"fields\": []},\n", sizeof (VBIPROXY_CHN_NOTIFY_CNF));
	printf (" \"CHN_TOKEN_CNF\": {\"size\": %zu, \"fields\": []},\n", sizeof (VBIPROXY_CHN_TOKEN_CNF));

	/* ioctl requests the daemon accepts for a V4L2 device, with their argument sizes */
	printf (" \"ioctls\": [");
	{
		static const unsigned int cand[] = {
#ifdef ENABLE_V4L2
			VIDIOC_QUERYCAP, VIDIOC_QUERYSTD, VIDIOC_G_STD, VIDIOC_S_STD,
			VIDIOC_ENUMSTD, VIDIOC_ENUMINPUT, VIDIOC_G_CTRL, VIDIOC_S_CTRL,
			VIDIOC_G_TUNER, VIDIOC_S_TUNER, VIDIOC_QUERYCTRL, VIDIOC_QUERYMENU,
			VIDIOC_G_INPUT, VIDIOC_S_INPUT, VIDIOC_G_FREQUENCY, VIDIOC_S_FREQUENCY,
#endif
			0
		};
		unsigned int i;
		uint8_t arg[1024];

		first = 1;
		for (i = 0; cand[i]; ++i) {
			vbi_bool perm = 0;
			int sz;

			memset (arg, 0, sizeof (arg));
			sz = vbi_proxy_msg_check_ioctl (VBI_API_V4L2, (int) cand[i], arg, &perm);
			if (sz >= 0) {
				printf ("%s[%u, %d, %d]", first ? "" : ", ", cand[i], sz, (int) perm);
				first = 0;
			}
		}
	}
	printf ("]\n}\n");
	return 0;
}

/* ------------------------------------------------------------------------ */
/*  msgfuzz: proxy-msg.c read/write handlers over a socketpair              */
/* ------------------------------------------------------------------------ */

static uint64_t fz_state;
static int fz_flags;

static uint32_t
fz_rand (void)
{
	fz_state += 0x9E3779B97F4A7C15ULL;
	return (uint32_t) (mix64 (fz_state) >> 32);
}

static int
msgfuzz_main (int argc, char **argv)
{
	long iters, it;
	long n_msgs = 0, n_rejected = 0, n_partial = 0;

	if (argc < 4)
		return 2;
	fz_state = strtoull (argv[2], NULL, 0);
	iters = strtol (argv[3], NULL, 0);
	/* flags: 1 = no header length < 8, 2 = no header length > buffer (recorded findings, see NOTES.md) */
	if (argc >= 5)
		fz_flags = (int) strtol (argv[4], NULL, 0);
	signal (SIGPIPE, SIG_IGN);

	for (it = 0; it < iters; ++it) {
		int sv[2];
		VBIPROXY_MSG_STATE io;
		size_t cap_len = sizeof (VBIPROXY_MSG) - (fz_rand () % 64);
		uint8_t *guard_buf = malloc (cap_len);	/* exact size: ASan guards the end */
		uint8_t wire[4096];
		size_t wire_len = 0, wire_off = 0;
		int n = 1 + fz_rand () % 4;
		int i, steps = 0;
		vbi_bool blocked;
		vbi_bool dead = 0;

		if (0 != socketpair (AF_UNIX, SOCK_STREAM, 0, sv))
			return 2;
		fcntl (sv[0], F_SETFL, O_NONBLOCK);
		fcntl (sv[1], F_SETFL, O_NONBLOCK);
		memset (&io, 0, sizeof (io));
		io.sock_fd = sv[0];

		/* a few messages, some with wrong lengths */
		for (i = 0; i < n && wire_len + 1200 < sizeof (wire); ++i) {
			uint32_t body = fz_rand () % 900;
			uint32_t len = 8 + body, type = fz_rand () % (MSG_TYPE_COUNT + 2);
			uint32_t k;

			switch (fz_rand () % 8) {
			case 0: len = fz_rand () % 8; break;
			case 1: len = (uint32_t) cap_len + (fz_rand () % 3) - 1; break;
			case 2: len = 0xFFFFFFFFu - (fz_rand () % 4); break;
			case 3: len = 8; body = 0; break;
			default: break;
			}
			if ((fz_flags & 1) && len < 8)
				len = 8 + body;
			if ((fz_flags & 2) && len > cap_len)
				len = 8 + body;
			if (fz_flags && len >= 8 && len <= cap_len)
				body = len - 8;	/* keep the stream in step, or the next "header" is random */
			k = htonl (len);
			memcpy (wire + wire_len, &k, 4);
			k = htonl (type);
			memcpy (wire + wire_len + 4, &k, 4);
			for (k = 0; k < body; ++k)
				wire[wire_len + 8 + k] = (uint8_t) fz_rand ();
			wire_len += 8 + body;
		}

		while (!dead && steps++ < 400) {
			/* feed a random chunk */
			if (wire_off < wire_len) {
				size_t chunk = 1 + fz_rand () % 64;
				ssize_t r;

				if (0 == fz_rand () % 4)
					chunk = wire_len - wire_off;
				if (chunk > wire_len - wire_off)
					chunk = wire_len - wire_off;
				r = send (sv[1], wire + wire_off, chunk, MSG_NOSIGNAL);
				if (r > 0)
					wire_off += (size_t) r;
			} else if (0 == fz_rand () % 3) {
				shutdown (sv[1], SHUT_WR);
			}

			{
				struct pollfd pfd;

				pfd.fd = sv[0];
				pfd.events = POLLIN;
				if (poll (&pfd, 1, 0) <= 0) {
					if (wire_off >= wire_len)
						break;
					continue;
				}
			}

			blocked = 0;
			if (!vbi_proxy_msg_handle_read (&io, &blocked, TRUE, (VBIPROXY_MSG *) guard_buf, (int) cap_len)) {
				++n_rejected;
				dead = 1;
				break;
			}
			if (io.readLen > cap_len || io.readOff > cap_len
			    || (io.readLen >= 8 && io.readOff > io.readLen)) {
				printf ("VIOLATION msgfuzz:read-state readLen=%u readOff=%u cap=%zu iter=%ld\n",
					io.readLen, io.readOff, cap_len, it);
				return 1;
			}
			if (io.readOff != 0 && io.readOff == io.readLen) {
				VBIPROXY_MSG *m = (VBIPROXY_MSG *) guard_buf;

				if (m->head.len != io.readLen) {
					printf ("VIOLATION msgfuzz:len-mismatch iter=%ld\n", it);
					return 1;
				}
				++n_msgs;
				vbi_proxy_msg_close_read (&io);
				/* echo something back through the write handler */
				if (0 == fz_rand () % 2) {
					VBIPROXY_MSG *w = calloc (1, sizeof (*w));
					int guardloop = 0;

					vbi_proxy_msg_write (&io, MSG_TYPE_CHN_NOTIFY_CNF,
							     sizeof (w->body.chn_notify_cnf), w, TRUE);
					while (io.writeLen > 0 && guardloop++ < 100) {
						uint8_t sink[256];

						if (!vbi_proxy_msg_handle_write (&io, &blocked))
							break;
						while (recv (sv[1], sink, sizeof (sink), MSG_DONTWAIT) > 0)
							;
					}
					if (io.writeLen > 0)
						vbi_proxy_msg_close_io (&io), dead = 1;
				}
			} else if (io.readOff != 0) {
				++n_partial;
			}
		}

		if (io.sock_fd != -1)
			vbi_proxy_msg_close_io (&io);
		close (sv[1]);
		free (guard_buf);
	}

	printf ("OK msgfuzz iters=%ld complete=%ld rejected=%ld partial_steps=%ld\n",
		iters, n_msgs, n_rejected, n_partial);
	return 0;
}

int
main (int argc, char **argv)
{
	opt_dump = (NULL != getenv ("VERIF_DUMP"));

	if (argc >= 2 && 0 == strcmp (argv[1], "lib"))
		return lib_main (argc, argv);
	if (argc >= 2 && 0 == strcmp (argv[1], "raw"))
		return raw_main (argc, argv);
	if (argc >= 2 && 0 == strcmp (argv[1], "layout"))
		return layout_main ();
	if (argc >= 2 && 0 == strcmp (argv[1], "msgfuzz"))
		return msgfuzz_main (argc, argv);

	fprintf (stderr, "usage: client lib|raw|layout|msgfuzz ...\n");
	return 2;
}
