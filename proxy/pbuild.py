"""Build of zvbid (ASan+UBSan and TSan) and of the client driver from $VERIF_REPO, keyed by a hash of the sources."""
import os, re, glob, hashlib, subprocess, shutil, time, json, fcntl, sys
from concurrent.futures import ThreadPoolExecutor

HERE = os.path.dirname(os.path.abspath(__file__))
ROOT = os.path.dirname(HERE)
BUILD = os.path.join(ROOT, 'build')
LIB_EXCLUDE = {'chains.c', 'hammgen.c', 'strptime.c'}
BASE = ['-g', '-O1', '-DHAVE_CONFIG_H', '-D_REENTRANT', '-D_GNU_SOURCE', '-DZVBI_VERIF', '-w']
SAN = {
    'asan': ['-fsanitize=address,undefined', '-fno-sanitize-recover=undefined'],
    'tsan': ['-fsanitize=thread'],
}
LINK_SAN = {'asan': ['-fsanitize=address,undefined'], 'tsan': ['-fsanitize=thread']}
LIBS = ['-lpthread', '-lm', '-lpng', '-lz']
NCPU = int(os.environ.get('VERIF_JOBS', str(os.cpu_count() or 4)))


def repo():
    return os.environ.get('VERIF_REPO', '/repo')


def log(*a):
    print(*a, file=sys.stderr, flush=True)


def _sources(R):
    s = glob.glob(os.path.join(R, 'src', '*.[ch]')) + glob.glob(os.path.join(R, 'daemon', '*.[ch]'))
    s += [os.path.join(R, 'config.h'), os.path.join(R, 'site_def.h')]
    s += [os.path.join(HERE, 'client.c'), os.path.join(HERE, 'ubsan-ignorelist.txt')]
    s += glob.glob(os.path.join(ROOT, 'support', 'ubsan-ignorelist.txt'))
    return s


def _sha(paths, extra):
    h = hashlib.sha256(extra.encode())
    for p in sorted(paths):
        h.update(p.encode())
        try:
            with open(p, 'rb') as f:
                h.update(f.read())
        except OSError:
            h.update(b'<missing>')
    return h.hexdigest()[:16]


def _inc(R):
    # scratch copies of the repository (git worktrees, snapshots) lack the generated, git-ignored configure results;
    # daemon/proxyd.c includes "../site_def.h", so the files must be in the tree itself
    if R != '/repo':
        for gen in ('config.h', 'site_def.h'):
            if not os.path.exists(os.path.join(R, gen)):
                try:
                    shutil.copy(os.path.join(ROOT, 'support', gen), os.path.join(R, gen))
                except OSError:
                    pass
    fl = ['-I' + R, '-I' + os.path.join(R, 'src')]
    if not os.path.exists(os.path.join(R, 'config.h')) or not os.path.exists(os.path.join(R, 'site_def.h')):
        fl.append('-I' + os.path.join(ROOT, 'support'))
    return fl


def _ignorelists():
    fl = ['-fsanitize-ignorelist=' + os.path.join(HERE, 'ubsan-ignorelist.txt')]
    p = os.path.join(ROOT, 'support', 'ubsan-ignorelist.txt')
    if os.path.exists(p):
        fl.append('-fsanitize-ignorelist=' + p)
    return fl


def _run(cmd):
    return subprocess.run(cmd, stdout=subprocess.PIPE, stderr=subprocess.PIPE, text=True, errors='replace')


def build():
    """returns dict: dir, zvbid-asan, zvbid-tsan, client, layout (parsed)"""
    R = repo()
    h = _sha(_sources(R), ' '.join(BASE + SAN['asan'] + SAN['tsan']) + R)
    d = os.path.join(BUILD, 'proxy-' + h)
    os.makedirs(BUILD, exist_ok=True)
    res = {'dir': d, 'zvbid-asan': os.path.join(d, 'zvbid-asan'), 'zvbid-tsan': os.path.join(d, 'zvbid-tsan'),
           'client': os.path.join(d, 'client-asan'), 'hash': h}
    lock = open(os.path.join(BUILD, '.proxy-build.lock'), 'w')
    fcntl.flock(lock, fcntl.LOCK_EX)
    try:
        if not os.path.exists(os.path.join(d, '.done')):
            for old in glob.glob(os.path.join(BUILD, 'proxy-*')):
                if not re.fullmatch(r'proxy-[0-9a-f]{16}', os.path.basename(old)) or old == d:
                    continue
                # keep builds of other repositories (sensitivity worktrees) for an hour
                try:
                    if time.time() - os.path.getmtime(old) > 3600 or open(os.path.join(old, '.repo')).read() == R:
                        shutil.rmtree(old, ignore_errors=True)
                except OSError:
                    shutil.rmtree(old, ignore_errors=True)
            t0 = time.time()
            srcs = [s for s in sorted(glob.glob(os.path.join(R, 'src', '*.c'))) if os.path.basename(s) not in LIB_EXCLUDE]
            jobs = []
            for v in ('asan', 'tsan'):
                od = os.path.join(d, v)
                os.makedirs(od, exist_ok=True)
                fl = BASE + SAN[v] + (_ignorelists() if v == 'asan' else []) + _inc(R)
                for s in srcs:
                    jobs.append(['clang', '-c'] + fl + [s, '-o', os.path.join(od, os.path.basename(s)[:-2] + '.o')])
                jobs.append(['clang', '-c'] + fl + [os.path.join(R, 'daemon', 'proxyd.c'), '-o', os.path.join(d, 'proxyd-%s.o' % v)])
            jobs.append(['clang', '-c'] + BASE + SAN['asan'] + _ignorelists() + _inc(R) + ['-I' + R, os.path.join(HERE, 'client.c'),
                                                                                          '-o', os.path.join(d, 'client.o')])
            with ThreadPoolExecutor(NCPU) as ex:
                for j, r in zip(jobs, ex.map(_run, jobs)):
                    if r.returncode:
                        log('BUILD FAILED', ' '.join(j), '\n', r.stderr[-4000:])
                        raise SystemExit(2)
            links = []
            for v in ('asan', 'tsan'):
                objs = sorted(glob.glob(os.path.join(d, v, '*.o')))
                links.append(['clang'] + LINK_SAN[v] + [os.path.join(d, 'proxyd-%s.o' % v)] + objs + LIBS + ['-o', res['zvbid-' + v]])
            links.append(['clang'] + LINK_SAN['asan'] + [os.path.join(d, 'client.o')] + sorted(glob.glob(os.path.join(d, 'asan', '*.o'))) +
                         LIBS + ['-o', res['client']])
            for j in links:
                r = _run(j)
                if r.returncode:
                    log('LINK FAILED', ' '.join(j[:6]), '...\n', r.stderr[-4000:])
                    raise SystemExit(2)
            r = _run([res['client'], 'layout'])
            if r.returncode:
                log('layout failed', r.stderr[-2000:])
                raise SystemExit(2)
            open(os.path.join(d, 'layout.json'), 'w').write(r.stdout)
            open(os.path.join(d, '.repo'), 'w').write(R)
            open(os.path.join(d, '.done'), 'w').write('ok')
            log('[build] proxy %s (%s) in %.1fs' % (h, R, time.time() - t0))
    finally:
        fcntl.flock(lock, fcntl.LOCK_UN)
        lock.close()
    res['layout'] = json.load(open(os.path.join(d, 'layout.json')))
    return res
