"""Reference frames of the sim adapter (hook in daemon/proxyd.c) and protocol message construction."""
import struct

M64 = (1 << 64) - 1

# VBI_SLICED_ symbols used
TTX_B = 0x3
TTX_B_L10 = 0x1
TTX_B_L25 = 0x2
VPS = 0x4
CC625 = 0x18
CC625_F1 = 0x8
CC625_F2 = 0x10
WSS625 = 0x400
SUPPORTED = TTX_B | VPS | CC625 | WSS625
UNSUPPORTED_POOL = [0x60, 0x2000, 0x1000, 0x800, 0x10000, 0x20000000, 0x40000000, 0x80]

# (id, line) in the order io-sim.c gen_sliced_625() emits them
TEMPLATE = [(TTX_B, l) for l in range(9, 16)] + [(VPS, 16)] + [(TTX_B, l) for l in (19, 20, 21)] + [(CC625, 22), (WSS625, 23)] + \
    [(TTX_B, l) for l in range(320, 329)] + [(TTX_B, l) for l in (332, 333, 334, 335)]


def mix64(x):
    x = (x + 0x9E3779B97F4A7C15) & M64
    x = ((x ^ (x >> 30)) * 0xBF58476D1CE4E5B9) & M64
    x = ((x ^ (x >> 27)) * 0x94D049BB133111EB) & M64
    return x ^ (x >> 31)


IDH = {(i, l): mix64(i * 1024 + l) for i, l in TEMPLATE}
D0 = 0x0123456789ABCDEF


class Ref:
    """expected (line count, digest) of frame n filtered to a service set, as client.c log_frame() computes it"""

    def __init__(self):
        self.kept = {}
        self.cache = {}

    def lines(self, n):
        k = self.kept.get(n)
        if k is None:
            k = []
            for i, l in TEMPLATE:
                if mix64(n * 4096 + 2048 + l) % 6 == 0:
                    continue
                k.append((i, l, mix64(n * 4096 + l)))
            self.kept[n] = k
        return k

    @staticmethod
    def inwin(l, win):
        return win is None or (win[0] <= l < win[0] + win[1]) or (win[2] <= l < win[2] + win[3])

    def expect(self, n, services, win=None):
        """win = (start0, count0, start1, count1) of the device when the frame was captured, None = all rows"""
        key = (n, services, win)
        r = self.cache.get(key)
        if r is None:
            d = D0
            c = 0
            for i, l, w in self.lines(n):
                if (i & services) and self.inwin(l, win):
                    d = mix64(d ^ IDH[(i, l)] ^ w)
                    c += 1
            r = (c, d)
            self.cache[key] = r
        return r

    def describe(self, n, services, win=None):
        return ['0x%x %d %016x' % (i, l, w) for i, l, w in self.lines(n) if (i & services) and self.inwin(l, win)]


# ---------------------------------------------------------------------------------------------------------------
# protocol messages (host byte order body, network byte order header), built from the layout printed by client.c

class Msg:
    def __init__(self, layout):
        self.L = layout
        self.T = layout['types']

    def raw(self, mtype, body, length=None):
        ln = 8 + len(body) if length is None else length
        return struct.pack('>II', ln & 0xffffffff, mtype & 0xffffffff) + body

    def body(self, name, **vals):
        S = self.L[name]
        b = bytearray(S['size'])
        for fname, off, size in S['fields']:
            if fname in vals:
                self.put(b, off, size, vals[fname])
        return b

    @staticmethod
    def put(b, off, size, v):
        if isinstance(v, (bytes, bytearray)):
            v = bytes(v)[:size]
            b[off:off + len(v)] = v
        else:
            b[off:off + size] = (v & ((1 << (8 * size)) - 1)).to_bytes(size, 'little')

    def magics(self, endian=None, magic=b'LIBZVBI VBIPROXY', compat=None):
        return {'magics.protocol_magic': magic, 'magics.protocol_compat_version': self.L['compat_version'] if compat is None else compat,
                'magics.protocol_version': self.L['version'], 'magics.endian_magic': self.L['endian_magic'] if endian is None else endian}

    def connect_req(self, services, strict=0, buffers=5, flags=0, name=b'rawfuzz', pid=4242, scanning=0, **over):
        v = self.magics()
        v.update({'client_name': name, 'pid': pid, 'client_flags': flags, 'scanning': scanning, 'buffer_count': buffers,
                  'services': services, 'strict': strict})
        v.update(over)
        return bytes(self.body('CONNECT_REQ', **v))

    def service_req(self, services, strict=0, reset=0, commit=1, **over):
        v = {'reset': reset, 'commit': commit, 'strict': strict, 'services': services}
        v.update(over)
        return bytes(self.body('SERVICE_REQ', **v))

    def token_req(self, prio=1, valid=1, sub_prio=0x10, min_duration=0, exp_duration=0, allow_suspend=1, **over):
        v = {'chn_prio': prio, 'chn_profile.is_valid': valid, 'chn_profile.sub_prio': sub_prio, 'chn_profile.allow_suspend': allow_suspend,
             'chn_profile.min_duration': min_duration, 'chn_profile.exp_duration': exp_duration}
        v.update(over)
        return bytes(self.body('CHN_TOKEN_REQ', **v))

    def notify_req(self, flags, scanning=0, cause=0, **over):
        v = {'notify_flags': flags, 'scanning': scanning, 'cause': cause}
        v.update(over)
        return bytes(self.body('CHN_NOTIFY_REQ', **v))

    def ioctl_req(self, request, arg_size, arg=b'', **over):
        v = {'request': request, 'arg_size': arg_size}
        v.update(over)
        # VBIPROXY_CHN_IOCTL_REQ_SIZE(n) is sizeof(struct) + n - 1 although arg_data[] has length 0: the daemon (and the
        # client library) take a message that ends one byte before the end of the argument as the well-formed one
        return bytes(self.body('CHN_IOCTL_REQ', **v)) + bytes(arg)[:max(0, len(bytes(arg)) - 1)]

    def pid_req(self, **over):
        v = self.magics()
        v.update(over)
        return bytes(self.body('DAEMON_PID_REQ', **v))
