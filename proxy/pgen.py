"""Case generators for C18 (schedules of well-behaved clients) and C19 (witnesses + faulty / token clients)."""
from . import pref

B1 = [0, 1, 2, 3, 4, 0x7f, 0x80, 0xfd, 0xfe, 0xff]
B4 = [0, 1, 2, 3, 4, 5, 0x1f, 0xffff, 625, 525, 0x7fffffff, 0x80000000, 0xfffffffe, 0xffffffff, 0x20000000, 0x40000000, 0x60000000]
B8 = [0, 1, 2, -1, 2 ** 63 - 1, -2 ** 63, 2 ** 31, 2 ** 32, 10 ** 9, -2]
SERVICE_POOL = [pref.TTX_B, pref.VPS, pref.CC625, pref.WSS625, pref.TTX_B_L10, pref.TTX_B_L25, pref.CC625_F1, pref.CC625_F2,
                pref.SUPPORTED, pref.TTX_B | pref.VPS, pref.CC625 | pref.WSS625]

# shapes that run into a recorded finding (see NOTES.md); value True = steer the generator away from it
DEFAULT_SKIP = {
    # repaired in /repo (see NOTES.md section 4, REPAIRED.json): the generator exercises these regions again
    'partial_message': False,       # F2 assert in vbi_proxy_msg_read_idle/is_idle on a message that arrives in two pieces
    'hdr_len_small': False,         # F10 header length < 8: recv() with a length of 2^32-1
    'hdr_len_big': False,           # F11 header length > sizeof(VBIPROXY_MSG): assert in vbi_proxy_msg_handle_read
    'strict_oob': False,            # F4 SERVICE_REQ strict was not clamped
    'unheld_return': False,         # F5 NOTIFY(TOKEN) from a client that does not hold the token -> assert in get_token_owner
    'lib_ioctl': False,             # F12 vbi_proxy_client_device_ioctl() wrote one byte past its message buffer (client library)
    'dyn_params': False,            # F6/F7 device line counts that follow the services (assert line_count < max_lines; idx < max_lines)
    # still open
    'thread_start_race': True,      # F9 acquisition thread runs before max_lines is set when the first frame arrives at once
    'ignore_reclaim': True,         # F14 token taken from a holder whose reclaim is pending (library clients answer reclaims, no prio > background)
    'update_during_token_wait': True,  # F13 TOKEN_IND arriving inside vbi_capture_update_services() makes the library drop the connection
}


def services(rng, allow_unsupported=True):
    s = 0
    for _ in range(rng.choice([1, 1, 1, 2, 2, 3])):
        s |= rng.choice(SERVICE_POOL)
    if allow_unsupported:
        r = rng.random()
        if r < 0.06:
            s = rng.choice(pref.UNSUPPORTED_POOL)
        elif r < 0.25:
            s |= rng.choice(pref.UNSUPPORTED_POOL)
    return s


def strictness(rng, oob=True):
    if oob and rng.random() < 0.12:
        return rng.choice([-5, -2, 3, 7, 100, 127, -128])
    return rng.choice([-1, 0, 1, 2])


def common(rng, pid, skip, allow_tsan=True):
    variant = 'select' if rng.random() < 0.55 else 'thread'
    c = {'prop': pid, 'variant': variant, 'opts': [], 'tsan': False, 'period_us': rng.choice([2000, 3000, 4000, 4000, 5000]),
         'buffers': rng.choice([None, None, None, 1, 2, 4, 16, 32])}
    if variant == 'thread' and allow_tsan and rng.random() < 0.3:
        c['tsan'] = True
        c['period_us'] = rng.choice([5000, 6000, 8000])
    if variant == 'thread' and rng.random() < 0.15:
        if skip.get('thread_start_race'):
            c['_excluded'] = c.get('_excluded', 0) + 1
        else:
            c['startup_us'] = 0
    if rng.random() < 0.3:
        if skip.get('dyn_params'):
            c['_excluded'] = c.get('_excluded', 0) + 1
        else:
            c['opts'].append('dyn')
    return c


# ---------------------------------------------------------------------------------------------------------------
def thread_period(case, n):
    """In the thread variant frames are produced while the main thread is busy or descheduled; the frame period is chosen
    so that the daemon's queue (buffers + clients) covers >= 120 ms (240 ms under TSan) of that, which real hardware
    (40 ms per frame, >= 9 buffers) gives it as well.  Otherwise machine load shows up as lost frames."""
    if case['variant'] == 'thread':
        depth = (case.get('buffers') or 8) + n
        need = (240000 if case.get('tsan') else 120000) // depth
        case['period_us'] = max(case['period_us'], need)


def gen_c18(rng, tier, skip):
    case = common(rng, 'C18', skip)
    n = rng.choice([1, 2, 2, 2, 3, 3, 3, 4, 4, 5, 6])
    if case['variant'] == 'thread' and (case.get('buffers') or 8) < 8 and rng.random() < 0.7:
        case['buffers'] = rng.choice([8, 16, 32])
    thread_period(case, n)
    per = case['period_us'] / 1000.0
    budget = 1400 if tier == 'quick' else 2600
    clients = []
    for i in range(n):
        ops = []
        dur = 0.0
        delay = rng.choice([0, 0, rng.randrange(0, 400)])
        flags = rng.choice([0, 0, 0, 1, 2, 3])
        ops.append(['C', services(rng), strictness(rng), rng.choice([1, 2, 5, 5, 8, 32, 255]), flags])
        nsteps = rng.randrange(2, 8)
        connected = True
        for _ in range(nsteps):
            if dur > budget:
                break
            r = rng.random()
            if not connected:
                ops.append(['C', services(rng), strictness(rng), rng.choice([1, 5, 8]), flags])
                connected = True
            elif r < 0.35:
                k = rng.choice([1, 3, 10, 25, 60, 150])
                k = max(1, min(k, int(600 / per)))
                ops.append(['R', k])
                dur += k * per
            elif r < 0.55:
                ms = rng.choice([20, 60, 150, 400])
                ops.append(['T', ms])
                dur += ms
            elif r < 0.72:
                if rng.random() < 0.5:
                    ops.append(['B', rng.choice([1024, 4096, 16384])])
                ms = rng.choice([30, 80, 200, 450, 800])
                ops.append(['S', ms])
                dur += ms
            elif r < 0.9:
                st = strictness(rng)
                if not -1 <= st <= 2 and skip.get('strict_oob'):
                    case['_excluded'] = case.get('_excluded', 0) + 1
                    st = max(-1, min(2, st))
                ops.append(['U', services(rng), st, rng.choice([0, 0, 1])])
                dur += 10
            else:
                ops.append(['D'])
                ops.append(['Z', rng.choice([5, 40, 150])])
                connected = False
                dur += 50
        if connected:
            ops.append(['R', rng.choice([2, 10, 30])])
            ops.append(['K'] if rng.random() < 0.2 else ['D'])
        clients.append({'kind': 'lib', 'name': 'c%d' % i, 'delay_ms': delay, 'ops': ops})
    case['clients'] = clients
    return case


def gen_c18_split(rng, tier, skip, msgb):
    """A conforming raw client whose (harmless) message reaches the daemon in two pieces a few frame periods apart - the daemon does
    not write to a client it is reading a message from, so frames queue up for it in the daemon - while a library client changes its
    services several times. The raw client never changes its own services and pauses for less than the daemon's queue holds:
    it must receive consecutive frames."""
    case = common(rng, 'C18', skip, allow_tsan=False)
    case['variant'] = 'select'
    case['tsan'] = False
    case['opts'] = []
    case['period_us'] = rng.choice([20000, 25000, 30000])
    case['buffers'] = None
    case['kind'] = 'split'
    per = case['period_us'] / 1000.0
    m, T = msgb, msgb.T
    svc_b = rng.choice([pref.TTX_B, pref.VPS, pref.TTX_B | pref.VPS, pref.CC625 | pref.WSS625, pref.SUPPORTED])
    msg = m.raw(T['CHN_NOTIFY_REQ'], m.notify_req(0, 0))
    ops = [['c'], _send(m.raw(T['CONNECT_REQ'], m.connect_req(svc_b, name=b'split')), t='CONNECT_REQ', benign=True, services=svc_b),
           ['w', T['CONNECT_CNF'], 1000], ['r', 300]]
    for _ in range(rng.choice([2, 3, 4])):
        ops.append(['p', rng.choice([1, 2, 4, 7, 9]), int(rng.choice([2, 3]) * per), msg.hex(), {'benign': True, 't': 'CHN_NOTIFY_REQ'}])
        ops.append(['r', rng.choice([100, 200])])
    ops += [['r', 300], ['x']]
    raw = {'kind': 'raw', 'name': 'b0', 'delay_ms': 0, 'ops': ops, 'continuity': True}
    lops = [['C', services(rng, False) or pref.VPS, 0, 8, 0], ['T', 250]]
    for _ in range(rng.choice([10, 14, 18])):
        lops.append(['U', services(rng, False), rng.choice([0, 1]), rng.choice([0, 0, 1])])
        lops.append(['T', rng.choice([10, 20, 30])])
    lops += [['R', 5], ['D']]
    case['clients'] = [raw, {'kind': 'lib', 'name': 'c0', 'delay_ms': rng.choice([0, 50]), 'ops': lops}]
    return case


def gen_c18_indication(rng, tier, skip):
    """Library clients that are reading frames while another client sends channel flush notifications: every reader gets an
    unsolicited CHN_CHANGE_IND between its frames.  What the library hands out must still be captured frames only (the flush may
    cost frames, so gaps are not judged in these cases)."""
    case = common(rng, 'C18', skip, allow_tsan=False)
    case['variant'] = 'select'
    case['tsan'] = False
    case['opts'] = []
    case['kind'] = 'indication'
    per = case['period_us'] / 1000.0
    clients = []
    for i in range(rng.choice([1, 2])):
        clients.append({'kind': 'lib', 'name': 'c%d' % i, 'delay_ms': 0,
                        'ops': [['C', services(rng, False) or pref.VPS, 0, 8, 0], ['R', max(20, min(80, int(600 / per)))], ['D']]})
    nops = [['C', services(rng, False) or pref.TTX_B, 0, 8, 0], ['T', 120]]
    for _ in range(rng.choice([2, 3, 4])):
        nops.append(['N', 4])
        nops.append(['T', rng.choice([40, 80, 120])])
    nops.append(['D'])
    clients.append({'kind': 'lib', 'name': 'n0', 'delay_ms': 60, 'ops': nops})
    case['clients'] = clients
    return case


# ---------------------------------------------------------------------------------------------------------------
def _send(hexbytes, **meta):
    return ['s', hexbytes.hex() if isinstance(hexbytes, (bytes, bytearray)) else hexbytes, meta]


class Fuzz:
    def __init__(self, rng, msgb, skip):
        self.rng = rng
        self.m = msgb
        self.skip = skip
        self.excluded = 0

    # well-formed messages a connected client may send: (type name, body, meta)
    def valid(self, kind=None):
        rng, m = self.rng, self.m
        kind = kind or rng.choice(['SERVICE_REQ', 'CHN_TOKEN_REQ', 'CHN_NOTIFY_REQ', 'CHN_IOCTL_REQ', 'CHN_RECLAIM_CNF', 'CHN_SUSPEND_REQ'])
        if kind == 'SERVICE_REQ':
            s = services(rng)
            return kind, m.service_req(s, rng.choice([-1, 0, 1, 2]), rng.choice([0, 1])), {'benign': True, 'services': s}
        if kind == 'CHN_TOKEN_REQ':
            prio = rng.choice([1, 1, 1, 1, 0, 2, 3])        # VBI_CHN_PRIO_BACKGROUND is 1
            valid = rng.choice([1, 1, 1, 0])
            return kind, m.token_req(prio, valid, rng.choice([0, 0x10, 0x20, 0x40]), rng.choice([0, 0, 1, 2])), {'ask': bool(valid), 'rel': True}
        if kind == 'CHN_NOTIFY_REQ':
            fl = rng.choice([0, 1, 1, 2, 2, 4, 8, 16, 3, 6, 9, 0x1f])
            if (fl & 2) and not (fl & 1) and self.skip.get('unheld_return'):
                self.excluded += 1
                fl = (fl & ~2) | 1
            rel = bool(fl & 3)
            return kind, m.notify_req(fl, rng.choice([0, 625, 525])), {'rel': rel, 'release': bool(fl & 1), 'benign': not rel, 'flush': bool(fl & 4)}
        if kind == 'CHN_IOCTL_REQ':
            req, size, perm = rng.choice(m.L['ioctls'])
            return kind, m.ioctl_req(req, size, bytes(rng.randrange(256) for _ in range(size))), {'benign': True}
        if kind == 'CHN_RECLAIM_CNF':
            return kind, b'', {'rel': False}
        if kind == 'CHN_SUSPEND_REQ':
            return kind, bytes(m.body('CHN_SUSPEND_REQ', enable=1)), {}
        raise ValueError(kind)

    def boundary(self, size):
        rng = self.rng
        if size == 1:
            return rng.choice(B1)
        if size == 4:
            return rng.choice(B4)
        if size == 8:
            v = rng.choice(B8)
            if self.skip.get('extreme_duration') and abs(v) > 2 ** 40:
                self.excluded += 1
                v = rng.choice([0, 1, 2, 10 ** 9])
            return v
        return rng.choice([b'\xff' * size, b'\x00' * size, b'A' * size, bytes(rng.randrange(256) for _ in range(size))])

    def mutate_field(self, name, body):
        """replace one field of a message body by a boundary value"""
        rng = self.rng
        fields = self.m.L[name]['fields']
        if not fields:
            return body, 'no-field'
        fname, off, size = rng.choice(fields)
        if name == 'SERVICE_REQ' and fname == 'strict' and self.skip.get('strict_oob'):
            self.excluded += 1
            v = rng.choice([0xff, 0, 1, 2])
        elif name == 'CHN_NOTIFY_REQ' and fname == 'notify_flags' and self.skip.get('unheld_return'):
            self.excluded += 1
            v = self.boundary(size) & ~2 if size == 4 else 0
        else:
            v = self.boundary(size)
        b = bytearray(body)
        self.m.put(b, off, size, v)
        return bytes(b), '%s.%s=%s' % (name, fname, v if not isinstance(v, bytes) else v[:4].hex() + '..')

    def client(self, idx):
        """one faulty client: [valid prefix] fault [aftermath]"""
        rng, m, T = self.rng, self.m, self.m.T
        ops = [['c']]
        connect = rng.random() < 0.78
        svc = services(rng, allow_unsupported=False)
        if connect:
            ops.append(_send(m.raw(T['CONNECT_REQ'], m.connect_req(svc, rng.choice([-1, 0, 1, 2]), rng.choice([1, 5, 255]),
                                                                   rng.choice([0, 0, 1, 2, 3]), name=b'fuzz%d' % idx)),
                             t='CONNECT_REQ', benign=True, services=svc))
            ops.append(['w', T['CONNECT_CNF'], 1000])
            for _ in range(rng.choice([0, 0, 1, 2, 3])):
                k, body, meta = self.valid()
                ops.append(_send(m.raw(T[k], body), t=k, **meta))
                ops.append(['r', rng.choice([5, 30, 120])])
        fault = rng.choice(['truncate', 'truncate', 'hdr_len', 'hdr_type', 'field', 'field', 'field', 'wrong_state', 'magic', 'oversize',
                            'pipeline', 'stall', 'junk', 'strict', 'token_misuse'])
        if fault in ('strict', 'token_misuse') and not connect:
            fault = 'field'
        # the message the fault is applied to
        if connect:
            k, body, meta = self.valid()
        else:
            k = rng.choice(['CONNECT_REQ', 'CONNECT_REQ', 'DAEMON_PID_REQ'])
            body = m.connect_req(svc) if k == 'CONNECT_REQ' else m.pid_req()
            meta = {'services': svc} if k == 'CONNECT_REQ' else {}
        full = m.raw(T[k], body)
        desc = fault
        if fault == 'truncate':
            cut = rng.randrange(1, len(full))
            desc = 'truncate %s at %d/%d' % (k, cut, len(full))
            if self.skip.get('partial_message'):
                self.excluded += 1
                desc += ' (skipped: whole message, then close)'
                ops.append(_send(full, t=k, fault=desc, **meta))
            elif rng.random() < 0.5:
                ops.append(_send(full[:cut], t=k, fault=desc, fault_kills=True))
            else:
                ops.append(['p', cut, rng.choice([20, 150, 600]), full.hex(), dict(meta, t=k, fault=desc)])
        elif fault == 'hdr_len':
            ln = rng.choice([0, 1, 7, 8, len(full) - 1, len(full) + 1, len(full) + 4, m.L['msg'] - 1, m.L['msg'], m.L['msg'] + 1, m.L['msg'] + 8,
                             0x7fffffff, 0x80000000, 0xffffffff])
            if ln < 8 and self.skip.get('hdr_len_small'):
                self.excluded += 1
                ln = rng.choice([8, len(full) - 1, len(full) - 4])
            if ln > m.L['msg'] and self.skip.get('hdr_len_big'):
                self.excluded += 1
                ln = rng.choice([m.L['msg'], m.L['msg'] - 1, len(full) + 1])
            if ln < 8 and self.skip.get('hdr_len_small'):
                ln = 8
            desc = '%s header len %d instead of %d' % (k, ln, len(full))
            data = m.raw(T[k], body, length=ln)
            if len(full) < ln <= m.L['msg'] and self.skip.get('partial_message'):
                # the daemon would wait for the rest (a partial message): supply it
                self.excluded += 1
                data = data + bytes(ln - len(full))
            if ln < 8 and rng.random() < 0.5:
                # the bytes that follow a too short length are what the daemon reads next
                data += bytes(rng.randrange(256) for _ in range(rng.choice([900, 1500, 5000])))
                desc += ' + %d more bytes' % (len(data) - len(full))
            ops.append(_send(data, t=k, fault=desc, fault_kills=True))
        elif fault == 'strict':
            st = rng.choice([-128, -100, -2, 3, 4, 20, 60, 100, 127])
            if self.skip.get('strict_oob'):
                self.excluded += 1
                st = rng.choice([-1, 0, 1, 2])
            s2 = services(rng)
            desc = 'SERVICE_REQ strict=%d' % st
            ops.append(_send(m.raw(T['SERVICE_REQ'], m.service_req(s2, st, rng.choice([0, 1]))), t='SERVICE_REQ', fault=desc, services=s2))
        elif fault == 'token_misuse':
            # channel notifications that do not fit the token state
            fl = rng.choice([2, 2, 3, 6, 0x1e])
            if self.skip.get('unheld_return') and (fl & 2) and not (fl & 1):
                self.excluded += 1
                fl |= 1
            desc = 'CHN_NOTIFY_REQ flags=0x%x without holding the token' % fl
            if rng.random() < 0.5:
                ops.append(_send(m.raw(T['CHN_TOKEN_REQ'], m.token_req(1, 1)), t='CHN_TOKEN_REQ', ask=True, rel=True))
                ops.append(['r', rng.choice([5, 50])])
            ops.append(_send(m.raw(T['CHN_NOTIFY_REQ'], m.notify_req(fl)), t='CHN_NOTIFY_REQ', fault=desc, rel=True, release=bool(fl & 1), flush=bool(fl & 4)))
            ops.append(['r', rng.choice([50, 300])])
            if rng.random() < 0.5:
                ops.append(_send(m.raw(T['CHN_TOKEN_REQ'], m.token_req(1, 1)), t='CHN_TOKEN_REQ', ask=True, rel=True))
        elif fault == 'hdr_type':
            ty = rng.choice([24, 25, 255, 0x7fffffff, 0xffffffff, 1, 2, 4, 6, 7, 9, 10, 12, 13, 16, 17, 19, 20, 21, 23])
            desc = 'type %d with the body of %s' % (ty, k)
            ops.append(_send(m.raw(ty, body), t='junk', fault=desc, fault_kills=True))
        elif fault == 'field':
            nm = k if m.L.get(k, {}).get('fields') else 'CHN_NOTIFY_REQ'
            if nm != k:
                k, body, meta = self.valid('CHN_NOTIFY_REQ')
            mb, desc = self.mutate_field(nm, body[:m.L[nm]['size']])
            mb = mb + body[m.L[nm]['size']:]
            meta2 = dict(meta)
            meta2.pop('benign', None)
            if nm == 'CHN_NOTIFY_REQ':
                fl = int.from_bytes(mb[0:4], 'little')
                meta2.update(rel=bool(fl & 3), release=bool(fl & 1), flush=bool(fl & 4))
            if nm == 'CHN_TOKEN_REQ':
                meta2.update(ask=bool(mb[8]), rel=True)
            if nm in ('SERVICE_REQ', 'CONNECT_REQ'):
                off = [f for f in m.L[nm]['fields'] if f[0] == 'services'][0][1]
                meta2['services'] = int.from_bytes(mb[off:off + 4], 'little')
            ops.append(_send(m.raw(T[nm], mb), t=nm, fault=desc, **meta2))
        elif fault == 'wrong_state':
            if connect:
                k2 = rng.choice(['CONNECT_REQ', 'DAEMON_PID_REQ', 'DAEMON_PID_CNF', 'CONNECT_CNF'])
                b2 = {'CONNECT_REQ': m.connect_req(svc), 'DAEMON_PID_REQ': m.pid_req(), 'DAEMON_PID_CNF': bytes(m.L['DAEMON_PID_CNF']['size']),
                      'CONNECT_CNF': bytes(m.L['CONNECT_CNF']['size'])}[k2]
            else:
                k2, b2, _ = self.valid()
                if rng.random() < 0.2:
                    k2, b2 = 'CLOSE_REQ', b''
            desc = '%s in state %s' % (k2, 'FORWARD' if connect else 'WAIT_CON_REQ')
            ops.append(_send(m.raw(T[k2], b2), t='junk', fault=desc, fault_kills=True))
        elif fault == 'magic':
            which = rng.choice(['endian_swap', 'endian_bad', 'magic_str', 'compat'])
            over = {'endian_swap': {'magics.endian_magic': m.L['endian_mismatch']}, 'endian_bad': {'magics.endian_magic': 0x12345678},
                    'magic_str': {'magics.protocol_magic': b'LIBZVBI VBIPROXX'}, 'compat': {'magics.protocol_compat_version': rng.choice([0, 0x101, 0xffffffff])}}[which]
            k2 = rng.choice(['CONNECT_REQ', 'DAEMON_PID_REQ'])
            b2 = m.connect_req(svc, **over) if k2 == 'CONNECT_REQ' else m.pid_req(**over)
            desc = '%s with %s' % (k2, which)
            ops.append(_send(m.raw(T[k2], b2), t=k2 if not connect else 'junk', fault=desc, services=svc, fault_kills=connect))
            if which == 'endian_swap' and k2 == 'CONNECT_REQ' and not connect:
                # the daemon accepts a swapped magic: carry on as a connected client
                ops.append(['w', T['CONNECT_CNF'], 500])
                k3, b3, meta3 = self.valid()
                ops.append(_send(m.raw(T[k3], b3), t=k3, fault='after endian-swapped connect', **meta3))
        elif fault == 'oversize':
            size = rng.choice([m.L['msg'] - 8, m.L['msg'] - 9, m.L['msg'] - 7, m.L['msg'], 4096, 60000])
            if size > m.L['msg'] - 8 and self.skip.get('hdr_len_big'):
                self.excluded += 1
                size = rng.choice([m.L['msg'] - 8, m.L['msg'] - 9, m.L['msg'] - 24])
            ty = rng.choice([T['CHN_IOCTL_REQ'], T['CONNECT_REQ'], T['SERVICE_REQ'], T['SLICED_IND']])
            junk = bytes(rng.randrange(256) for _ in range(size))
            if ty == T['CHN_IOCTL_REQ']:
                req, sz, perm = rng.choice(m.L['ioctls'])
                argsz = rng.choice([size - 15, size - 16, size - 14, 0xffffffff, 0x7fffffff, sz])
                junk = m.ioctl_req(req, argsz) + junk[16:]
            desc = 'oversized message type %d with %d body bytes' % (ty, size)
            ops.append(_send(m.raw(ty, junk), t='junk', fault=desc, fault_kills=True))
        elif fault == 'pipeline':
            parts = []
            metas = []
            for _ in range(rng.choice([2, 3, 5])):
                k2, b2, me = self.valid() if connect else ('CONNECT_REQ', m.connect_req(svc), {'services': svc})
                parts.append(m.raw(T[k2], b2))
                metas.append(dict(me, t=k2))
            desc = 'pipelined in one send: ' + '+'.join(x['t'] for x in metas)
            ops.append(_send(b''.join(parts), t='pipeline', fault=desc, services=pref.SUPPORTED, parts=metas,
                             flush=any(x.get('flush') for x in metas)))
        elif fault == 'stall':
            desc = 'connected client that never reads'
            if not connect:
                ops.append(_send(m.raw(T['CONNECT_REQ'], m.connect_req(pref.SUPPORTED)), t='CONNECT_REQ', services=pref.SUPPORTED, benign=True))
            ops.append(['z', rng.choice([300, 700, 1200])])
        else:
            n = rng.choice([1, 4, 8, 9, 64, 500])
            desc = '%d random bytes' % n
            data = bytes(rng.randrange(256) for _ in range(n))
            if self.skip.get('partial_message'):
                self.excluded += 1
                data = m.raw(rng.randrange(0, 30), data)
                if len(data) > m.L['msg'] and self.skip.get('hdr_len_big'):
                    data = m.raw(rng.randrange(0, 30), data[8:8 + 64])
            ops.append(_send(data, t='junk', fault=desc, fault_kills=True))
        # aftermath
        r = rng.random()
        if r < 0.3:
            ops.append(['r', rng.choice([20, 150, 500])])
            ops.append(['x'])
        elif r < 0.5:
            ops.append(['z', rng.choice([50, 300, 900])])
            ops.append(['x'])
        elif r < 0.65:
            ops.append(['k'])
        elif r < 0.8:
            ops.append(['h'])
            ops.append(['r', 200])
        else:
            ops.append(['x'])
        return {'kind': 'raw', 'name': 'f%d' % idx, 'delay_ms': rng.choice([0, 30, 120, 300, 600]), 'ops': ops, 'fault': desc}


def witness(rng, idx, total_ms, background):
    ops = [['C', services(rng, allow_unsupported=False), rng.choice([0, 1]), 5, rng.choice([0, 0, 2])]]
    if background:
        ops.append(['Q', 1, 0, 0, 0])              # background priority, no channel request
    ops.append(['T', total_ms])
    ops.append(['D'])
    return {'kind': 'lib', 'name': 'w%d' % idx, 'delay_ms': 0, 'ops': ops, 'witness': True}


def token_lib_client(rng, idx, total_ms, skip, fz):
    ops = [['C', services(rng, allow_unsupported=False), 0, 5, 0]]
    orc = rng.choice([0, 1, 1, 2, 3])
    prio = rng.choice([1, 1, 1, 1, 1, 1, 2, 3, 0])
    if skip.get('ignore_reclaim') and (orc == 0 or prio > 1):
        fz.excluded += 1
        orc = rng.choice([1, 3]) if orc == 0 else orc
        prio = 1
    ops.append(['O', orc])
    ops.append(['G', rng.choice([0, 0, 0, 1, 2])])
    t = 0
    for rnd in range(rng.choice([1, 1, 2, 3])):
        ops.append(['Q', prio, rng.choice([0, 0x10, 0x10, 0x20, 0x40]), rng.choice([0, 0, 0, 1, 2]), 1])
        if rng.random() < 0.2:
            if skip.get('update_during_token_wait'):
                fz.excluded += 1
            else:
                ops.append(['T', rng.choice([0, 5, 30])])
                ops.append(['U', services(rng, allow_unsupported=False), 0, 0])
        if rng.random() < 0.15:
            if skip.get('lib_ioctl'):
                fz.excluded += 1
            else:
                ops.append(['I', rng.randrange(0, 16)])
        w = rng.choice([100, 300, 700])
        ops.append(['W', w])
        h = rng.choice([20, 100, 300])
        ops.append(['T', h])
        t += w + h
        a = rng.random()
        if a < 0.35:
            if skip.get('unheld_return'):
                fz.excluded += 1
                ops.append(['H', 2])           # return the token only if held
            else:
                ops.append(['N', 2])
        elif a < 0.6:
            ops.append(['N', 1])
        elif a < 0.7:
            ops.append(['N', rng.choice([3, 0, 16])])
        elif a < 0.8:
            ops.append(['K'] if rng.random() < 0.5 else ['D'])
            return {'kind': 'lib', 'name': 't%d' % idx, 'delay_ms': rng.choice([0, 50, 200, 500]), 'ops': ops}
        ops.append(['T', rng.choice([50, 200, 500])])
        if t > total_ms:
            break
    ops.append(['D'])
    return {'kind': 'lib', 'name': 't%d' % idx, 'delay_ms': rng.choice([0, 50, 200, 500]), 'ops': ops}


def token_raw_client(rng, idx, msgb, fz):
    """protocol conforming token participant written in raw messages (sees TOKEN_IND / RECLAIM_REQ itself)"""
    m, T = msgb, msgb.T
    svc = pref.VPS
    ops = [['c'], _send(m.raw(T['CONNECT_REQ'], m.connect_req(svc, name=b'tokraw%d' % idx)), t='CONNECT_REQ', benign=True, services=svc),
           ['w', T['CONNECT_CNF'], 1000]]
    for _ in range(rng.choice([1, 2, 3])):
        dur = rng.choice([0, 0, 1])
        if rng.random() < 0.2:
            if fz.skip.get('extreme_duration'):
                fz.excluded += 1
            else:
                dur = rng.choice([2 ** 63 - 1, -2 ** 63, -1, -2 ** 62])
        ops.append(_send(m.raw(T['CHN_TOKEN_REQ'], m.token_req(1, 1, rng.choice([0, 0x10, 0x20]), dur)), t='CHN_TOKEN_REQ', ask=True, rel=True,
                         fault=('min_duration=%d' % dur) if abs(dur) > 2 else None))
        if rng.random() < 0.25:
            if fz.skip.get('unheld_return'):
                fz.excluded += 1
            else:
                ops.append(['r', rng.choice([0, 20, 100])])
                ops.append(_send(m.raw(T['CHN_NOTIFY_REQ'], m.notify_req(2)), t='CHN_NOTIFY_REQ', rel=True, fault='token returned without waiting for the grant'))
        ops.append(['w', T['CHN_TOKEN_IND'], rng.choice([150, 400, 900])])
        ops.append(['r', rng.choice([20, 150])])
        a = rng.random()
        if a < 0.4:
            ops.append(_send(m.raw(T['CHN_NOTIFY_REQ'], m.notify_req(1)), t='CHN_NOTIFY_REQ', rel=True, release=True))
        elif a < 0.6:
            ops.append(_send(m.raw(T['CHN_RECLAIM_CNF'], b''), t='CHN_RECLAIM_CNF'))
        elif a < 0.7:
            break
        ops.append(['r', rng.choice([50, 300])])
    ops.append(['x'] if rng.random() < 0.7 else ['k'])
    return {'kind': 'raw', 'name': 'r%d' % idx, 'delay_ms': rng.choice([0, 100, 400]), 'ops': ops}


def barrier_client(rng, idx, msgb, delay):
    """one process with 2-4 connections made one after the other (neighbours in the daemon's client list) which fail or close
    back to back, so that the daemon finds several dead clients in one pass of its loop; repeated a few times"""
    m, T = msgb, msgb.T
    svc = rng.choice([0, pref.VPS, pref.WSS625, pref.CC625, pref.VPS | pref.WSS625])
    creq = m.raw(T['CONNECT_REQ'], m.connect_req(svc, name=b'multi%d' % idx)).hex()
    ops = []
    for rep in range(rng.choice([3, 4, 5, 6])):
        n = rng.choice([2, 2, 3, 3, 4])
        ops.append(['C', n, creq, {'t': 'CONNECT_REQ', 'benign': True, 'services': svc}])
        ops.append(['R', rng.choice([10, 30, 80])])
        ent, kinds = [], []
        for i in range(n):
            # a refused or misplaced message is noticed in the very pass that reads it; an EOF often only in a later one
            # (the daemon does not read from a client it has frames to write to), so plain closes are the minority
            k = rng.choice(['close', 'close_req', 'close_req', 'wrong_state', 'wrong_state', 'daemon_type', 'daemon_type', 'unknown_type',
                            'refused_len', 'keep'])
            if k == 'keep' and (i == 0 or kinds.count('keep')):
                k = 'close'
            kinds.append(k)
            if k == 'close':
                ent.append('-')
            elif k == 'keep':
                ent.append('=')
            elif k == 'close_req':
                ent.append(m.raw(T['CLOSE_REQ'], b'').hex())
            elif k == 'wrong_state':
                ent.append(m.raw(T['CONNECT_REQ'], m.connect_req(svc)).hex())
            elif k == 'daemon_type':
                ty = rng.choice(['CONNECT_CNF', 'CHN_TOKEN_IND', 'SERVICE_CNF', 'DAEMON_PID_CNF'])
                ent.append(m.raw(T[ty], bytes(m.L.get(ty, {}).get('size', 0))).hex())
            elif k == 'unknown_type':
                ent.append(m.raw(rng.choice([24, 30, 255, 0x7fffffff]), bytes(rng.choice([0, 8, 40]))).hex())
            else:
                ent.append(m.raw(T['SERVICE_REQ'], m.service_req(svc) + b'\0\0\0\0').hex())
        ops.append(['B', ent, {'t': 'barrier', 'fault': 'back to back: ' + '+'.join(kinds), 'fault_kills': True, 'services': svc}])
        ops.append(['R', rng.choice([30, 60, 120])])
    ops.append(['X'])
    return {'kind': 'raw', 'name': 'm%d' % idx, 'delay_ms': delay, 'ops': ops}


def reclaim_window_clients(rng, msgb, total):
    """A holds the token; B asks (A gets CHN_RECLAIM_REQ) and A deliberately does not answer for d ms; inside that window C asks
    too (or B asks again); then A confirms / returns.  Nobody withdraws inside the window, so finding F14 is not in reach."""
    m, T = msgb, msgb.T
    d = rng.choice([250, 400, 600])
    t_b = rng.choice([350, 450])
    x = rng.choice([40, 100, d // 2, d - 120])
    clients = []

    def con(n, svc):
        return _send(m.raw(T['CONNECT_REQ'], m.connect_req(svc, name=n)), t='CONNECT_REQ', benign=True, services=svc)

    # A
    if rng.random() < 0.6:
        ans = rng.choice(['cnf', 'cnf', 'return'])
        a_ops = [['c'], con(b'holderA', pref.VPS), ['w', T['CONNECT_CNF'], 1000],
                 _send(m.raw(T['CHN_TOKEN_REQ'], m.token_req(1, 1, 0x10, 0)), t='CHN_TOKEN_REQ', ask=True, rel=True),
                 ['w', T['CHN_TOKEN_CNF'], 500], ['w', T['CHN_RECLAIM_REQ'], 1500], ['r', d]]
        if ans == 'cnf':
            a_ops.append(_send(m.raw(T['CHN_RECLAIM_CNF'], b''), t='CHN_RECLAIM_CNF'))
        else:
            a_ops.append(_send(m.raw(T['CHN_NOTIFY_REQ'], m.notify_req(2)), t='CHN_NOTIFY_REQ', rel=True))
        a_ops += [['r', 250], ['x']]
        clients.append({'kind': 'raw', 'name': 'A', 'delay_ms': 150, 'ops': a_ops})
    else:
        clients.append({'kind': 'lib', 'name': 'A', 'delay_ms': 150,
                        'ops': [['C', pref.VPS, 0, 5, 0], ['O', 0], ['G', 0], ['Q', 1, 0x10, 0, 1], ['T', t_b - 150 + d], ['H', 2], ['T', 250], ['D']]})

    def asker(name, sub, t_req, again=None):
        if rng.random() < 0.5:
            ops = [['C', rng.choice([pref.VPS, pref.WSS625, pref.TTX_B]), 0, 5, 0], ['O', 1], ['G', 0], ['Q', 1, 0, 0, 0], ['T', t_req - 20],
                   ['Q', 1, sub, 0, 1]]
            if again:
                ops += [['T', again], ['Q', 1, sub, 0, 1]]
            ops += [['W', d + 400], ['T', 60], ['H', 1], ['T', 120], ['D']]
            return {'kind': 'lib', 'name': name, 'delay_ms': 0, 'ops': ops}
        ops = [['c'], con(name.encode(), pref.VPS), ['w', T['CONNECT_CNF'], 1000],
               _send(m.raw(T['CHN_TOKEN_REQ'], m.token_req(1, 0, 0, 0)), t='CHN_TOKEN_REQ', ask=False, rel=True), ['r', t_req - 20],
               _send(m.raw(T['CHN_TOKEN_REQ'], m.token_req(1, 1, sub, 0)), t='CHN_TOKEN_REQ', ask=True, rel=True)]
        if again:
            ops += [['r', again], _send(m.raw(T['CHN_TOKEN_REQ'], m.token_req(1, 1, sub, 0)), t='CHN_TOKEN_REQ', ask=True, rel=True)]
        ops += [['w', T['CHN_TOKEN_IND'], d + 400], ['r', 60],
                _send(m.raw(T['CHN_NOTIFY_REQ'], m.notify_req(1)), t='CHN_NOTIFY_REQ', rel=True, release=True), ['r', 120], ['x']]
        return {'kind': 'raw', 'name': name, 'delay_ms': 0, 'ops': ops}

    if rng.random() < 0.75:
        clients.append(asker('B', 0x20, t_b))
        clients.append(asker('C', rng.choice([0x30, 0x18, 0x40]), t_b + x))
    else:
        clients.append(asker('B', 0x20, t_b, again=x))
    return clients, t_b + d + 650


def gen_c19(rng, tier, skip, msgb):
    case = common(rng, 'C19', skip, allow_tsan=False)
    fz = Fuzz(rng, msgb, skip)
    total = rng.choice([900, 1300, 1800]) if tier == 'quick' else rng.choice([1300, 2200, 3200])
    if case['variant'] == 'thread' and (case.get('buffers') or 8) < 8:
        case['buffers'] = rng.choice([8, 16, 32])
    thread_period(case, 4)
    r_kind = rng.random()
    token_case = r_kind < 0.3
    window_case = 0.3 <= r_kind < 0.42
    barrier_case = 0.42 <= r_kind < 0.56
    clients = []
    for i in range(rng.choice([1, 1, 2])):
        clients.append(witness(rng, i, total, token_case or window_case))
    if window_case:
        case['kind'] = 'reclaim-window'
        more, total = reclaim_window_clients(rng, msgb, total)
        for w in clients:
            w['ops'][-2] = ['T', total]
        clients += more
    elif barrier_case:
        case['kind'] = 'barrier'
        total = max(total, 1900)
        for w in clients:
            w['ops'][-2] = ['T', total]
        clients.append(barrier_client(rng, 0, msgb, rng.choice([150, 250])))
        if rng.random() < 0.4:
            clients.append(barrier_client(rng, 1, msgb, rng.choice([160, 400, 700])))
        if rng.random() < 0.5:
            # somebody who connects afterwards must still be served
            clients.append({'kind': 'lib', 'name': 'late', 'delay_ms': rng.choice([1000, 1600]),
                            'ops': [['C', services(rng, allow_unsupported=False), 0, 5, 0], ['R', 20], ['D']]})
        if rng.random() < 0.3:
            clients.append(fz.client(5))
    elif token_case:
        case['kind'] = 'token'
        total = max(total, 1800)
        clients[0]['ops'][-2] = ['T', total]
        for i in range(rng.choice([2, 2, 3, 4])):
            if rng.random() < 0.75:
                clients.append(token_lib_client(rng, i, total, skip, fz))
            else:
                clients.append(token_raw_client(rng, i, msgb, fz))
        if rng.random() < 0.3:
            clients.append(fz.client(9))
    else:
        case['kind'] = 'fault'
        for i in range(rng.choice([1, 1, 2, 3, 4])):
            clients.append(fz.client(i))
    case['clients'] = clients
    case['_excluded'] = case.get('_excluded', 0) + fz.excluded
    return case
