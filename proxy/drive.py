#!/usr/bin/env python3
"""Stand-alone driver that mimics run_check()/replay of /verif/check for the proxy checks (does not touch /verif/evidence).
usage: drive.py C18|C19 [--tier quick|thorough] [--seed N] [--replay file] [--cases N] [--seconds S] [--known file.json]"""
import sys, os, json, time, types
ROOT = os.path.dirname(os.path.dirname(os.path.abspath(__file__)))
sys.path.insert(0, ROOT)
import proxy  # noqa: E402


class Outcome:
    def __init__(self):
        self.violations = []
        self.known_hits = []
        self.notes = []
        self.inconclusive = 0


def main():
    a = sys.argv[1:]
    pid = a[0]
    tier, seed, rep, cases, secs, knownf = 'quick', 1, None, None, None, os.path.join(ROOT, 'proxy', 'known_proposed.json')
    i = 1
    while i < len(a):
        if a[i] == '--tier': tier = a[i + 1]
        elif a[i] == '--seed': seed = int(a[i + 1])
        elif a[i] == '--replay': rep = a[i + 1]
        elif a[i] == '--cases': cases = int(a[i + 1])
        elif a[i] == '--seconds': secs = float(a[i + 1])
        elif a[i] == '--known': knownf = a[i + 1]
        i += 2
    chk = types.SimpleNamespace(PROPS={pid: {tier: {}}}, BUILD=os.path.join(ROOT, 'build'), ROOT=ROOT)
    if cases: chk.PROPS[pid][tier]['cases'] = cases
    if secs: chk.PROPS[pid][tier]['max_seconds'] = secs
    if rep:
        return proxy.replay(chk, pid, rep)
    known = json.load(open(knownf)) if os.path.exists(knownf) else {'known': [], 'fixed': []}
    out, ev = Outcome(), {}
    t0 = time.time()
    n = proxy.run(chk, pid, tier, seed, out, ev, known)
    wall = time.time() - t0
    ev['wall_s'] = round(wall, 1)
    ev['replays'] = n
    os.makedirs(os.path.join(ROOT, 'build', 'proxy-evidence'), exist_ok=True)
    json.dump(ev, open(os.path.join(ROOT, 'build', 'proxy-evidence', '%s-%s-%d.json' % (pid, tier, seed)), 'w'), indent=1)
    for line in out.known_hits: print(line)
    for x in out.notes: print('[note]', x, file=sys.stderr)
    print('[%s %s seed=%d] cases=%s nontrivial=%s distinct=%s inconclusive=%s excluded=%s rate=%s/s wall=%.1fs' % (
        pid, tier, seed, ev.get('evaluations'), ev.get('nontrivial'), ev.get('distinct_nontrivial'), ev.get('x_inconclusive'),
        ev.get('excluded_known'), ev.get('x_cases_per_second'), wall), file=sys.stderr)
    print('classes:', json.dumps(ev.get('classes'), sort_keys=True), file=sys.stderr)
    for sig, path, detail in out.violations:
        print('--- violation signature %s\n%s' % (sig, (detail or '')[:3000]))
        print('VIOLATION property=%s replay=%s' % (pid, path))
    return 1 if out.violations else 0


if __name__ == '__main__':
    sys.exit(main())
