#!/usr/bin/env python3
"""Writes the hand-made witness cases of the recorded findings (NOTES.md) to proxy/replay/<pid>/known-*.json, runs each three
times and prints the signatures.  usage: VERIF_REPO=... mk_known.py [name-filter]"""
import sys, os, json
ROOT = os.path.dirname(os.path.dirname(os.path.dirname(os.path.abspath(__file__))))
sys.path.insert(0, ROOT)
from proxy import proxy_check as pc, pgen, pref  # noqa: E402

ctx = pc.Ctx()
m = ctx.msgb
T = m.T
S = pgen._send


def base(pid, **kw):
    c = {'prop': pid, 'variant': 'select', 'opts': [], 'tsan': False, 'period_us': 4000, 'buffers': None}
    c.update(kw)
    return c


def lib(name, ops, delay=0):
    return {'kind': 'lib', 'name': name, 'delay_ms': delay, 'ops': ops}


def raw(name, ops, delay=0):
    return {'kind': 'raw', 'name': name, 'delay_ms': delay, 'ops': ops}


def con(n, svc=pref.VPS):
    return S(m.raw(T['CONNECT_REQ'], m.connect_req(svc, name=n)), t='CONNECT_REQ', benign=True, services=svc)


def treq(dur=0, sub=0x10):
    return S(m.raw(T['CHN_TOKEN_REQ'], m.token_req(1, 1, sub, dur)), t='CHN_TOKEN_REQ', ask=True, rel=True)


def ret(fault=None):
    return S(m.raw(T['CHN_NOTIFY_REQ'], m.notify_req(2)), t='CHN_NOTIFY_REQ', rel=True, fault=fault)


witness = lib('w0', [['C', pref.TTX_B, 0, 5, 0], ['T', 700], ['D']])
full_connect = m.raw(T['CONNECT_REQ'], m.connect_req(pref.VPS))
CASES = {
    # ---- C19
    ('C19', 'F2-partial-message'): base('C19', clients=[witness, raw('f0', [['c'], S(full_connect[:4], t='CONNECT_REQ', fault='first 4 bytes of a message, then silence', fault_kills=True), ['z', 300], ['x']], 100)]),
    ('C19', 'F10-short-header-length'): base('C19', clients=[witness, raw('f0', [['c'], S(m.raw(T['CONNECT_REQ'], b'', length=4) + bytes(range(256)) * 8, t='junk', fault='header length 4 followed by 2048 bytes', fault_kills=True), ['r', 200], ['x']], 100)]),
    ('C19', 'F11-long-header-length'): base('C19', clients=[witness, raw('f0', [['c'], S(m.raw(T['CONNECT_REQ'], b'', length=m.L['msg'] + 1), t='junk', fault='header length sizeof(VBIPROXY_MSG)+1', fault_kills=True), ['r', 200], ['x']], 100)]),
    ('C19', 'F4-service-req-strict-100'): base('C19', clients=[witness, raw('f0', [['c'], con(b'f0'), ['w', T['CONNECT_CNF'], 1000], S(m.raw(T['SERVICE_REQ'], m.service_req(pref.VPS, 100)), t='SERVICE_REQ', fault='strict=100', services=pref.VPS), ['r', 200], ['x']], 100)]),
    ('C19', 'F5-token-returned-by-non-holder'): base('C19', kind='token', clients=[
        lib('w0', [['C', pref.TTX_B, 0, 5, 0], ['Q', 1, 0, 0, 0], ['T', 1600], ['D']]),
        raw('r1', [['c'], con(b'r1'), ['w', T['CONNECT_CNF'], 1000], treq(), ['r', 100], ret(), ['r', 250], ret('token returned by a client that does not hold it'), ['r', 900], ['x']], 50),
        lib('t0', [['C', pref.VPS, 0, 5, 0], ['O', 0], ['G', 0], ['Q', 1, 0x10, 5, 1], ['T', 1200], ['D']], 250),
        raw('r2', [['c'], con(b'r2'), ['w', T['CONNECT_CNF'], 1000], treq(sub=0x40), ['r', 500], ['x']], 700)]),
    ('C19', 'F14-token-taken-from-holder-with-pending-reclaim'): base('C19', kind='token', period_us=500000, clients=[
        lib('w0', [['C', pref.TTX_B, 0, 5, 0], ['Q', 1, 0, 0, 0], ['T', 2500], ['D']]),
        lib('t1', [['C', pref.VPS, 0, 5, 0], ['O', 0], ['G', 0], ['Q', 1, 0, 0, 0], ['S', 800], ['Q', 1, 0x20, 0, 1], ['T', 700], ['D']]),
        raw('r0', [['c'], con(b'r0'), ['w', T['CONNECT_CNF'], 1000], treq(), ['r', 1900], ['x']], 100),
        raw('f9', [['c'], con(b'f9'), ['w', T['CONNECT_CNF'], 1000],
                   S(m.raw(T['CHN_TOKEN_REQ'], m.token_req(3, 1, 0x20, 0)), t='CHN_TOKEN_REQ', ask=True, rel=True), ['r', 300], ['x']], 400)]),
    ('C19', 'F12-client-library-ioctl-overflow'): base('C19', clients=[lib('c0', [['C', pref.VPS, 0, 5, 0], ['R', 3], ['I', 0], ['R', 3], ['D']])]),
    # ---- C18
    ('C18', 'F4-update-services-strict-100'): base('C18', clients=[lib('c0', [['C', pref.TTX_B, 0, 5, 0], ['R', 5], ['U', pref.VPS, 100, 0], ['R', 5], ['D']])]),
    ('C18', 'F6-line-count-equals-max-lines'): base('C18', opts=['dyn'], clients=[lib('c0', [['C', pref.VPS, 0, 5, 0], ['R', 10], ['D']])]),
    ('C18', 'F7-lines-beyond-old-line-count-dropped'): base('C18', opts=['dyn', 'pad'], clients=[
        lib('c0', [['C', pref.CC625, 0, 5, 0], ['T', 600], ['D']]), lib('c1', [['C', pref.SUPPORTED, 0, 5, 0], ['T', 300], ['D']], 150)]),
    ('C18', 'F9-acq-thread-before-parameters'): base('C18', variant='thread', tsan=True, startup_us=0, period_us=300, buffers=32, clients=[
        lib('c0', [['C', pref.TTX_B, 0, 5, 0], ['R', 20], ['D']])]),
    ('C18', 'F8-thread-variant-data-races'): base('C18', variant='thread', tsan=True, period_us=8000, buffers=32, clients=[
        lib('c0', [['C', pref.TTX_B, 0, 5, 0], ['T', 500], ['S', 300], ['T', 200], ['D']]),
        lib('c1', [['C', pref.VPS | pref.WSS625, 0, 5, 0], ['T', 300], ['U', pref.CC625, 1, 0], ['T', 300], ['D']], 100),
        lib('c2', [['C', pref.SUPPORTED, 0, 5, 0], ['T', 200], ['D']], 300)]),
}

flt = sys.argv[1] if len(sys.argv) > 1 else ''
for (pid, name), case in CASES.items():
    if flt not in name:
        continue
    sigs = []
    for _ in range(3):
        _, j = pc.execute(ctx, pid, case)
        sigs.append(sorted(s for s, _ in j.viol))
    common = set(sigs[0]) & set(sigs[1]) & set(sigs[2])
    print(pid, name, 'stable:', sorted(common), 'all:', sigs)
    case = dict(case)
    case['signature'] = sorted(common)[0] if common else None
    case['all_signatures'] = sorted(set(sum(sigs, [])))
    d = os.path.join(ROOT, 'proxy', 'replay', pid)
    os.makedirs(d, exist_ok=True)
    # findings that are still open keep the prefix known-, repaired ones are plain regression inputs (must pass)
    prefix = 'known-' if name.split('-')[0] in ('F8', 'F14') else 'fixed-'
    json.dump(case, open(os.path.join(d, '%s%s.json' % (prefix, name)), 'w'), indent=1)
