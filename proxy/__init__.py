"""C18/C19 proxy daemon checks.  `custom='proxy'` or `custom='proxy.proxy_check'` both resolve to these entry points
(/verif/check uses __import__(name), which returns the top-level package)."""
from .proxy_check import setup, run, replay  # noqa: F401
