"""Execute one case: a zvbid process on a simulated device plus client processes; collect logs."""
import os, re, time, json, shutil, signal, socket, struct, subprocess, itertools, threading

from . import pbuild

HERE = os.path.dirname(os.path.abspath(__file__))
_counter = itertools.count()
_lock = threading.Lock()

SAN_RE = re.compile(r'ERROR: (AddressSanitizer|ThreadSanitizer|LeakSanitizer)|WARNING: ThreadSanitizer|runtime error:|Assertion `|'
                    r'AddressSanitizer:DEADLYSIGNAL|Sanitizer CHECK failed')


def lib_script(cl):
    parts = []
    if cl.get('delay_ms'):
        parts.append('Z%d' % cl['delay_ms'])
    for op in cl['ops']:
        parts.append(op[0] + ','.join(str(int(x)) for x in op[1:]))
    return ';'.join(parts)


def raw_script(cl):
    parts = []
    if cl.get('delay_ms'):
        parts.append('z%d' % cl['delay_ms'])
    for op in cl['ops']:
        c = op[0]
        if c == 's':
            parts.append('s' + op[1])
        elif c == 'p':
            parts.append('p%d,%d,%s' % (op[1], op[2], op[3]))
        elif c == 'w':
            parts.append('w%d,%d' % (op[1], op[2]))
        elif c in ('r', 'z', 'R'):
            parts.append('%s%d' % (c, op[1]))
        elif c == 'C':
            parts.append('C%d,%s' % (op[1], op[2]))
        elif c == 'B':
            parts.append('B' + '/'.join(op[1]))
        else:
            parts.append(c)
    return ';'.join(parts)


def raw_op_index(cl):
    """script position of each op (the initial delay shifts the indices the client logs)"""
    return 1 if cl.get('delay_ms') else 0


def san_env(extra=None):
    e = dict(os.environ)
    e['ASAN_OPTIONS'] = 'detect_leaks=1:exitcode=99:handle_abort=1:symbolize=1:detect_stack_use_after_return=0:allocator_may_return_null=1'
    e['LSAN_OPTIONS'] = 'suppressions=%s:print_suppressions=0' % os.path.join(HERE, 'lsan-suppressions.txt')
    e['UBSAN_OPTIONS'] = 'print_stacktrace=1:halt_on_error=1:exitcode=98'
    e['TSAN_OPTIONS'] = 'exitcode=97:halt_on_error=0:second_deadlock_stack=1' + \
        ('' if os.environ.get('VERIF_PROXY_NO_TSAN_SUPP') else ':suppressions=' + os.path.join(HERE, 'tsan-suppressions.txt'))
    sym = shutil.which('llvm-symbolizer')
    if sym:
        e['ASAN_SYMBOLIZER_PATH'] = sym
    if extra:
        e.update(extra)
    return e


def dev_name(case, uid):
    mode = case.get('variant', 'select')
    for o in case.get('opts', []):
        mode += ',' + o
    return 'sim:%s:%s' % (mode, uid)


def probe_daemon(sock_path, msgb, timeout=3.0):
    """connect without services (does not open the device) -> pid of the daemon from CONNECT_CNF, or None.
    DAEMON_PID_REQ cannot be used: the daemon closes the connection before it writes the reply (see NOTES.md)."""
    try:
        s = socket.socket(socket.AF_UNIX, socket.SOCK_STREAM)
        s.settimeout(timeout)
        s.connect(sock_path)
        s.sendall(msgb.raw(msgb.T['CONNECT_REQ'], msgb.connect_req(0, name=b'probe')))
        buf = b''
        want = 8 + msgb.L['CONNECT_CNF']['size']
        while len(buf) < want:
            c = s.recv(want - len(buf))
            if not c:
                break
            buf += c
        s.close()
        if len(buf) < want:
            return None
        ln, ty = struct.unpack('>II', buf[:8])
        if ty != msgb.T['CONNECT_CNF']:
            return None
        off = 8 + msgb.L['DAEMON_PID_REQ']['size'] + 128
        return struct.unpack('<i', buf[off:off + 4])[0]
    except OSError:
        return None


def run_case(case, B, msgb, keep=False, debug=False, dump=False):
    """returns dict with raw material for the oracles (see poracle.judge)"""
    with _lock:
        uid = '%x-%d' % (os.getpid(), next(_counter))
    wd = os.path.join(pbuild.BUILD, 'proxy-run-%s' % uid)
    shutil.rmtree(wd, ignore_errors=True)
    os.makedirs(wd)
    dev = dev_name(case, uid)
    sock_path = '/tmp/vbiproxy' + dev
    simlog = os.path.join(wd, 'sim.log')
    period = int(case.get('period_us', 4000))
    res = {'dir': wd, 'dev': dev, 'clients': [], 'inconclusive': [], 'daemon_rc': None, 'daemon_err': '', 'simlog': [],
           'probe_pid': None, 'daemon_pid': None, 'closed_after': None, 'period_us': period}
    daemon = B['zvbid-tsan'] if case.get('tsan') else B['zvbid-asan']
    cmd = [daemon, '-nodetach', '-dev', dev]
    if case.get('buffers'):
        cmd += ['-buffers', str(int(case['buffers']))]
    if debug:
        cmd += ['-debug', '1']
    env = san_env({'VERIF_SIM_LOG': simlog, 'VERIF_SIM_PERIOD_US': str(period), 'VERIF_SIM_STARTUP_US': str(int(case.get('startup_us', 40000)))})
    derr = open(os.path.join(wd, 'daemon.err'), 'w')
    dp = subprocess.Popen(cmd, cwd=wd, env=env, stdin=subprocess.DEVNULL, stdout=subprocess.DEVNULL, stderr=derr)
    res['daemon_pid'] = dp.pid
    procs = []
    try:
        t0 = time.time()
        while not os.path.exists(sock_path) and dp.poll() is None and time.time() - t0 < 10:
            time.sleep(0.01)
        if not os.path.exists(sock_path):
            res['inconclusive'].append('daemon did not create its socket')
            return res
        cenv = san_env({'ASAN_OPTIONS': 'detect_leaks=0:exitcode=99:handle_abort=1:symbolize=1'})
        if dump:
            cenv['VERIF_DUMP'] = '1'
        for i, cl in enumerate(case['clients']):
            lg = os.path.join(wd, 'client-%d.log' % i)
            if cl['kind'] == 'lib':
                ccmd = [B['client'], 'lib', dev, cl.get('name', 'c%d' % i), lg, lib_script(cl)]
            else:
                ccmd = [B['client'], 'raw', sock_path, lg, raw_script(cl)]
            ce = open(os.path.join(wd, 'client-%d.err' % i), 'w')
            procs.append((subprocess.Popen(ccmd, cwd=wd, env=cenv, stdin=subprocess.DEVNULL, stdout=subprocess.DEVNULL, stderr=ce), ce, lg))
        deadline = time.time() + float(case.get('watchdog_s', 60))
        for i, (p, ce, lg) in enumerate(procs):
            try:
                rc = p.wait(timeout=max(0.1, deadline - time.time()))
            except subprocess.TimeoutExpired:
                p.kill()
                p.wait()
                rc = None
                res['inconclusive'].append('client %d hit the case watchdog' % i)
            ce.close()
            res['clients'].append({'rc': rc, 'log': _read(lg), 'err': _read(os.path.join(wd, 'client-%d.err' % i))})
        t_done = time.time()
        # the device must be closed once the last client has left
        if dp.poll() is None:
            t1 = time.time()
            while time.time() - t1 < 5.0:
                sl = _read(simlog).splitlines()
                state = None
                for ln in sl:
                    f = ln.split()
                    if len(f) >= 3 and f[2] in ('O', 'C'):
                        state = f[2]
                if state in (None, 'C'):
                    res['closed_after'] = time.time() - t_done
                    break
                time.sleep(0.02)
            res['open_at_end'] = res['closed_after'] is None
            res['probe_pid'] = probe_daemon(sock_path, msgb)
    finally:
        for p, ce, lg in procs:
            if p.poll() is None:
                p.kill()
                p.wait()
        if dp.poll() is None:
            dp.send_signal(signal.SIGTERM)
            try:
                try:
                    dp.wait(timeout=1.5)
                except subprocess.TimeoutExpired:
                    # the handler only sets a flag; when the signal arrives just before select() is entered (common under TSan,
                    # which defers handlers) the idle daemon sleeps on.  Shutdown is not part of C18/C19: wake it up.
                    res['sigterm_needed_wakeup'] = True
                    for _ in range(3):
                        try:
                            s = socket.socket(socket.AF_UNIX, socket.SOCK_STREAM)
                            s.settimeout(1.0)
                            s.connect(sock_path)
                            s.close()
                        except OSError:
                            pass
                        try:
                            dp.wait(timeout=4.5)
                            break
                        except subprocess.TimeoutExpired:
                            continue
                    dp.wait(timeout=1)
            except subprocess.TimeoutExpired:
                dp.kill()
                dp.wait()
                res['inconclusive'].append('daemon did not exit within 15 s after SIGTERM')
            res['daemon_alive_at_end'] = True
        else:
            res['daemon_alive_at_end'] = False
        res['daemon_rc'] = dp.returncode
        derr.close()
        res['daemon_err'] = _read(os.path.join(wd, 'daemon.err'))
        res['simlog'] = _read(simlog).splitlines()
        try:
            os.unlink(sock_path)
        except OSError:
            pass
        if not keep:
            shutil.rmtree(wd, ignore_errors=True)
    return res


def _read(p):
    try:
        with open(p, errors='replace') as f:
            return f.read()
    except OSError:
        return ''
