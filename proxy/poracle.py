"""Oracles of C18 / C19 over the logs of one executed case."""
import os, re

from . import pref

TAINT_FRAMES = 450          # after a stall the backlog (the daemon's send buffer, 212992 bytes / >= 704 bytes of skb per message,
                            # plus the daemon queue) may end in a gap this many frames later
DISC_GRACE = 2.0            # s the daemon may take to notice a closed connection (union oracle only)

EV_GRANTED, EV_CHANGED, EV_NORM, EV_RECLAIMED = 1, 2, 4, 8
CHN_RELEASE, CHN_TOKEN, CHN_FLUSH, CHN_NORM, CHN_FAIL = 1, 2, 4, 8, 16


def san_signature(pid, who, rc, err):
    """signature from the first sanitizer / assert report in err, or None"""
    m = re.search(r'^(\S+?):(\d+):\d+: runtime error: (.*)$', err, re.M)
    if m:
        what = re.sub(r'-?\d[\dxa-fA-F]*', 'N', m.group(3))[:60]
        return '%s:%s:ubsan:%s:%s:%s' % (pid, who, os.path.basename(m.group(1)), m.group(2), what.strip().replace(' ', '_'))
    m = re.search(r'(\S+?):(\d+): ([^\n]+?): Assertion `(.*?)\' failed', err)
    if m:
        fn = re.sub(r'\W', '', re.sub(r'\(.*$', '', m.group(3)).split()[-1])
        return '%s:%s:assert:%s:%s:%s' % (pid, who, os.path.basename(m.group(1)), fn, re.sub(r'\W+', '_', m.group(4))[:50])
    m = None if 'ThreadSanitizer' in err and 'SUMMARY: ThreadSanitizer' in err else \
        re.search(r'(ERROR|WARNING): (AddressSanitizer|ThreadSanitizer|LeakSanitizer): ([\w-]+)', err)
    if m:
        fn = '?'
        for fm in re.finditer(r'#\d+ 0x[0-9a-f]+ in (\S+) (\S+)', err[m.start():]):
            if '/src/' in fm.group(2) or '/daemon/' in fm.group(2):
                fn = fm.group(1)
                break
        tool = {'AddressSanitizer': 'asan', 'ThreadSanitizer': 'tsan', 'LeakSanitizer': 'lsan'}[m.group(2)]
        kind = m.group(3)
        if tool == 'lsan' or (tool == 'asan' and kind == 'detected'):
            tool, kind = 'lsan', 'leak'
        return '%s:%s:%s:%s:%s' % (pid, who, tool, kind, fn)
    m = re.search(r'SUMMARY: ThreadSanitizer: ([\w -]+?) (\S+?):(\d+)(?::\d+)? in (\S*)', err)
    if m:
        return tsan_sig(pid, who, m)
    if 'Sanitizer CHECK failed' in err:
        return '%s:%s:sanitizer-check-failed' % (pid, who)
    return None


def tsan_sig(pid, who, m):
    # by function, not by line: line numbers move with every edit of the file
    return '%s:%s:tsan:%s:%s:%s' % (pid, who, m.group(1).strip().replace(' ', '-'), os.path.basename(m.group(2)), m.group(4) or m.group(3))


def tsan_reports(pid, who, err):
    """every ThreadSanitizer report of a run (halt_on_error=0): [(signature, text)]"""
    out = []
    for blk in re.split(r'^==================\n', err, flags=re.M):
        m = re.search(r'SUMMARY: ThreadSanitizer: ([\w -]+?) (\S+?):(\d+)(?::\d+)? in (\S*)', blk)
        if m:
            out.append((tsan_sig(pid, who, m), blk[-3500:]))
    return out


# ---------------------------------------------------------------------------------------------------------------

def parse_lib_log(text):
    ev = []
    for ln in text.splitlines():
        f = ln.split()
        if not f:
            continue
        k = f[0]
        try:
            if k == 'F' and len(f) >= 7:
                ev.append(('F', float(f[1]), int(f[2]), int(f[3]), int(f[4]), int(f[5], 16), int(f[6])))
            elif k == 'CON' and len(f) >= 10:
                ev.append(('CON', float(f[1]), float(f[2]), int(f[3], 16), int(f[4]), int(f[5]), int(f[6], 16), int(f[7]), int(f[8]), f[9]))
            elif k == 'UPD0':
                ev.append(('UPD0', float(f[1])))
            elif k == 'UPD' and len(f) >= 10:
                ev.append(('UPD', float(f[1]), float(f[2]), int(f[3], 16), int(f[4]), int(f[5]), int(f[6], 16), int(f[7]), int(f[8]), int(f[9])))
            elif k == 'TOK0' and len(f) >= 6:
                ev.append(('TOK0', float(f[1]), int(f[2]), int(f[3]), int(f[4]), int(f[5])))
            elif k == 'TOK' and len(f) >= 9:
                ev.append(('TOK', float(f[1]), float(f[2]), int(f[3]), int(f[4]), int(f[5]), int(f[6]), int(f[7]), int(f[8])))
            elif k == 'NOT0' and len(f) >= 4:
                ev.append(('NOT0', float(f[1]), int(f[2]), int(f[3])))
            elif k == 'NOT' and len(f) >= 6:
                ev.append(('NOT', float(f[1]), float(f[2]), int(f[3]), int(f[4]), int(f[5])))
            elif k == 'EV' and len(f) >= 5:
                ev.append(('EV', float(f[1]), int(f[2]), int(f[3]), f[4]))
            elif k in ('STALL', 'STALLEND', 'DIS', 'KIL', 'TO', 'END', 'BEGIN', 'BUF', 'IOC', 'NOSUB'):
                ev.append((k, float(f[1])) + tuple(f[2:]))
            elif k == 'ERR':
                ev.append(('ERR', float(f[1]), ' '.join(f[2:])))
        except (ValueError, IndexError):
            continue            # a line cut short by a kill
    return ev


def parse_raw_log(text):
    ev = []
    for ln in text.splitlines():
        f = ln.split()
        if not f:
            continue
        try:
            k = f[0]
            if k == 'M' and len(f) >= 5:
                ev.append(('M', float(f[1]), int(f[2]), int(f[3]), int(f[4])))
            elif k == 'S0' and len(f) >= 4:
                ev.append(('S0', float(f[1]), int(f[2]), int(f[3])))
            elif k == 'S' and len(f) >= 5:
                ev.append(('S', float(f[1]), int(f[2]), int(f[3]), int(f[4])))
            elif k == 'SL' and len(f) >= 5:
                ev.append(('SL', float(f[1]), int(f[2]), int(f[3]), int(f[4])))
            elif k in ('CONN', 'EOF', 'RERR', 'SERR', 'CLOSE', 'SHUT', 'KIL', 'END', 'BEGIN', 'BADLEN'):
                ev.append((k, float(f[1])) + tuple(f[2:]))
        except (ValueError, IndexError):
            continue
    return ev


def case_has_flush(case):
    for cl in case['clients']:
        for op in cl['ops']:
            if cl['kind'] == 'lib' and op[0] == 'N' and (int(op[1]) & CHN_FLUSH):
                return True
            if cl['kind'] == 'raw' and op[0] in ('s', 'p'):
                meta = op[-1] if isinstance(op[-1], dict) else {}
                if meta.get('flush'):
                    return True
    return False


# ---------------------------------------------------------------------------------------------------------------

class Judge:
    def __init__(self, pid, case, res, ref=None):
        self.pid = pid
        self.case = case
        self.res = res
        self.ref = ref or pref.Ref()
        self.viol = []            # (signature, detail)
        self.inconclusive = list(res.get('inconclusive', []))
        self.classes = set()
        self.sessions = []        # per lib session: dict(client, t0, t1, end, G history)
        self.tok_events = []      # per client token timeline
        self.frames_checked = 0
        self.flush = case_has_flush(case)
        self.windows = None

    def v(self, sig, detail):
        if not any(s == sig for s, _ in self.viol):
            self.viol.append((sig, detail))

    # -------------------------------------------------------------------------------------------------------
    def window(self, n):
        """rows the simulated device sampled when frame n was captured (they follow the services with option dyn)"""
        if self.windows is None:
            self.windows = []
            for ln in self.res.get('simlog', []):
                f = ln.split()
                if len(f) < 3 or f[2] not in ('O', 'U'):
                    continue
                kv = dict(x.split('=', 1) for x in f[1:] if '=' in x)
                try:
                    c0, c1 = kv['count'].split('+')
                    s0, s1 = kv['start'].split('+')
                    self.windows.append((int(kv['n']), (int(s0), int(c0), int(s1), int(c1))))
                except (KeyError, ValueError):
                    continue
        w = None
        for n0, win in self.windows:
            if n0 <= n:
                w = win
            else:
                break
        return w

    def judge_processes(self):
        r = self.res
        err = r.get('daemon_err', '')
        ts = tsan_reports(self.pid, 'daemon', err)
        for s_, d_ in ts:
            self.v(s_, d_)
        rest = re.sub(r'^==================\nWARNING: ThreadSanitizer.*?^==================\n', '', err, flags=re.M | re.S)
        rest = re.sub(r'^(ThreadSanitizer: reported \d+ warnings|SUMMARY: ThreadSanitizer.*)$', '', rest, flags=re.M)
        sig = san_signature(self.pid, 'daemon', r.get('daemon_rc'), rest)
        if sig:
            self.v(sig, rest[-3500:])
        elif not r.get('daemon_alive_at_end', True) and not any('socket' in s for s in self.inconclusive):
            self.v('%s:daemon:exited:rc=%s' % (self.pid, r.get('daemon_rc')), 'daemon terminated before SIGTERM\n' + err[-2000:])
        elif r.get('daemon_rc') not in (0, None) and r.get('daemon_alive_at_end') and not (ts and r.get('daemon_rc') in (97, 98)):
            self.v('%s:daemon:exit-status:%s' % (self.pid, r.get('daemon_rc')), err[-2000:])
        if r.get('daemon_alive_at_end') and r.get('probe_pid') != r.get('daemon_pid'):
            self.inconclusive.append('daemon alive but did not answer a connect request within 3 s (pid %s, got %s)' % (r.get('daemon_pid'), r.get('probe_pid')))
        for i, c in enumerate(r['clients']):
            if c['rc'] not in (0, None):
                s = san_signature(self.pid, 'client', c['rc'], c['err'])
                self.v(s or '%s:client:exit:%s' % (self.pid, c['rc']), 'client %d (%s)\n%s' % (i, self.case['clients'][i]['kind'], c['err'][-3000:]))

    # -------------------------------------------------------------------------------------------------------
    def judge_lib_client(self, idx):
        cl = self.case['clients'][idx]
        ev = parse_lib_log(self.res['clients'][idx]['log'])
        name = cl.get('name', 'c%d' % idx)
        P = self.pid
        G = None
        sess = None
        prev = None
        gap_ok = False
        taint = 0
        lost = False
        tok = []
        for e in ev:
            k = e[0]
            if k == 'CON':
                _, t0, t1, req, strict, ok, granted, c0, c1, err = e
                if ok:
                    G = granted
                    sess = {'client': idx, 't0': t0, 't1': t1, 'end': None, 'G': [(t0, t1, None, granted)], 'req': req}
                    self.sessions.append(sess)
                    prev = None
                    gap_ok = False
                    taint = 0
                    lost = False
                    if granted & ~req:
                        self.v(P + ':granted-not-requested', '%s connect req=0x%x granted=0x%x' % (name, req, granted))
                    if granted != (req & pref.SUPPORTED):
                        self.classes.add('grant-differs-from-supported')
                    if granted != req:
                        self.classes.add('granted-fewer-than-requested')
                else:
                    G = None
                    sess = None
                    self.classes.add('connect-rejected')
                    if (req & pref.SUPPORTED) and 'cannot_capture' not in err and 'Sorry' not in err:
                        self.classes.add('connect-failed-other')
                        self.connect_failures.append((name, err))
                tok.append(('conn', t0, ok))
            elif k == 'F':
                _, t, n, exact, nl, dig, fmt = e
                if G is None:
                    continue
                self.frames_checked += 1
                if G == 0:
                    # connected but subscribed to nothing (all services dropped, or none granted): no frame is due.  The library discards what
                    # arrives while it waits for the reply to its own request, so a frame logged here was sent after the daemon had processed it
                    self.v(P + ':frame-without-subscription', '%s received frame %d (%d lines) although no service is granted to it' % (name, n, nl))
                    self.classes.add('frame-without-subscription')
                if not exact:
                    self.v(P + ':timestamp-not-n/25', '%s frame n=%d timestamp differs from n/25.0' % (name, n))
                if prev is not None:
                    if n == prev:
                        self.v(P + ':duplicate-frame', '%s received frame %d twice' % (name, n))
                    elif n < prev:
                        self.v(P + ':reordered-frame', '%s received frame %d after %d' % (name, n, prev))
                    elif n > prev + 1:
                        self.classes.add('gap-seen')
                        if not (gap_ok or taint > 0 or self.flush):
                            self.v(P + ':gap:client-keeping-up', '%s lost frames %d..%d (no stall, no own request in between; case has %d clients)'
                                   % (name, prev + 1, n - 1, len(self.case['clients'])))
                        elif taint > 0 and not gap_ok:
                            self.classes.add('gap-after-stall')
                win = self.window(n)
                ec, ed = self.ref.expect(n, G, win)
                if nl != ec or dig != ed or not fmt:
                    kind = 'missing-lines' if nl < ec else ('extra-lines' if nl > ec else 'wrong-content')
                    if 'dyn' in self.case.get('opts', []):
                        kind += ':dyn-window'
                    self.v('%s:content:%s' % (P, kind), '%s frame %d granted=0x%x: got %d lines digest %016x fmt=%d, expected %d lines digest %016x\nexpected lines: %s'
                           % (name, n, G, nl, dig, fmt, ec, ed, ' | '.join(self.ref.describe(n, G, win))))
                prev = n
                gap_ok = False
                if taint > 0:
                    taint -= 1
            elif k == 'IOC':
                gap_ok = True
            elif k == 'UPD0':
                gap_ok = True
            elif k == 'UPD':
                _, t0, t1, S, strict, reset, ret, err, c0, c1 = e
                gap_ok = True
                if G is not None:
                    old = G
                    base = 0 if reset else (G & ~S)
                    G = base | (0 if err else ret)
                    if ret & ~S:
                        self.v(P + ':granted-not-requested', '%s update req=0x%x returned=0x%x' % (name, S, ret))
                    if sess is not None:
                        sess['G'].append((t0, t1, old, G))
                    self.classes.add('service-change')
                    if err:
                        self.classes.add('service-change-rejected')
            elif k in ('STALL',):
                self.classes.add('stall')
            elif k == 'STALLEND':
                gap_ok = True
                taint = TAINT_FRAMES
            elif k == 'TOK0':
                gap_ok = True
                tok.append(('req0', e[1], e[2], e[5]))
            elif k == 'TOK':
                gap_ok = True
                tok.append(('req', e[1], e[2], e[3], e[7], e[8]))
            elif k == 'NOT0':
                gap_ok = True
                tok.append(('not0', e[1], e[2]))
            elif k == 'NOT':
                gap_ok = True
                tok.append(('not', e[1], e[2], e[3], e[4]))
            elif k == 'EV':
                _, t, mask, has, ctx = e
                if mask & EV_CHANGED:
                    gap_ok = True
                tok.append(('ev', t, mask, has, ctx))
            elif k in ('DIS', 'KIL', 'END'):
                if sess is not None and sess['end'] is None:
                    sess['end'] = e[1]
                if k != 'END' or G is not None:
                    tok.append(('gone', e[1]))
                if k in ('DIS', 'KIL'):
                    G = None
                    sess = None
            elif k == 'TO':
                self.inconclusive.append('%s: no frame for 8 s while subscribed (watchdog)' % name)
            elif k == 'ERR':
                if G is not None and not lost:
                    lost = True
                    self.lost_connections.append((name, e[2]))
        if self.res['clients'][idx]['rc'] != 0 and ev:
            # the process died (sanitizer abort, watchdog kill): its connection went away no earlier than its last log line
            t_last = max(e[1] for e in ev)
            if sess is not None and sess['end'] is None:
                sess['end'] = t_last
            tok.append(('gone', t_last))
        self.tok_events.append((idx, name, 'lib', tok))

    # -------------------------------------------------------------------------------------------------------
    def judge_raw_client(self, idx):
        cl = self.case['clients'][idx]
        ev = parse_raw_log(self.res['clients'][idx]['log'])
        name = cl.get('name', 'f%d' % idx)
        shift = 1 if cl.get('delay_ms') else 0
        T = None
        tok = []
        reached_forward = False
        sent_after_forward = 0
        for e in ev:
            k = e[0]
            if k == 'S0':
                opi = e[2] - shift
                meta = {}
                if 0 <= opi < len(cl['ops']) and isinstance(cl['ops'][opi][-1], dict):
                    meta = cl['ops'][opi][-1]
                tok.append(('send', e[1], meta))
                if reached_forward and meta.get('fault'):
                    sent_after_forward += 1
            elif k == 'M':
                _, t, ty, ln, extra = e
                tok.append(('recv', t, ty, extra))
                if ty == 1:
                    reached_forward = True
            elif k in ('CLOSE', 'KIL', 'EOF', 'RERR', 'END', 'SHUT'):
                tok.append(('gone', e[1]))
            elif k == 'SL':
                self.classes.add('raw-client-got-frames')
                if cl.get('continuity'):
                    # a conforming raw client that never changes its own services and pauses only for a few frame periods (inside
                    # a message of its own) keeps up: the frames it receives are consecutive
                    _, t, count, first, last = e
                    if count != last - first + 1:
                        self.v(self.pid + ':gap:split-message-client', '%s: %d frames received in a row, numbers %d..%d' % (name, count, first, last))
                    elif getattr(self, '_sl_last_%d' % idx, None) is not None and first != getattr(self, '_sl_last_%d' % idx) + 1:
                        self.v(self.pid + ':gap:split-message-client', '%s: frame %d follows frame %d although the client only paused for a few frame periods inside a message of its own while another client changed its services' % (name, first, getattr(self, '_sl_last_%d' % idx)))
                    setattr(self, '_sl_last_%d' % idx, last)
                    self.classes.add('split-message-client-frames')
        if reached_forward and sent_after_forward:
            self.classes.add('fault-in-forward-state')
            self.nt_fault = True
        if reached_forward:
            self.classes.add('raw-connected')
        if self.res['clients'][idx]['rc'] != 0 and ev:
            tok.append(('gone', max(e[1] for e in ev)))
        self.tok_events.append((idx, name, 'raw', tok))

    # -------------------------------------------------------------------------------------------------------
    def judge_device(self):
        """open/close and service union from the adapter log"""
        P = self.pid
        lines = []
        for ln in self.res.get('simlog', []):
            f = ln.split()
            if len(f) < 3:
                continue
            try:
                t = float(f[0])
            except ValueError:
                continue
            kv = dict(x.split('=', 1) for x in f[3:] if '=' in x)
            lines.append((t, f[2], kv))
        state = None
        for t, k, kv in lines:
            if k == 'O':
                if state == 'O':
                    self.v(P + ':device-opened-twice', 'adapter log: open while open')
                state = 'O'
            elif k == 'C':
                state = 'C'
        if lines:
            self.classes.add('device-opened')
        if self.res.get('daemon_alive_at_end') and self.res.get('open_at_end') and not any('watchdog' in s for s in self.inconclusive):
            self.v(P + ':device-not-closed', 'all clients left, the simulated device was still open 5 s later\n' + '\n'.join(self.res['simlog'][-6:]))
        # rounds of update_services calls
        rounds = []
        cur = None
        for t, k, kv in lines:
            if k == 'U':
                if kv.get('reset') == '1' or cur is None:
                    cur = {'t': t, 'all': 0, 'calls': 0}
                    rounds.append(cur)
                cur['t'] = t
                cur['all'] = int(kv.get('all', '0'), 16)
                cur['calls'] += 1
            elif k in ('O', 'C'):
                cur = None
        raw_maybe = 0
        raw_present = False
        for cl in self.case['clients']:
            if cl['kind'] == 'raw':
                raw_present = True
                for op in cl['ops']:
                    if op[0] in ('s', 'p', 'C', 'B') and isinstance(op[-1], dict):
                        raw_maybe |= int(op[-1].get('services', 0))
        for rd in rounds:
            T = rd['t']
            definite = 0
            maybe = raw_maybe & pref.SUPPORTED if raw_present else 0
            for s in self.sessions:
                end = s['end']
                if s['t0'] > T:
                    continue
                if end is not None and end + DISC_GRACE < T:
                    continue
                g_def = None
                g_may = 0
                for (t0, t1, old, new) in s['G']:
                    if t1 < T:
                        g_def = new
                        g_may = 0
                    elif t0 <= T + 0.0005:
                        g_may |= new | (old or 0)
                        g_def = None
                        break
                if end is not None and end <= T:
                    maybe |= (g_def or 0) | g_may
                else:
                    definite |= (g_def or 0)
                    maybe |= g_may
            acc = rd['all']
            if (definite & ~acc) or (acc & ~(definite | maybe)):
                self.v(P + ':device-services-not-union', 'adapter round at %.6f: device services 0x%x, clients surely connected hold 0x%x, '
                       'possibly 0x%x\nsessions: %s' % (T, acc, definite, maybe,
                                                        [(s['client'], s['t0'], s['end'], [(a, b, c, '0x%x' % d) for a, b, c, d in s['G']]) for s in self.sessions]))
        self.rounds = len(rounds)

    # -------------------------------------------------------------------------------------------------------
    def judge_token(self):
        """hold intervals as seen by the clients must not overlap; grants only to clients that asked"""
        P = self.pid
        TY = {'TOKEN_CNF': 9, 'TOKEN_IND': 10, 'NOTIFY_CNF': 12, 'RECLAIM_REQ': 13}
        holds = []
        askers = 0
        withdrawals = []        # (time, client): it left, released its request or lowered it to "priority only"
        for idx, name, kind, tl in self.tok_events:
            for e in tl:
                if e[0] == 'gone':
                    withdrawals.append((e[1], name))
                elif kind == 'lib' and e[0] == 'not0' and (e[2] & CHN_RELEASE):
                    withdrawals.append((e[1], name))
                elif kind == 'lib' and e[0] == 'req0' and not e[3]:
                    withdrawals.append((e[1], name))
                elif kind == 'raw' and e[0] == 'send':
                    for pm in (e[2].get('parts') or [e[2]]):
                        if pm.get('release') or pm.get('fault_kills') or (pm.get('t') == 'CHN_TOKEN_REQ' and not pm.get('ask')):
                            withdrawals.append((e[1], name))
        for idx, name, kind, tl in self.tok_events:
            asked_t = None           # time of the last valid request sent
            released_t = None        # completion time of a RELEASE after which no request was sent
            hold = None
            pending_rel = 0
            notq = []
            tokq = 0
            asked_any = False

            def start(t, how):
                nonlocal hold
                if hold is None:
                    hold = [t, None, name, how, False]
                    holds.append(hold)

            def stop(t):
                nonlocal hold
                if hold is not None:
                    hold[1] = t
                    hold = None

            def granted(t, how):
                if asked_t is None:
                    self.v(P + ':token-granted-unasked', '%s was granted the token (%s at %.6f) but never requested channel control' % (name, how, t))
                elif released_t is not None and released_t < t:
                    self.v(P + ':token-granted-after-release', '%s was granted the token (%s at %.6f) after its release was confirmed at %.6f' % (name, how, t, released_t))
                self.classes.add('token-granted')
                start(t, how)

            if kind == 'lib':
                req_hold = None         # hold started by the GRANTED callback inside the pending channel request
                req_ev = False
                for e in tl:
                    k = e[0]
                    if k == 'req0':
                        stop(e[1])
                        if e[3]:
                            asked_t = e[1]
                            asked_any = True
                        released_t = None
                        req_hold = None
                        req_ev = False
                    elif k == 'req':
                        if e[4] == 1 and not req_ev:
                            granted(e[2], 'TOKEN_CNF')
                        elif e[4] != 1 and req_ev:
                            # TOKEN_IND overtaken by the request: the confirmation says the token is not held
                            self.classes.add('token-grant-ambiguous')
                            if req_hold is not None and req_hold in holds:
                                holds.remove(req_hold)
                            if hold is req_hold:
                                hold = None
                        req_hold = None
                        req_ev = False
                    elif k == 'not0':
                        if e[2] & (CHN_TOKEN | CHN_RELEASE):
                            stop(e[1])
                    elif k == 'not':
                        if (e[3] & CHN_RELEASE) and e[4] == 0:
                            released_t = e[2]
                    elif k == 'ev':
                        _, t, mask, has, ctx = e
                        if mask & EV_GRANTED:
                            if ctx == 'r':
                                granted(t, 'TOKEN_IND')
                            elif ctx == 'q':
                                # the callback runs inside vbi_proxy_client_channel_request(), before it returns
                                req_ev = True
                                granted(t, 'TOKEN_CNF')
                                req_hold = hold
                            else:
                                self.classes.add('token-grant-ambiguous')
                        if mask & EV_RECLAIMED:
                            self.classes.add('token-reclaimed')
                            if hold is not None:
                                hold[4] = True
                    elif k == 'gone':
                        stop(e[1])
                    elif k == 'conn':
                        stop(e[1])
                        asked_t = None
                        released_t = None
            else:
                tl2 = []
                for e in tl:
                    if e[0] == 'send' and e[2].get('parts'):
                        tl2.extend(('send', e[1], pm) for pm in e[2]['parts'])
                    else:
                        tl2.append(e)
                for e in tl2:
                    k = e[0]
                    if k == 'send':
                        meta = e[2]
                        if not meta.get('benign'):
                            stop(e[1])
                        if meta.get('t') == 'CHN_TOKEN_REQ' and not meta.get('fault_kills'):
                            tokq += 1
                            if meta.get('ask'):
                                asked_t = e[1]
                                asked_any = True
                                released_t = None
                            pending_rel += 1
                        elif meta.get('t') == 'CHN_NOTIFY_REQ' and not meta.get('fault_kills'):
                            rel = bool(meta.get('rel'))
                            notq.append((rel, bool(meta.get('release')), e[1]))
                            if rel:
                                pending_rel += 1
                        elif meta.get('t') == 'CONNECT_REQ':
                            asked_t = None
                    elif k == 'recv':
                        _, t, ty, extra = e
                        if ty == TY['TOKEN_CNF']:
                            if tokq > 0:
                                tokq -= 1
                                pending_rel -= 1
                            if extra == 1:
                                if pending_rel > 0:
                                    self.classes.add('token-grant-ambiguous')
                                else:
                                    granted(t, 'TOKEN_CNF')
                        elif ty == TY['TOKEN_IND']:
                            if pending_rel > 0:
                                self.classes.add('token-grant-ambiguous')
                            else:
                                granted(t, 'TOKEN_IND')
                        elif ty == TY['NOTIFY_CNF']:
                            if notq:
                                rel, release, t_send = notq.pop(0)
                                if rel:
                                    pending_rel -= 1
                                if release and (asked_t is None or asked_t < t_send):
                                    released_t = t
                        elif ty == TY['RECLAIM_REQ']:
                            self.classes.add('token-reclaimed')
                            if hold is not None:
                                hold[4] = True
                    elif k == 'gone':
                        stop(e[1])
            if asked_any:
                askers += 1
        holds.sort(key=lambda h: h[0])
        for i in range(len(holds)):
            a = holds[i]
            for b in holds[i + 1:]:
                if b[2] == a[2]:
                    continue
                a_end = a[1] if a[1] is not None else float('inf')
                if b[0] < a_end:
                    # The holder had been asked to give the token back and had not answered yet.  Finding F14 needs in addition
                    # that the daemon re-schedules the holder, i.e. that some other client left or withdrew its request while
                    # the holder held the token; without such an event this is a different defect.
                    if a[4] and any(a[0] <= t <= b[0] + 0.002 and who != a[2] for t, who in withdrawals):
                        shape = ':holder-had-reclaim-pending'
                    elif a[4]:
                        shape = ':during-reclaim-window'
                    else:
                        shape = ''
                    self.v(P + ':token-two-holders' + shape, '%s holds the token from %.6f (%s) until %s%s; %s was granted it at %.6f (%s)'
                           % (a[2], a[0], a[3], 'the end' if a[1] is None else '%.6f' % a[1],
                              ' and had not answered a reclaim request' if a[4] else '', b[2], b[0], b[3]))
        self.token_askers = askers
        self.token_holds = len(holds)
        if askers >= 2:
            self.classes.add('token-competition')

    # -------------------------------------------------------------------------------------------------------
    def run(self):
        self.connect_failures = []
        self.lost_connections = []
        self.nt_fault = False
        self.judge_processes()
        for i, cl in enumerate(self.case['clients']):
            if i >= len(self.res['clients']):
                break
            if cl['kind'] == 'lib':
                self.judge_lib_client(i)
            else:
                self.judge_raw_client(i)
        self.judge_device()
        self.judge_token()
        P = self.pid
        daemon_dead = not self.res.get('daemon_alive_at_end', True)
        if daemon_dead:
            # everything else is a consequence of the daemon's death
            self.viol = [v for v in self.viol if ':daemon:' in v[0]]
            return self
        if self.lost_connections and not daemon_dead:
            # a well-behaved client must not lose its connection; fuzz clients cost at most their own
            self.v(P + ':well-behaved-client-lost-connection', '; '.join('%s: %s' % x for x in self.lost_connections))
        if self.connect_failures and not daemon_dead:
            self.v(P + ':connect-failed', '; '.join('%s: %s' % x for x in self.connect_failures))
        return self

    def nontrivial(self):
        if self.pid == 'C18':
            if 'split-message-client-frames' in self.classes and 'service-change' in self.classes:
                return True
            # >= 2 clients with different service sets overlapping in time and a stall or a service change
            if not ({'stall', 'service-change'} & self.classes):
                return False
            for i, a in enumerate(self.sessions):
                for b in self.sessions[i + 1:]:
                    if a['client'] == b['client']:
                        continue
                    ae = a['end'] or float('inf')
                    be = b['end'] or float('inf')
                    if a['t1'] < be and b['t1'] < ae and a['G'][0][3] != b['G'][0][3]:
                        return True
            return False
        return self.nt_fault or ('token-competition' in self.classes and self.token_holds > 0)
