"""C18 / C19: process-level checks of the VBI proxy daemon (custom harness interface of /verif/check).

setup(chk, pid)                                 build
run(chk, pid, tier, seed, out, ev, known)       campaign; returns the number of replay files run
replay(chk, pid, path)                          re-run one case file, print the verdict
"""
import os, sys, json, time, glob, random, hashlib, shutil, re, copy, fnmatch
from concurrent.futures import ThreadPoolExecutor, as_completed

from . import pbuild, pcase, poracle, pgen, pref

HERE = os.path.dirname(os.path.abspath(__file__))

TIERS = {
    'C18': {'quick': dict(cases=700, max_seconds=130, par=16), 'thorough': dict(cases=6500, max_seconds=1080, par=16)},
    'C19': {'quick': dict(cases=600, max_seconds=130, par=16, msgfuzz=40000), 'thorough': dict(cases=6000, max_seconds=1080, par=16, msgfuzz=800000)},
}


def log(*a):
    print(*a, file=sys.stderr, flush=True)


def sanitize(s):
    return re.sub(r'[^A-Za-z0-9_.-]', '_', s)[:90]


def skip_flags():
    skip = dict(pgen.DEFAULT_SKIP)
    for k in os.environ.get('VERIF_PROXY_NOSKIP', '').split(','):
        k = k.strip()
        if k == 'all':
            for kk in skip:
                skip[kk] = False
        elif k in skip:
            skip[k] = False
    return skip


def tier_conf(chk, pid, tier):
    c = dict(TIERS[pid][tier])
    try:
        c.update(chk.PROPS[pid].get(tier) or {})
    except Exception:
        pass
    return c


def case_hash(case):
    c = {k: v for k, v in case.items() if not k.startswith('_')}
    return hashlib.sha1(json.dumps(c, sort_keys=True).encode()).hexdigest()


def describe(case, full=False):
    head = '%s%s%s period=%dus buffers=%s' % (case.get('variant'), ''.join(',' + o for o in case.get('opts', [])), ' TSan' if case.get('tsan') else '',
                                            case.get('period_us', 4000), case.get('buffers'))
    parts = []
    for cl in case['clients']:
        if cl['kind'] == 'lib':
            ops = ' '.join(op[0] + ','.join(('0x%x' % x if (op[0] in 'CU' and i == 0) else str(x)) for i, x in enumerate(op[1:])) for op in cl['ops'])
        else:
            o = []
            for op in cl['ops']:
                if op[0] in ('s', 'p', 'B'):
                    meta = op[-1] if isinstance(op[-1], dict) else {}
                    o.append('%s<%s%s>' % (op[0], meta.get('t', '?'), (' FAULT ' + str(meta['fault'])) if meta.get('fault') else ''))
                elif op[0] == 'C':
                    o.append('C%d' % op[1])
                else:
                    o.append(op[0] + ','.join(str(x) for x in op[1:]))
            ops = ' '.join(o)
        if not full and len(ops) > 150:
            ops = ops[:150] + '...'
        parts.append('%s+%dms[%s]' % (cl.get('name', '?'), cl.get('delay_ms', 0), ops))
    return head + ' | ' + ' | '.join(parts)


class Ctx:
    def __init__(self):
        src = os.path.join(pbuild.repo(), 'daemon', 'proxyd.c')
        try:
            hooked = 'ZVBI_VERIF' in open(src, errors='replace').read()
        except OSError:
            hooked = False
        if not hooked:
            log('[error] %s lacks the ZVBI_VERIF hook (apply /verif/proxy/hook.patch): zvbid cannot run without hardware' % src)
            raise SystemExit(2)
        self.B = pbuild.build()
        self.msgb = pref.Msg(self.B['layout'])
        self.ref = None


def execute(ctx, pid, case, keep=False, debug=False, dump=False):
    res = pcase.run_case(case, ctx.B, ctx.msgb, keep=keep, debug=debug, dump=dump)
    j = poracle.Judge(pid, case, res).run()
    return res, j


def generate(ctx, pid, tier, seed, i, skip):
    rng = random.Random('%s:%s:%d' % (seed, pid, i))
    if pid == 'C18':
        if i % 8 == 5:      # every eighth case: the split-message scenario (chosen by the case number, so that the other cases stay as they were)
            return pgen.gen_c18_split(rng, tier, skip, ctx.msgb)
        if i % 16 == 11:    # and every sixteenth: readers that receive channel change indications between their frames
            return pgen.gen_c18_indication(rng, tier, skip)
        return pgen.gen_c18(rng, tier, skip)
    return pgen.gen_c19(rng, tier, skip, ctx.msgb)


# ---------------------------------------------------------------------------------------------------------------
def shrink(ctx, pid, case, sig, budget_runs=30, budget_s=120):
    t0 = time.time()
    runs = [0]

    def fails(c):
        if runs[0] >= budget_runs or time.time() - t0 > budget_s:
            return False
        runs[0] += 1
        _, j = execute(ctx, pid, c)
        return any(s == sig for s, _ in j.viol)

    cur = copy.deepcopy(case)
    progress = True
    while progress:
        progress = False
        i = 0
        while len(cur['clients']) > 1 and i < len(cur['clients']):
            c = copy.deepcopy(cur)
            del c['clients'][i]
            if fails(c):
                cur = c
                progress = True
            else:
                i += 1
        for ci in range(len(cur['clients'])):
            oi = len(cur['clients'][ci]['ops']) - 1
            while oi >= 1:
                c = copy.deepcopy(cur)
                del c['clients'][ci]['ops'][oi]
                if fails(c):
                    cur = c
                    progress = True
                oi -= 1
        for ci in range(len(cur['clients'])):
            if cur['clients'][ci].get('delay_ms'):
                c = copy.deepcopy(cur)
                c['clients'][ci]['delay_ms'] = 0
                if fails(c):
                    cur = c
                    progress = True
        if runs[0] >= budget_runs or time.time() - t0 > budget_s:
            break
    return cur, runs[0]


def confirm(ctx, pid, case, sig, times=3):
    ok = 0
    detail = ''
    for _ in range(times):
        _, j = execute(ctx, pid, case)
        for s, d in j.viol:
            if s == sig:
                ok += 1
                detail = d
                break
    return ok, detail


def known_entry(pid, known, sig):
    """entry of known_findings.json for this signature; the signature of an entry may be a glob pattern"""
    for k in known.get('known', []):
        if k.get('property') == pid and (k.get('signature') == sig or fnmatch.fnmatchcase(sig, k.get('signature', ''))):
            return k
    return None


def register(chk, pid, out, known, sig, path, detail):
    for k in [known_entry(pid, known, sig)]:
        if k is not None:
            line = 'KNOWN-FINDING: property=%s %s' % (pid, k.get('what', sig))
            if line not in out.known_hits:
                out.known_hits.append(line)
            return 'known'
    if not any(v[0] == sig for v in out.violations):
        out.violations.append((sig, path, detail))
    return 'violation'


def save_case(dirp, sig, case, extra=None):
    os.makedirs(dirp, exist_ok=True)
    c = {k: v for k, v in case.items() if not k.startswith('_')}
    c['signature'] = sig
    if extra:
        c.update(extra)
    p = os.path.join(dirp, '%s-%s.json' % (sanitize(sig), case_hash(case)[:8]))
    with open(p, 'w') as f:
        json.dump(c, f, indent=1)
    return p


# ---------------------------------------------------------------------------------------------------------------
def stage_replays(ctx, chk, pid, out, known, ev):
    files = sorted(glob.glob(os.path.join(HERE, 'replay', pid, '*.json')))
    n = 0
    for f in files:
        case = json.load(open(f))
        n += 1
        expect = case.get('signature') if os.path.basename(f).startswith('known-') else None
        _, j = execute(ctx, pid, case)
        sigs = [s for s, _ in j.viol]
        if expect and expect not in sigs:
            # one retry: these witnesses involve timing
            _, j = execute(ctx, pid, case)
            sigs = [s for s, _ in j.viol]
        if expect and expect not in sigs:
            out.notes.append('known finding witness no longer fails: ' + f)
        for s, d in j.viol:
            if known_entry(pid, known, s):
                register(chk, pid, out, known, s, f, d)
                continue
            ok, d2 = confirm(ctx, pid, case, s)
            if ok < 3:
                out.inconclusive += 1
                ev['x_inconclusive'] = ev.get('x_inconclusive', 0) + 1
                out.notes.append('replay %s: %s reproduced only %d/3 times' % (os.path.basename(f), s, ok))
                continue
            register(chk, pid, out, known, s, f, d2 or d)
    return n


def stage_msgfuzz(ctx, pid, out, ev, seed, iters, skip, known):
    """proxy-msg.c read/write handlers in-process over a socketpair (C19 only)"""
    import subprocess
    t0 = time.time()
    per = max(1, iters // 8)
    procs = []
    for w in range(8):
        flags = (1 if skip.get('hdr_len_small') else 0) | (2 if skip.get('hdr_len_big') else 0)
        procs.append(subprocess.Popen([ctx.B['client'], 'msgfuzz', str((seed * 1000003 + w * 7919) & 0x7fffffff), str(per), str(flags)],
                                      stdout=subprocess.PIPE, stderr=subprocess.PIPE, text=True, errors='replace',
                                      env=pcase.san_env({'ASAN_OPTIONS': 'detect_leaks=1:exitcode=99:handle_abort=1:symbolize=1'})))
    done = 0
    for w, p in enumerate(procs):
        try:
            so, se = p.communicate(timeout=600)
        except subprocess.TimeoutExpired:
            p.kill()
            so, se = p.communicate()
            out.inconclusive += 1
            continue
        if p.returncode != 0:
            sig = poracle.san_signature(pid, 'msgfuzz', p.returncode, se) or (so.strip().split(' ')[1] if so.startswith('VIOLATION') else '%s:msgfuzz:exit:%d' % (pid, p.returncode))
            d = os.path.join(pbuild.BUILD, 'violations', pid)
            os.makedirs(d, exist_ok=True)
            fp = os.path.join(d, sanitize(sig) + '.json')
            json.dump({'prop': pid, 'msgfuzz': {'seed': (seed * 1000003 + w * 7919) & 0x7fffffff, 'iters': per, 'flags': flags}, 'signature': sig, 'clients': []},
                      open(fp, 'w'))
            register(None, pid, out, known, sig, fp, (so + '\n' + se)[-3000:])
        else:
            m = re.search(r'iters=(\d+) complete=(\d+) rejected=(\d+)', so)
            if m:
                done += int(m.group(1))
                ev['x_msgfuzz_messages_completed'] = ev.get('x_msgfuzz_messages_completed', 0) + int(m.group(2))
                ev['x_msgfuzz_streams_rejected'] = ev.get('x_msgfuzz_streams_rejected', 0) + int(m.group(3))
    ev['x_msgfuzz_streams'] = done
    ev['x_msgfuzz_seconds'] = round(time.time() - t0, 1)


def run(chk, pid, tier, seed, out, ev, known):
    ctx = Ctx()
    for old in glob.glob(os.path.join(pbuild.BUILD, 'proxy-run-*')):
        try:
            if time.time() - os.path.getmtime(old) > 3600:
                shutil.rmtree(old, ignore_errors=True)
        except OSError:
            pass
    conf = tier_conf(chk, pid, tier)
    skip = skip_flags()
    t_start = time.time()
    ev.update({'evaluations': 0, 'nontrivial': 0, 'distinct_nontrivial': 0, 'samples': [], 'classes': {}, 'excluded_known': 0,
               'discarded': 0, 'time_up': False, 'x_inconclusive': 0, 'x_frames_checked': 0, 'x_watchdog_cases': 0,
               'x_skip_flags': {k: v for k, v in skip.items()}, 'x_repo': pbuild.repo(), 'x_tsan_cases': 0})
    n_replays = stage_replays(ctx, chk, pid, out, known, ev)
    if pid == 'C19' and conf.get('msgfuzz'):
        stage_msgfuzz(ctx, pid, out, ev, seed, conf['msgfuzz'], skip, known)

    viol_dir = os.path.join(pbuild.BUILD, 'violations', pid)
    inc_dir = os.path.join(pbuild.BUILD, 'violations', pid, 'inconclusive')
    ncases = int(conf['cases'])
    max_s = float(conf['max_seconds'])
    par = int(conf.get('par', 16))
    cands = {}
    nt_hashes = set()

    def one(i):
        case = generate(ctx, pid, tier, seed, i, skip)
        res, j = execute(ctx, pid, case)
        return i, case, j

    with ThreadPoolExecutor(par) as ex:
        futs = []
        nxt = 0
        pending = set()
        while nxt < ncases or pending:
            while nxt < ncases and len(pending) < par * 2:
                if time.time() - t_start > max_s:
                    ev['time_up'] = True
                    ncases = nxt
                    break
                f = ex.submit(one, nxt)
                pending.add(f)
                nxt += 1
            if not pending:
                break
            donef = next(as_completed(pending))
            pending.discard(donef)
            try:
                i, case, j = donef.result()
            except Exception as e:          # a defect of the harness, never silently ignored
                out.notes.append('harness error in a case: %r' % (e,))
                out.inconclusive += 1
                continue
            ev['evaluations'] += 1
            ev['excluded_known'] += case.get('_excluded', 0)
            ev['x_frames_checked'] += j.frames_checked
            if case.get('tsan'):
                ev['x_tsan_cases'] += 1
            for c in j.classes:
                ev['classes'][c] = ev['classes'].get(c, 0) + 1
            key = '%s%s' % (case.get('variant'), '+tsan' if case.get('tsan') else '')
            ev['classes']['variant:' + key] = ev['classes'].get('variant:' + key, 0) + 1
            ev['classes']['clients:%d' % len(case['clients'])] = ev['classes'].get('clients:%d' % len(case['clients']), 0) + 1
            if case.get('kind'):
                ev['classes']['kind:' + case['kind']] = ev['classes'].get('kind:' + case['kind'], 0) + 1
            if j.inconclusive:
                ev['x_inconclusive'] += 1
                ev['x_watchdog_cases'] += 1
                out.inconclusive += 1
                if ev['x_watchdog_cases'] <= 5:
                    p = save_case(inc_dir, 'inconclusive', case, {'why': j.inconclusive})
                    out.notes.append('inconclusive (watchdog): %s -> %s' % (j.inconclusive[0], p))
            if j.nontrivial():
                ev['nontrivial'] += 1
                nt_hashes.add(case_hash(case))
                if len(ev['samples']) < 6:
                    ev['samples'].append(describe(case)[:600])
            for s, d in j.viol:
                # several cases per signature: the first one met may be a lucky coincidence that does not reproduce
                if len(cands.setdefault(s, [])) < 6:
                    cands[s].append((case, d))
    ev['distinct_nontrivial'] = len(nt_hashes)

    def is_known(sig):
        return known_entry(pid, known, sig) is not None

    def work(item):
        sig, lst = item
        case, detail = lst[0]
        if is_known(sig):
            # a recorded finding met again by chance: no shrinking, no confirmation needed
            return sig, case, detail, case, 3, detail
        best = (sig, case, detail, case, 0, detail)
        t_sig = time.time()
        for case, detail in lst:
            if time.time() - t_sig > 150:
                break
            ok1, _ = confirm(ctx, pid, case, sig, times=2)
            if ok1 < 2:
                # does not reproduce twice in a row: no point in shrinking (load or scheduling dependent); try the next case
                continue
            log('[%s] candidate %s: shrinking' % (pid, sig))
            small, nruns = shrink(ctx, pid, case, sig)
            ok, d2 = confirm(ctx, pid, small, sig)
            if ok < 3 and small is not case:
                ok0, d0 = confirm(ctx, pid, case, sig)
                if ok0 >= 3:
                    small, ok, d2 = case, ok0, d0
            if ok > best[4]:
                best = (sig, case, detail, small, ok, d2)
            if ok >= 3:
                break
        return best

    with ThreadPoolExecutor(max(1, min(6, len(cands)))) as ex:
        results = list(ex.map(work, list(cands.items())))
    for sig, case, detail, small, ok, d2 in results:
        path = save_case(viol_dir if ok >= 3 else inc_dir, sig, small, {'why': detail[:2000]})
        if ok < 3:
            ev['x_inconclusive'] += 1
            out.inconclusive += 1
            out.notes.append('candidate %s reproduced only %d/3 times - not reported (kept as %s)' % (sig, ok, path))
            continue
        register(chk, pid, out, known, sig, path, 'case: %s\n%s' % (describe(small, full=True)[:1500], d2 or detail))
    ev['x_cases_per_second'] = round(ev['evaluations'] / max(0.001, time.time() - t_start), 2)
    return n_replays


def setup(chk, pid):
    pbuild.build()


def replay(chk, pid, path):
    ctx = Ctx()
    case = json.load(open(path))
    if case.get('msgfuzz'):
        import subprocess
        r = subprocess.run([ctx.B['client'], 'msgfuzz', str(case['msgfuzz']['seed']), str(case['msgfuzz']['iters']),
                            str(case['msgfuzz'].get('flags', 0))], env=pcase.san_env())
        if r.returncode:
            print('VIOLATION property=%s replay=%s' % (pid, path))
            return 1
        return 0
    print('case: ' + describe(case, full=True))
    res, j = execute(ctx, pid, case, keep=True, debug=bool(os.environ.get('VERIF_PROXY_DEBUG')), dump=True)
    print('run directory (logs): ' + res['dir'])
    print('classes: ' + ', '.join(sorted(j.classes)))
    print('frames checked: %d, device rounds: %s, token askers/holds: %s/%s' % (j.frames_checked, getattr(j, 'rounds', '?'),
                                                                           getattr(j, 'token_askers', '?'), getattr(j, 'token_holds', '?')))
    for s in j.inconclusive:
        print('INCONCLUSIVE: ' + s)
    for s, d in j.viol:
        print('--- violation signature %s\n%s' % (s, d[:4000]))
    if res.get('daemon_err') and (j.viol or os.environ.get('VERIF_PROXY_DEBUG')):
        print('--- daemon stderr (tail)\n' + res['daemon_err'][-3000:])
    if j.viol:
        print('VIOLATION property=%s replay=%s' % (pid, path))
        return 1
    print('RESULT ok')
    if not os.environ.get('VERIF_PROXY_DEBUG'):
        shutil.rmtree(res['dir'], ignore_errors=True)
    return 0
