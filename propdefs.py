"""Per-property metadata used by ./check and to generate MANIFEST.json (./check --manifest)."""
import json, os

COMMON_ASSUME = [
    'clang 14 ASan/UBSan runtimes; libzvbi sources of the current /repo working tree compiled with -O1 -g, asserts on',
    'reference models under /verif/models are readings of the standards (no standard text offline)',
]

PROPS = {}


def P(pid, **kw):
    kw.setdefault('level', 'exploration')
    kw.setdefault('claimed', True)
    kw.setdefault('quick', {})
    kw.setdefault('thorough', {})
    kw.setdefault('assumptions', COMMON_ASSUME)
    PROPS[pid] = kw


P('C12',
  technique='property-based testing: exhaustive per-field enumeration + random products, round-trip and untouched-bits oracles against harness-side encoders',
  rule='case = (codec kind, field values, pre-filled buffer, optional injected bit errors) from a seeded choice sequence; every '
       'case exercising a codec with a distinct (kind, values, buffer) tuple is non-trivial (distinct = hash of the consumed choices). '
       'Exhaustive sub-spaces are enumerated completely on every run and counted separately.',
  level_text='Generated-input search with an explicit oracle: every single field of VPS / DVB PDC descriptor / 8/30 format 1 and 2 is '
             'enumerated exhaustively (others random), products are sampled; encode/decode round trip, untouched-bits masks, re-encode '
             'identity, rejection-leaves-output-untouched, every single-bit and every in-byte double-bit Hamming error. Cannot establish '
             'absence over the full product space (2^104 buffers).',
  level_note='Trusted: harness-side bit layouts and Hamming 8/4 encoder (models/ttx_enc.h, props/C12.cc) transcribed from EN 300 231 / EN 300 706 9.8 / EN 300 468.',
  design_ref='DESIGN.md section 2, C12',
  quick=dict(cases=30000000, max_size=80, max_seconds=120),
  thorough=dict(cases=300000000, max_size=80, max_seconds=900, fuzz=dict(seconds=60, jobs=4, max_len=128)),
  )

P('C08',
  technique='property-based testing / model-based: generated caption programs over both fields and all eight channels fed pair by pair; oracle = reference EIA-608 / 47 CFR 15.119 decoder (models/cc608_model.h) compared cell by cell with vbi_fetch_cc_page, plus the rule that a changed page is accompanied by VBI_EVENT_CAPTION',
  rule='program = per field a sequence of segments, each opened by a mode command of its channel (RCL, RU2/3/4, RDC, EOC; TR, RTD) and continued with PACs (15 rows x indent / colour / italics x underline), '
       'words of 1-9 characters, special characters, transparent spaces, mid-row codes, background / foreground attribute codes behind a space, FON, tab offsets, BS, DER, CR, EDM, ENM, EOC, NUL pairs; '
       'control pairs doubled on field 1 (now and then single or repeated on purpose), sent once on field 2, XDS packets between field 2 segments; fields interleaved frame by frame. '
       'Non-trivial: a mode switch with text on screen, or two carriage returns on a non-empty roll-up / text window, or a window move / resize, or captions on both fields; distinct = hash of consumed choices.',
  level_text='Generated-history search with an explicit oracle: after every byte pair the page of each channel of that field is fetched; in pop-on mode at all times, otherwise whenever no word is being typed '
             '(after a space, cursor command, mode command, erase), rows 1-15 x columns 1-32 must equal the displayed memory of the reference decoder: character, opacity, background, and for non-space '
             'characters foreground, underline, italics and flash; empty cells must be transparent, except for the solid space the standard asks for next to a character; a page that differs from the '
             'previous fetch must have been announced by a caption event of that channel. Sampling only.',
  level_note='Trusted: models/cc608_model.h as reading of 47 CFR 15.119 / EIA-608-B (per-cell attributes as in effect when written; attributes of spaces other than background and opacity are not compared; the '
             'meaning of BS / DER / tab offsets after a character was written in column 32, control codes addressed to another channel than the one opened by the last '
             'mode command, extended characters and parity errors are outside the generated domain). Field 2 control codes are sent once, as the property says.',
  design_ref='DESIGN.md section 2, C08',
  quick=dict(cases=150000, max_size=3000, max_seconds=120),
  thorough=dict(cases=3000000, max_size=3000, max_seconds=1500, fuzz=dict(seconds=240, jobs=8, max_len=3000)),
  )

P('C09',
  technique='property-based testing: generated interleaved/faulted XDS pair streams, differential against a reference reassembly model; event-history oracle for the service decoder',
  rule='part A: 1-6 XDS packets (class 0-6, type 0-0x7F, 0-40 payload bytes, right/wrong checksum, optional missing start) cut into segments and '
       'interleaved with caption pairs / stuffing, resumed with continue codes, then 0-2 faults (dropped pair, parity flip, byte replaced), one case in six with vbi_xds_demux_reset() somewhere in the stream; '
       'part B: a station repeating/changing network name, call letters, title, length, rating through vbi_decode on line 284. '
       'Non-trivial: >= 2 packets interleaved, or payload >= 31 bytes, or an injected fault, or (B) a value change followed by its repeat; distinct = hash of consumed choices.',
  level_text='Generated-input search with an explicit oracle: delivered (class,type,length,bytes) sequence of vbi_xds_demux must equal the '
             'reference reassembly (EIA-608 sec. 9) for the handled classes/types, nothing else may be delivered, unhandled keys may never be '
             'delivered corrupted; the service decoder is run on the same streams under ASan/UBSan and its NETWORK / PROG_INFO events are '
             'checked for value fidelity and for "on the repeat, not before". Sampling only; no absence claim.',
  level_note='Trusted: models/xds_model.h as the reading of EIA-608 section 9; iff-direction applied to classes Current/Future/Channel/Misc and types 0x00-0x17, 0x40-0x47 (what the demux documents as handled); packets with a NUL filler in mid-packet (only producible by faults) are not judged for delivery.',
  design_ref='DESIGN.md section 2, C09',
  quick=dict(cases=400000, max_size=600, max_seconds=120),
  thorough=dict(cases=12000000, max_size=600, max_seconds=1200, fuzz=dict(seconds=240, jobs=8, max_len=1024)),
  )

P('C10',
  technique='stateful model-based property testing: generated and exhaustively enumerated cache operation histories against a map model, structural audit of lists/counters after every step',
  rule='history of up to 150 operation records (put / get exact / get masked or wildcard / ref / unref / foreach / channel switch / hold and '
       'release network / page-type update / is_cached + hi_subno / tight memory limit) over 7 page numbers (two in one hash bucket, one hex) x '
       '9 subcodes x 8 page kinds and sizes, on a decoder cache or a bare cache; a page number may grow subpages and may turn single-version again (the store replaces every cached subpage). Non-trivial: a page replaced while referenced, or a held page '
       'released after its network was switched away, or an eviction, or a wildcard lookup among >= 2 versions; distinct = hash of consumed choices. '
       'Exhaustive sub-space: all histories up to depth 5 (quick) / 6 (thorough) over a 12-operation alphabet.',
  level_text='Generated-history search with an explicit oracle: after every operation lookups must equal a map model (content copy-equal, exact '
             'subcode, most-recently stored-or-looked-up version for wildcards), held pages must stay intact, evictions are judged by a validity '
             'predicate (only when the limit requires one, never a referenced page), and a structural audit recomputes every counter and list '
             'membership from the private structures; all histories up to a bounded depth are enumerated exhaustively. No absence claim beyond that bound.',
  level_note='Trusted: the model of the subpage key rules (EN 300 706 A.1 as documented in cache.c), cache-priv.h for the audit and for poking memory_limit (no public setter in 0.2), cache_page_size() for the size classes.',
  design_ref='DESIGN.md section 2, C10',
  states_termination=True,
  quick=dict(cases=150000, max_size=700, max_seconds=150),
  thorough=dict(cases=4000000, max_size=700, max_seconds=1500, fuzz=dict(seconds=240, jobs=8, max_len=1024)),
  )

P('C11',
  technique='stateful model-based property testing: generated (un)registration histories incl. scripted actions executed from inside callbacks, list model oracle; acquisition checked through real page transmissions',
  rule='history of up to 30 operations (register / unregister / legacy add / legacy remove / send event with a script of 0-4 actions performed '
       'from inside the j-th callback / transmit a Teletext page) over 4 handler functions x 3 user pointers x masks {0, single, unions, -1}. '
       'Non-trivial: during a delivery a callback removed a handler, added one, or changed a mask; distinct = hash of consumed choices.',
  level_text='Generated-history search with an explicit oracle: the observed callback sequence of every delivery must equal a reference walk '
             'over the registration list (exactly once, own user pointer, registration order, removed-before-turn never called, added or '
             'mask-changed during delivery at most once), ASan guards freed handler records, and a page transmitted after every history prefix '
             'is acquired iff some registered handler requests Teletext page events. Sampling only.',
  level_note='Trusted: the list model written from the documentation of vbi_event_handler_register / _add; nested vbi_send_event from a handler is documented as unsupported and not generated.',
  design_ref='DESIGN.md section 2, C11',
  quick=dict(cases=1200000, max_size=400, max_seconds=150),
  thorough=dict(cases=30000000, max_size=400, max_seconds=1500, fuzz=dict(seconds=180, jobs=8, max_len=600)),
  )

P('C14',
  technique='property-based testing: generated (PIL, reference time, offset / zone string, ambient TZ) tuples; oracle = independent civil-calendar arithmetic and glibc localtime_r under a harness-owned TZ switch; TZ state compared around every call',
  rule='case = (function of 5, PIL, reference time, UTC offset or one of 17 zone strings or NULL, ambient TZ unset / set / same string). '
       'Non-trivial: PIL month and reference month differ by >= 5, or reference within 2 days of a year boundary, or a DST zone, or a failing call; '
       'distinct = hash of consumed choices. Wall clock times that do not exist in the zone (DST gap, date line change) are discarded and counted.',
  level_text='Generated-input search with an explicit oracle: exact expected instant for the UTC-offset functions from harness-side calendar '
             'arithmetic (nearest-year rule, leap day rule), wall-clock equality in the zone for the zone functions, Annex F window classes, '
             'window bounds as wall clock times, window contains the converted time; getenv(TZ), tzname, timezone, daylight and a probe localtime '
             'must be unchanged after every call. Sampling only.',
  level_note='Trusted: glibc localtime_r / tzdata as the time zone ground truth; harness calendar functions (days_from_civil); reference times equal to 0 or -1 ("current time") are not generated.',
  design_ref='DESIGN.md section 2, C14',
  quick=dict(cases=6000000, max_size=64, max_seconds=150),
  thorough=dict(cases=150000000, max_size=64, max_seconds=1500, fuzz=dict(seconds=120, jobs=8, max_len=64)),
  )

P('C06',
  technique='property-based testing: generated mux configurations and frame sequences; oracle = independent EN 300 472 / EN 301 775 / ISO 13818-1 parser, callback-vs-coroutine differential, round trip through the library demultiplexers',
  rule='11 % of the cases: one PES frame with raw lines (VBI_SLICED_VBI_625 records, generated image and sampling parameters: offset, line length, unequal field counts, sequential / interlaced) whose monochrome sample data units are compared with the documented image rows. Otherwise: case = (PES or TS + PID, data_identifier legal or illegal, min/max PES size incl. unaligned / swapped / out of range, 1-8 frames of '
       'Teletext B (3 ids) / VPS@16 / WSS@23 / Caption@21 lines with random payloads, service mask, PTS up to 40 bits, unacceptable frames '
       'interleaved, coroutine output buffers of 1 byte .. 70000 bytes). Non-trivial: an accepted frame of >= 2 x 184 bytes, or one following a '
       'rejected frame, or drained through a coroutine buffer smaller than one TS packet; distinct = hash of consumed choices.',
  level_text='Generated-input search with an explicit oracle: every emitted byte is parsed by a harness-side parser written from the standards '
             '(PES header fields, PTS, size multiple of 184 within the configured bounds, data unit ids / lengths / stuffing, no unit across a '
             'packet end, TS sync / PID / PUSI / continuity) and must carry exactly the input lines; callback and coroutine outputs must be '
             'byte-identical; the library demultiplexers must return the same lines, services, payload bits and PTS per frame; rejected frames '
             'must produce no output and the next frame must be encoded correctly. Sampling only.',
  level_note='Trusted: models/dvb_model.h as the reading of the standards. Raw (monochrome 4:2:2) lines are not generated yet; sequences containing Teletext lines with undefined line number 0 are checked by the parser only (frame boundaries are then not defined for the demultiplexer comparison).',
  design_ref='DESIGN.md section 2, C06',
  quick=dict(cases=120000, max_size=4000, max_seconds=150),
  thorough=dict(cases=4000000, max_size=4000, max_seconds=1500, fuzz=dict(seconds=240, jobs=8, max_len=4096)),
  )

P('C07',
  technique='property-based testing and fuzzing: harness-encoded PES/TS streams, metamorphic partition invariance (one call = pieces = coroutine), recovery oracle against the sent frames, ASan on exactly sized chunk buffers',
  rule='stream = 3-12 frames (a frame in 1-3 PES packets) as PES or TS from the harness encoder with foreign stream ids / PIDs (every third foreign packet scrambled) / adaptation-only / '
       'null packets, cut into feed calls (single bytes .. 5000 bytes), optionally damaged (noise, removal, duplication, dropped TS packet, continuity, '
       'TEI, scrambling) or fully random. Non-trivial: a cut inside a PES/TS header, or a frame spanning >= 2 feed calls, or damage; '
       'distinct = hash of consumed choices.',
  level_text='Generated-input search with explicit oracles: for every stream (valid, damaged or random) the frames delivered for one feed call, '
             'for the same bytes in generated pieces, and through vbi_dvb_demux_cor must be identical (lines, services, payloads, PTS); for '
             'encoded streams all frames after the first one following the damage (or the stream start) must be delivered exactly once and '
             'unchanged and nothing delivered before them may be a repeated or reordered frame; every chunk lives in an exactly sized heap block so '
             'that reads outside the caller buffer are ASan errors; hangs are caught by the watchdog. Sampling only.',
  level_note='Trusted: models/dvb_model.h encoder as the source of valid streams (not the library mux); foreign payload bytes avoid start code emulation (bytes >= 2).',
  design_ref='DESIGN.md section 2, C07',
  states_termination=True,
  quick=dict(cases=100000, max_size=6000, max_seconds=150),
  thorough=dict(cases=3000000, max_size=6000, max_seconds=1500, fuzz=dict(seconds=300, jobs=12, max_len=6000)),
  )

P('C15',
  technique='property-based testing: harness-side IDL format A and Page Format Clear transmitters (EN 300 708) with generated framing options, payload runs and fault injection; delivery sequences compared with what was sent',
  rule='IDL-A: 2-30 packets for one (channel, address) with generated RI/CI/DL options, address length 0-6, dependent bit, explicit or implicit '
       'continuity indicator, payload runs of 0x00/0xFF with dummy bytes, foreign channels / addresses / format B / ordinary Teletext packets, '
       'dropped, CRC-damaged and Hamming-damaged packets. PFC: 1-12 blocks of 0-2047 bytes over pages of 1-25 packets (block pointer, separators, '
       'fillers, structure headers split at any position), foreign pages / streams / magazines, the same faults. Non-trivial: a run of >= 8 equal '
       '0x00/0xFF bytes, or a block boundary in the last bytes of a packet, or a fault; distinct = hash of consumed choices.',
  level_text='Generated-input search with an explicit oracle: IDL deliveries must equal the payloads of the intact packets of the selected '
             'channel/address in order, VBI_IDL_DATA_LOST exactly on the first delivery after lost or damaged packets, VBI_IDL_DEPENDENT equal to the '
             'transmitted bit, no other flag bits; PFC deliveries must be an in-order subsequence of the sent blocks with exact content that '
             'contains every non-empty block transmitted wholly in undamaged pages; each packet is fed from an exactly 42 byte heap block (ASan). Sampling only.',
  level_note='Trusted: the transmitters in props/C15.cc (CRC x^16+x^9+x^7+x^4+1 bitwise, dummy byte rule, PFC layout) as reading of EN 300 708. Not judged: whether the CI byte counts towards the 8 equal bytes, and a run whose eighth byte ends the packet (generator avoids both, counted); repeat-indicator retransmissions are not generated.',
  design_ref='DESIGN.md section 2, C15',
  quick=dict(cases=300000, max_size=5000, max_seconds=150),
  thorough=dict(cases=8000000, max_size=5000, max_seconds=1500, fuzz=dict(seconds=240, jobs=8, max_len=5000)),
  )

P('C02',
  technique='property-based testing: generated Teletext networks and packet-level schedules through the real decoder; oracle = page assembly model + independent Level 1 display model (EN 300 706 sec. 12.2, Table 36), event log',
  rule='network = serial or parallel mode, 1-8 magazines x 1-4 pages (BCD 100-899, subpage 0 or 01-79, national option 0-6, C5/C6 sometimes), rows '
       'from a grammar of text and interacting spacing attributes, optional X/27/0 (four colour links and the index link are compared), row 24 included, half of the networks with the page number in the rolling header; schedule = packet-level interleaving of the magazines, permuted / '
       'omitted rows, time filling headers, 2-4 cycles with edited rows and toggled erase flag, 1-16 packets per frame. Non-trivial: (>= 2 magazines '
       'interleaved at packet level or a no-erase retransmission with a changed and an omitted row) and a row with interacting spacing attributes; '
       'distinct = hash of consumed choices.',
  level_text='Generated-schedule search with an explicit oracle: at every point where a page must be complete (next header of its own magazine) '
             'the page is fetched at levels 1, 1.5, 2.5 and 3.5 and every cell of rows 1-23 and header columns 8-39 is compared (character through '
             'the national sub-set, foreground, background, flash, conceal, size incl. lower double-height rows, boxing on C5/C6 pages), plus page / '
             'subpage number, FLOF links, exactly one page event per transmission, wildcard fetch returns the subpage just received. Sampling only.',
  level_note='Trusted: models/ttx_model.h (Table 26 set-at / set-after rules, held mosaic reset rule, national sub-sets of region 16). ESC (second G0 set) and national option 7 (not allocated) are not generated; blank mosaic and space are treated as equal.',
  design_ref='DESIGN.md section 2, C02',
  quick=dict(cases=30000, max_size=12000, max_seconds=200),
  thorough=dict(cases=1200000, max_size=12000, max_seconds=1800, fuzz=dict(seconds=300, jobs=8, max_len=12000)),
  )

P('C03',
  level='fault_enumeration',
  extra_c=['ttx_shim.c'],
  watchdog=900,
  technique='property-based testing with exhaustive fault injection: generated base transmissions, every single-bit fault of every Hamming protected byte / triplet enumerated, double-bit header / address / designation faults enumerated, double-bit faults in every X/26 / X/28 / M/29 triplet, in page link bytes and in TOP basic table rows, parity and burst faults sampled; metamorphic oracle against reference runs (fault-free, packet dropped, enhancement data cut, pages in progress abandoned)',
  rule='base = serial or parallel transmission of 1-3 magazines x 1-2 pages over 2-3 cycles with and without erase (rows from the C02 grammar, X/26 character '
       'replacements incl. address-row-0 triplets, X/27/0, X/27/4, X/28/0 /1 /4, M/29/0 /1 /4, 8/30 format 1 and 2; one base in four with the TOP basic table page 1F0); faults per base: every single bit of every Hamming 8/4 byte and 24/18 triplet, all 28 '
       'in-byte double errors of every address / designation byte and of the eight header bytes, two bit errors in every triplet of every X/26, X/28 and M/29 packet, in every byte of the page links of X/27/0 and 8/30 and in 6 bytes of every basic table row (sampled pairs), parity errors in every text row, sampled bursts with dropped packets. '
       'Non-trivial base: contains an enhancement or service packet and a retransmission without erase; distinct = hash of consumed choices. The histogram counts the fault runs per class.',
  level_text='Fault enumeration over generated transmissions with a metamorphic oracle: (1) each single-bit fault in a Hamming protected byte or triplet must leave '
             'the set of cached pages, every fetched page (levels 1.5 and 2.5: all cells, colour map, links) and the complete event log identical to the fault-free run; '
             '(2) an uncorrectable address or designation byte must give exactly the state and events of the run without that packet; (3) an uncorrectable header byte '
             'must give the cached state of a run in which the header\'s own page and some subset of the pages in progress are abandoned, nothing else; (4) a text row '
             'with parity errors must leave the state of the run without that row (or with only the damaged positions keeping earlier content); (5) bursts with up to two '
             'bit errors per protected byte and dropped packets never store or announce a page that was not transmitted. Single-bit class exhaustive per base (reported when a base had to be sampled).',
  level_note='Trusted: transmitter primitives (models/ttx_enc.h, ttx_tx.h, bsd_enc.h). The oracle is differential against the same decoder, so it decides error handling, not Level 1 rendering (that is C02). Pages that carry X/26 data are not judged in the parity class (the statement excepts positions overridden by X/26). M/29 and 8/30 packets are sent where no page is in progress.',
  design_ref='DESIGN.md section 2, C03',
  quick=dict(cases=160, max_size=6000, max_seconds=150),
  thorough=dict(cases=4000, max_size=6000, max_seconds=1800),
  )

P('C17',
  states_termination=True,
  technique='property-based testing: generated cache populations and call scripts; oracle = independent regex / literal matcher over the reference display text plus a model of the documented pass order (stateful, recomputed after every cache update)',
  rule='cache population = 0-12 pages / subpages (adjacent numbers, holes, only subpages, clock style subcodes, hex numbered pages) built through vbi_decode; page '
       'text = filler alphabet with planted instances of the pattern and near misses (changed character, split over two rows, interrupted by a colour code, in the '
       'header or row 24); pattern = literal incl. every displayable escaped metacharacter or regex (literals, dot, classes, negated classes, alternation, * + ?), '
       'case folded or not; script = 4-43 vbi_search_next calls with direction changes, pages stored or replaced between calls, progress callback cancelling. '
       'Non-trivial: >= 3 cached pages with a non-matching page between two matching ones, or start page not cached, or a direction change, or a cache update between calls; distinct = hash of consumed choices.',
  level_text='Generated-history search with an explicit oracle: every vbi_search_next result is compared with the admissible result computed from the model (first page in the '
             'remaining part of the pass whose rows 1-23 contain the pattern according to an independent matcher; the current page again while it still holds unreturned '
             'occurrences; not-found exactly when no such page is left; cache-empty on an empty cache), the returned vbi_page must be that page and its highlighted cells '
             'must spell a string the pattern matches; hangs are caught by the watchdog and confirmed by three replays. Sampling only.',
  level_note='Trusted: models/ttx_model.h for the display text, the backtracking matcher in props/C17.cc, the pass order read from the documentation of vbi_search_new / vbi_search_next (forward: start page first; backward: page before the start page first). Anchors (^ $), double height text and non-ASCII case folding are not generated.',
  design_ref='DESIGN.md section 2, C17',
  quick=dict(cases=160000, max_size=8000, max_seconds=120),
  thorough=dict(cases=2500000, max_size=8000, max_seconds=1500, fuzz=dict(seconds=240, jobs=8, max_len=8000)),
  )

P('C13',
  technique='property-based testing: generated reception histories over VPS, 8/30 format 1 and 2, the XDS network name and WSS (repeats, station changes, isolated corrupted words, interleaved carriers); oracle = per-carrier debounce model, transmitter-side value decoders, Teletext cache witness page',
  rule='history = 10-120 frames; scenario A: one carrier (VPS, 8/30 format 1 or 2) with values from {two known stations, an unknown CNI, one-off corrupted words} in runs '
       'of 1-6; scenario B: one station on 2-3 carriers interleaved by a generated schedule with isolated corrupted receptions, then a change to another known station; '
       'scenario C: WSS 625 words (8 aspect codes x film bit x subtitle bits, valid or invalid parity) in runs of 1-8; scenario D (6 % of A): XDS network name packets, with or without call letters, '
       'of two stations in runs of 1-5 with single deviating names or call letters; a Teletext witness page is cached before. '
       'Non-trivial: an isolated deviation between identical receptions, or a station change while the witness page is cached, or a WSS word announced after another one; distinct = hash of consumed choices.',
  level_text='Generated-history search with an explicit oracle: single-carrier histories are compared event by event with the documented debounce (announce on the second '
             'identical reception, not again while unchanged, NETWORK only when the identified station changes, cache witness dropped exactly then); all histories: every '
             'NETWORK / NETWORK_ID event reports the CNI last received on each carrier and requires a repeated identifier in its frame, PROG_ID and LOCAL_TIME values equal the '
             'transmitted fields (VPS programme ids only after a repeat), an isolated deviation raises no NETWORK event and keeps the cache, a change between known stations raises '
             'exactly one NETWORK event and drops the cache; WSS: no ASPECT event before 4 identical receptions or with wrong group-1 parity, values as transmitted, a changed ratio / film / subtitle value is announced. Sampling only.',
  level_note='Trusted: models/bsd_enc.h transmitters, the CNI table of the library for station names / ids (the oracle uses its own first-match lookup). XDS: the value fidelity of announcements is checked by C09 part B, the debounce by scenario D here. The shared confirmation cycle of the decoder makes "not announced again" carrier-dependent; it is asserted exactly for single-carrier histories only.',
  design_ref='DESIGN.md section 2, C13',
  quick=dict(cases=250000, max_size=1500, max_seconds=120),
  thorough=dict(cases=8000000, max_size=1500, max_seconds=1500, fuzz=dict(seconds=180, jobs=8, max_len=1500)),
  )

P('C04',
  technique='property-based testing: generated sampling configurations and payloads rendered by the reference signal generator, exact round trip through vbi3_raw_decoder, legacy vbi_raw_decoder, vbi3_bit_slicer and legacy vbi_bit_slicer; service remove / add history',
  rule='configuration = (one of 14 documented service combinations incl. single services and single-field sets, sampling rate log-uniform from the documented minimum '
       'to 36 MHz or one of 7 customary rates, horizontal window starting 1-6 us before and ending 0-3 us after the nominal signals, one of the 25 pixel formats, sequential / '
       'interlaced, synchronous or not, customary or widened line ranges, strict 0-2, each line blank or carrying an all-0 / all-1 / alternating / long-run / random payload), '
       'then a remove-service / add-service history. Non-trivial: the rate is none of the four rates of the existing test, or the format is not YUV420, or the history ran; distinct = hash of consumed choices.',
  level_text='Generated-input search with an explicit oracle: exactly one record per transmitted line of a granted service, same service id, ITU-R line number ascending '
             '(0 and transmit order when the field order is unknown), payload bits equal, bytes behind the payload and records behind the reported count untouched, never an id that '
             'was not requested, a blank image gives no record; the legacy decoder must return the same, both single-line slicers must return the payload of every transmitted line; after '
             'removing and re-adding a service the outputs follow. Sampling only.',
  level_note='Trusted: the repository signal generator (io-sim) as transmitter, as the property names it; nominal signal windows in models/raw_gen.h; the service table supplies CRI / FRC patterns for the single-line slicers. Rates whose integer sampling step drifts by >= 0.2 bit over the payload are a known finding and are replaced by the nearest drift-free rate (counted).',
  design_ref='DESIGN.md section 2, C04',
  quick=dict(cases=400000, max_size=1200, max_seconds=120),
  thorough=dict(cases=12000000, max_size=1200, max_seconds=1500, fuzz=dict(seconds=240, jobs=8, max_len=1200)),
  )

P('C05',
  technique='fuzzing / property-based testing under AddressSanitizer: generated sampling configurations incl. the smallest admissible line, image contents of every kind (nominal, shifted towards the search limit, truncated, noise, saturated, square waves), exactly sized heap blocks for image, line copies, output arrays and payload buffers',
  rule='configuration as in C04 (14 service combinations, rate from the admission limit to 36 MHz, 25 pixel formats, layouts), sampling window optionally cut to the smallest length the '
       'service check admits; content = nominal signals / shifted right per line (0 .. a third of the line) / truncated / noise / saturated / square wave at run-in period / noise bursts; '
       'decoded as an image with max_lines <= lines (1-3 or 17-48 frames with one decoder), through the legacy decoder (also after vbi_raw_decoder_resize to a generated geometry), and line by line through both single-line slicers (also with an output buffer smaller than the payload); interlaced geometry with unequal field counts must be refused. Non-trivial: a run-in was recognised in a non-nominal image; distinct = hash of consumed choices.',
  level_text='Generated-input search; the oracle is AddressSanitizer on exactly sized heap blocks (one byte read behind the image or a line copy, one byte written behind the output array or a '
             'payload buffer aborts), plus return value <= max_lines and record ids within the granted services. Sampling only: absence of an out-of-bounds access is not established.',
  level_note='Trusted: ASan runtime; the service check of the library defines "admissible" line lengths (a configuration it rejects is not decoded). The analytic worst-case index cross-check of the design is not implemented.',
  design_ref='DESIGN.md section 2, C05',
  quick=dict(cases=300000, max_size=4000, max_seconds=120),
  thorough=dict(cases=10000000, max_size=4000, max_seconds=1500, fuzz=dict(seconds=300, jobs=8, max_len=4000)),
  )

P('C01',
  states_termination=True,
  extra_c=['ttx_shim.c'],
  technique='fuzzing and property-based testing under ASan / UBSan: structure-aware generated operation lists (semi-valid Teletext, Caption, XDS, ITV trigger, VPS, WSS lines interleaved with every read side call), coverage guided libFuzzer stage over the same choice sequences; oracle = sanitizers, asserts, watchdog, allocation accounting',
  rule='operation list of up to ~400 operations on one decoder, among them structured Teletext neighbourhoods (Level 2.5 MOT + POP + DRCS + invoking page; POP object graphs whose objects invoke each other and themselves; TOP basic table + AIT / MPT pages + index page 900 + titles; EACEM trigger pages with well-formed trigger strings): frames of 1-8 sliced lines built protocol-valid first (Teletext headers incl. MIP / MOT / BTT / trigger / hex / filler pages, rows, X/26 '
       'with all triplet modes, X/27/0-5, X/28, M/29, 8/30, Hamming coded page bodies; Caption commands, XDS packets incl. odd and over-long, ITV trigger strings; VPS, WSS, unknown ids) then '
       'corrupted, time steps (regular, zero, jumps, backwards), and read side calls (fetch at every level, caption fetch, classify, title, links, cache queries, every export module, print, draw '
       'into exactly sized canvases, search, channel switch, handler changes, setters). Non-trivial: a page was cached or a caption character placed and a read side call succeeded on it; distinct = hash of consumed choices.',
  level_text='Generated-input search: any AddressSanitizer / UndefinedBehaviorSanitizer report, assertion abort or (confirmed by three replays) hang is a violation; while running the allocation must stay below '
             'a bound linear in the lines fed, a repeated periodic broadcast must reach a steady allocation, and after vbi_decoder_delete the allocated byte count must be back at its value before the case. Sampling only.',
  level_note='Trusted: sanitizer runtimes; UBSan bounds check disabled for vbi_format_vt_page only (support/ubsan-ignorelist.txt). Known findings of the component properties (C09 XDS slot aliasing, C17 ure overlapping symbols) are not oracle failures here because C01 only judges memory safety, termination and leaks.',
  design_ref='DESIGN.md section 2, C01',
  quick=dict(cases=700000, max_size=6000, max_seconds=150),
  thorough=dict(cases=20000000, max_size=6000, max_seconds=1800, fuzz=dict(seconds=600, jobs=16, max_len=6000)),
  )

P('C16',
  technique='property-based testing: pages from the real decoder (Level 1-3.5 incl. objects and DRCS, caption), differential over the four export targets, exactly sized heap buffers and guard bytes, independent text extraction for vbi_print_page_region, guard pixels and full-page comparison for region rendering',
  rule='page = Teletext page fetched at level 1 / 1.5 / 2.5 / 3.5 from a decoder fed with rows of the C02 grammar or a Level 2.5 neighbourhood (MOT, POP objects, DRCS), or a caption page; then 1-3 of: '
       '(A) an enumerated export module with a random option vector to vbi_export_alloc, vbi_export_mem (buffer sizes 0 / 1 / needed-1 / needed / needed+1 / random), vbi_export_stdio, vbi_export_file; '
       '(B) vbi_print_page_region in table mode (random region, UTF-8 / ISO-8859-1 / ASCII, random buffer size); (C) vbi_draw_vt_page_region / vbi_draw_cc_page_region of a random region into a guarded '
       'canvas (random stride or the default -1, RGBA32 / PAL8 / unsupported formats). Non-trivial: buffer size needed-1 or needed, or a region edge at an enlarged character, or a page with enhancement / DRCS data; distinct = hash of consumed choices.',
  level_text='Generated-input search with explicit oracles: the four export targets must agree in success and bytes, vbi_export_mem must return the needed size for every buffer size and never write past an exactly '
             'sized heap buffer (ASan); vbi_print_page_region output converted back with iconv must equal the characters computed independently from pg->text (graphics, DRCS, covered cells and unrepresentable '
             'characters as spaces), return value <= size; region rendering must leave every guard pixel and, for unsupported formats, every pixel untouched and equal the full-page rendering for regions that cut no enlarged character. Sampling only.',
  level_note='Trusted: glibc iconv for the back conversion; the replacement rules of vbi_print_page_region as documented (graphics, DRCS and unrepresentable characters -> space). Non-table mode and the text exporter\'s terminal control codes are only covered by the target differential.',
  design_ref='DESIGN.md section 2, C16',
  quick=dict(cases=160000, max_size=3000, max_seconds=120),
  thorough=dict(cases=4000000, max_size=3000, max_seconds=1500, fuzz=dict(seconds=240, jobs=8, max_len=3000)),
  )

P('C18',
  custom='proxy.proxy_check',
  technique='process-level property-based testing: generated schedules of 1-6 real proxy clients (connect / read / stall / service update / '
            'reconnect / kill) against zvbid on a deterministic simulated device (select and acquisition-thread variants, ASan+UBSan, thread '
            'variant also under TSan); reference frames recomputed from the frame number; adapter log for open/close/service union',
  rule='case = device variant x frame period x queue depth x per-client scripts, from random.Random("seed:C18:i"); every eighth case is the split-message scenario (a conforming raw client whose message arrives in two pieces 2-3 frame periods apart while a library client changes its services: it must receive consecutive frames). Non-trivial: at least two '
       'connections of different clients overlap in time with different granted service sets and the case contains a stall or a service '
       'change; distinct = SHA-1 of the case file.',
  level_text='Generated-schedule search with explicit oracles on a multi-process system: per client strictly increasing exact timestamps, '
             'byte-identical frames filtered to the granted services, no gap for a client that keeps up except across its own requests, stalls '
             'of one client invisible to the others, device opened for the union and closed after the last client, daemon sanitizer-clean. The '
             'OS schedules the processes: interleavings are sampled, not enumerated; liveness is only observed through watchdogs (inconclusive).',
  level_note='Trusted: the sim adapter in the ZVBI_VERIF hook of daemon/proxyd.c (frame contents are a pure function of the frame number), '
             'the granted-set model over the client API results, CLOCK_MONOTONIC across processes, 3/3 reproduction before a report. Raw VBI '
             'forwarding, TCP/IP and norm changes are not covered. Generator exclusions for recorded findings: proxy/NOTES.md section 5.',
  design_ref='DESIGN.md section 2, C18; proxy/NOTES.md',
  quick=dict(cases=700, max_seconds=130),
  thorough=dict(cases=6500, max_seconds=1080),
  assumptions=COMMON_ASSUME + ['hook.patch applied to daemon/proxyd.c (guard ZVBI_VERIF)', 'see proxy/NOTES.md section 8'],
  )

P('C19',
  custom='proxy.proxy_check',
  technique='process-level fault injection and protocol fuzzing: raw clients built from the proxy-msg.h layouts (valid runs, then truncation, '
            'header length/type out of range, boundary values per field, wrong message for the state, magic/endian/version, oversize, '
            'pipelining, silence, abrupt close) next to witness clients under the C18 data oracle; token scenarios with library and raw '
            'clients of all priorities; in-process fuzzing of proxy-msg.c read/write handlers over a socketpair',
  rule='case = 1-2 witnesses + 1-4 faulty clients, or witnesses + 2-4 token clients (+ optional faulty one). Non-trivial: a faulty message was '
       'sent on a connection that had been confirmed (it reached vbi_proxyd_take_message), or at least two clients asked for the token and '
       'one was granted; distinct = SHA-1 of the case file.',
  level_text='Generated fault sequences with explicit oracles: daemon alive and ASan/UBSan/LSan-clean, witnesses keep satisfying the C18 data '
             'oracle and their connections, token hold intervals observed at the clients never overlap, grants only to clients that asked. '
             'Sampling of byte streams and interleavings; no absence claim.',
  level_note='Trusted: as C18, plus the soundness argument of the token oracle (grants that overtake an unanswered release-type request are '
             'ignored). Seven defects of the message layer and token code are recorded as known findings and steered around (NOTES.md 4, 5).',
  design_ref='DESIGN.md section 2, C19; proxy/NOTES.md',
  quick=dict(cases=600, max_seconds=130, msgfuzz=40000),
  thorough=dict(cases=6000, max_seconds=1080, msgfuzz=800000),
  assumptions=COMMON_ASSUME + ['hook.patch applied to daemon/proxyd.c (guard ZVBI_VERIF)', 'see proxy/NOTES.md section 8'],
  )

P('C20',
  variant='tsan',
  watchdog=120,
  states_termination=True,
  technique='schedule fuzzing under ThreadSanitizer: generated operation streams and yield / sleep points for 2-4 threads on one decoder; oracle = TSan happens-before race detection, snapshot consistency against the sequential execution, one-consistent-service-set predicate, deadlock watchdog',
  rule='schedule = (part, per-thread operation streams, generated yields / microsleeps). Part A: decoding thread feeds 40-400 caption pairs one per vbi_decode call (pop-on, roll-up, paint-on, text; an event handler yields where the '
       'library has dropped its mutex), 1-2 threads call vbi_fetch_cc_page (channels 1-4, reset on / off) and in a third of the cases vbi_channel_switched. Part B: decoding thread calls vbi_raw_decode 20-140 times on a generated multi-service image, '
       '1-2 threads call vbi_raw_decoder_add_services / _remove_services (also with 0, the service set query) / _check_services. Non-trivial: a fetch or service change overlapped the decoding thread (sequence counters); distinct = hash of consumed choices.',
  level_text='Sampled schedules on the real threads with explicit oracles: ThreadSanitizer must stay silent (a race on an executed path is reported without having to manifest), every caption page fetched concurrently must hash to one of the '
             'pages the sequential execution of the same stream produces for that channel (cases without channel switch), every raw decode result must consist of all transmitted lines of exactly the services that appear in it, '
             'and all threads must finish (watchdog 120 s, confirmed by replays). Interleavings are sampled by the OS scheduler plus generated yields, not enumerated.',
  level_note='Trusted: ThreadSanitizer runtime; the sequential reference runs of the same library. vbi_raw_decoder_resize is not in the concurrent set (vbi_raw_decode reads count[] before taking the mutex; the statement lists add / remove / check only). Cases with vbi_channel_switched are judged by TSan and the watchdog only.',
  design_ref='DESIGN.md section 2, C20',
  quick=dict(cases=20000, max_size=1500, max_seconds=120),
  thorough=dict(cases=600000, max_size=1500, max_seconds=1500),
  )

NOT_YET = {}


def write_manifest(root):
    props = [json.loads(l) for l in open(os.path.join(root, 'properties.jsonl'))]
    checks = []
    na = []
    for p in props:
        pid = p['id']
        d = PROPS.get(pid)
        if not d or not d.get('claimed'):
            na.append({'property_id': pid, 'reason': (d or {}).get('na_reason') or NOT_YET.get(pid) or
                       'check not built yet in this session (no technical obstacle; see DESIGN.md section 2)'})
            continue
        checks.append({
            'property_id': pid,
            'quick_cmd': './check %s --tier quick' % pid,
            'thorough_cmd': './check %s --tier thorough' % pid,
            'evidence_file': 'evidence/%s.json' % pid,
            'replay_cmd_template': './check %s --replay {path}' % pid,
            'engine': 'vf-engine',
            'level_claimed': {'category': d['level'], 'text': d['level_text'], 'design_ref': d.get('design_ref', 'DESIGN.md section 2')},
            'level_note': d['level_note'],
            'technique': d['technique'],
        })
    hooks_commits = []
    hp = os.path.join(root, 'hooks_commits.txt')
    if os.path.exists(hp):
        hooks_commits = [l.strip() for l in open(hp) if l.strip()]
    m = {
        'version': 1,
        'setup_cmd': './check --setup',
        'hooks': {
            'guard': 'ZVBI_VERIF',
            'enable': 'the harness compiles /repo sources itself with -DZVBI_VERIF (see ./check build_lib); the autotools build never defines it',
            'baseline_off_cmd': 'make -C /repo check',
            'source_commits': hooks_commits,
            'add_only': True,
        },
        'engines': [{
            'name': 'vf-engine',
            'path': 'engine/',
            'serves_properties': [c['property_id'] for c in checks],
            'kind_free_text': 'choice-sequence property-based testing engine (seeded PRNG generation, in-process and external shrinking, '
                              'replay files) with a libFuzzer driver over the same run_case; python orchestrator ./check',
        }],
        'checks': checks,
        'not_applicable': na,
        'notes': 'All checks honour VERIF_SEED and VERIF_TIER, rebuild the library objects from the current /repo working tree when its '
                 'content hash changed, rewrite evidence/<id>.json and print VIOLATION / KNOWN-FINDING lines. known_findings.json lists '
                 'known and fixed findings.',
    }
    with open(os.path.join(root, 'MANIFEST.json'), 'w') as f:
        json.dump(m, f, indent=1)
        f.write('\n')
