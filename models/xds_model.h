// Reference XDS packet reassembly, written from EIA-608 section 9 (XDS packets on field 2:
// start/continue pairs 0x01..0x0E + type, informational characters 0x20..0x7F, end 0x0F + checksum;
// a packet interrupted by caption data or another packet is resumed with its continue code).
#pragma once
#include <cstdint>
#include <vector>
#include <map>
#include "ttx_enc.h"

namespace xds {

struct Packet {
	unsigned cls, type;
	std::vector<uint8_t> data;
	bool irregular = false;		// NUL filler seen in the middle: delivery not judged
	bool operator==(const Packet &o) const { return cls == o.cls && type == o.type && data == o.data; }
};

struct Model {
	struct Open { std::vector<uint8_t> data; unsigned sum = 0; bool odd = false; bool irregular = false; };
	std::map<unsigned, Open> open;	// key = cls*256+type
	int cur = -1;
	std::vector<Packet> delivered;

	void reset() { open.clear(); cur = -1; }

	// one byte pair as transmitted (with parity bits)
	void feed(uint8_t b1, uint8_t b2) {
		if (!enc::par_ok(b1) || !enc::par_ok(b2)) {
			if (cur >= 0) open.erase((unsigned) cur);
			cur = -1;
			return;
		}
		unsigned c1 = b1 & 0x7F, c2 = b2 & 0x7F;
		if (c1 == 0) return;			// stuffing
		if (c1 <= 0x0E) {
			unsigned key = ((c1 - 1) >> 1) * 256 + c2;
			if (c1 & 1) { Open o; o.sum = c1 + c2; open[key] = o; cur = (int) key; }
			else if (open.count(key)) cur = (int) key;
			else cur = -1;
			return;
		}
		if (c1 == 0x0F) {
			if (cur < 0) return;
			Open &o = open[(unsigned) cur];
			o.sum += c1 + c2;
			if ((o.sum & 0x7F) == 0 && !o.data.empty() && o.data.size() <= 32) {
				Packet p; p.cls = (unsigned) cur >> 8; p.type = (unsigned) cur & 255; p.data = o.data; p.irregular = o.irregular;
				delivered.push_back(p);
			}
			open.erase((unsigned) cur);
			cur = -1;
			return;
		}
		if (c1 <= 0x1F) { cur = -1; return; }	// caption control code: XDS suspended
		if (cur < 0) return;
		Open &o = open[(unsigned) cur];
		if (o.odd) o.irregular = true;		// more data after a NUL filler
		o.data.push_back((uint8_t) c1);
		if (c2) o.data.push_back((uint8_t) c2); else o.odd = true;
		o.sum += c1 + c2;
		if (o.data.size() > 32) { open.erase((unsigned) cur); cur = -1; }
	}
};

// transmitter helpers
static inline void start_pair(std::vector<uint8_t> &out, unsigned cls, unsigned type, bool cont) {
	out.push_back(enc::par((uint8_t)(cls * 2 + 1 + (cont ? 1 : 0))));
	out.push_back(enc::par((uint8_t) type));
}
static inline unsigned checksum(unsigned cls, unsigned type, const std::vector<uint8_t> &data) {
	unsigned sum = (cls * 2 + 1) + type + 0x0F;
	for (auto b : data) sum += b;
	return (128 - (sum & 127)) & 127;
}

} // namespace xds
