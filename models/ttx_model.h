// Reference Level 1 Teletext display model written from EN 300 706: section 12.2 (Table 26: spacing
// attributes, set-at / set-after), section 15.2 / Table 36 (G0 Latin national option sub-sets).
// Output is expressed in the vocabulary of libzvbi's vbi_page (unicode, colours 0-7, size codes).
#pragma once
#include <cstdint>
#include <cstring>

namespace ttx {

// ---- character sets ----
// national option sub-set positions 23 24 40 5B 5C 5D 5E 5F 60 7B 7C 7D 7E
enum Subset { ENGLISH, GERMAN, SWE_FIN_HUN, ITALIAN, FRENCH, PORTUG_SPANISH, CZECH_SLOVAK, TURKISH, N_SUBSETS };
static const unsigned short SUBSET[N_SUBSETS][13] = {
	/* English      */ {0x00A3, 0x0024, 0x0040, 0x2190, 0x00BD, 0x2192, 0x2191, 0x0023, 0x2014, 0x00BC, 0x2016, 0x00BE, 0x00F7},
	/* German       */ {0x0023, 0x0024, 0x00A7, 0x00C4, 0x00D6, 0x00DC, 0x005E, 0x005F, 0x00B0, 0x00E4, 0x00F6, 0x00FC, 0x00DF},
	/* Swe/Fin/Hun  */ {0x0023, 0x00A4, 0x00C9, 0x00C4, 0x00D6, 0x00C5, 0x00DC, 0x005F, 0x00E9, 0x00E4, 0x00F6, 0x00E5, 0x00FC},
	/* Italian      */ {0x00A3, 0x0024, 0x00E9, 0x00B0, 0x00E7, 0x2192, 0x2191, 0x0023, 0x00F9, 0x00E0, 0x00F2, 0x00E8, 0x00EC},
	/* French       */ {0x00E9, 0x00EF, 0x00E0, 0x00EB, 0x00EA, 0x00F9, 0x00EE, 0x0023, 0x00E8, 0x00E2, 0x00F4, 0x00FB, 0x00E7},
	/* Port/Spanish */ {0x00E7, 0x0024, 0x00A1, 0x00E1, 0x00E9, 0x00ED, 0x00F3, 0x00FA, 0x00BF, 0x00FC, 0x00F1, 0x00E8, 0x00E0},
	/* Czech/Slovak */ {0x0023, 0x016F, 0x010D, 0x0165, 0x017E, 0x00FD, 0x00ED, 0x0159, 0x00E9, 0x00E1, 0x011B, 0x00FA, 0x0161},
	/* Turkish      */ {0xE800, 0x011F, 0x0130, 0x015E, 0x00D6, 0x00C7, 0x00DC, 0x011E, 0x0131, 0x015F, 0x00F6, 0x00E7, 0x00FC},
};
static const uint8_t SUBSET_POS[13] = {0x23, 0x24, 0x40, 0x5B, 0x5C, 0x5D, 0x5E, 0x5F, 0x60, 0x7B, 0x7C, 0x7D, 0x7E};

// region 16 (Western Europe and Turkey, libzvbi's default): C12-C14 value 0..6; 7 is not allocated
static inline int subset_for_national(unsigned national) {
	static const int map[8] = {ENGLISH, GERMAN, SWE_FIN_HUN, ITALIAN, FRENCH, PORTUG_SPANISH, TURKISH, -1};
	return map[national & 7];
}
static inline unsigned g0_unicode(int subset, unsigned c) {
	if (subset >= 0) for (int i = 0; i < 13; ++i) if (SUBSET_POS[i] == c) return SUBSET[subset][i];
	if (c == 0x7F) return 0x25A0;	// filled block
	return c;
}

// ---- display cell ----
enum Size { NORMAL = 0, DOUBLE_WIDTH, DOUBLE_HEIGHT, DOUBLE_SIZE, OVER_TOP, OVER_BOTTOM, DOUBLE_HEIGHT2, DOUBLE_SIZE2 };	// same codes as vbi_size
struct Cell { unsigned unicode; unsigned fg, bg; bool flash, conceal, boxed; int size; };

struct RowOut { Cell c[40]; bool double_height; Cell lower[40]; };

// mosaic characters are reported in libzvbi's private range: contiguous 0xEE20 + (code - 0x20), separated 0xEE00 + (code - 0x20)
static inline void format_row(const int raw[40] /* 7 bit codes, -1 = parity error */, int subset, int subset2, int row, RowOut *out) {
	unsigned fg = 7, bg = 0;
	bool flash = false, conceal = false, boxed = false, mosaic = false, separated = false, hold = false, esc = false;
	int size = NORMAL;
	unsigned held = 0x20;		// held mosaic: code
	bool held_sep = false;
	bool dh = false;
	bool skip = false;		// right half of a double width character
	for (int col = 0; col < 40; ++col) {
		int c = raw[col] < 0 ? 0x20 : raw[col];
		// set-at attributes
		switch (c) {
		case 0x09: flash = false; break;
		case 0x0C: if (size != NORMAL) { size = NORMAL; held = 0x20; } break;
		case 0x18: conceal = true; break;
		case 0x19: separated = false; break;
		case 0x1A: separated = true; break;
		case 0x1C: bg = 0; break;
		case 0x1D: bg = fg; break;
		case 0x1E: hold = true; break;
		}
		Cell cell;
		cell.fg = fg; cell.bg = bg; cell.flash = flash; cell.conceal = conceal; cell.boxed = boxed; cell.size = size;
		if (c < 0x20) {
			if (hold && mosaic && held != 0x20) cell.unicode = (held_sep ? 0xEE00 : 0xEE20) + held - 0x20;
			else cell.unicode = (hold && mosaic) ? ((held_sep ? 0xEE00u : 0xEE20u)) : 0x20;	// blank mosaic / space
		} else if (mosaic && (c & 0x20)) {
			held = (unsigned) c; held_sep = separated;
			cell.unicode = (separated ? 0xEE00 : 0xEE20) + c - 0x20;
		} else cell.unicode = g0_unicode(esc ? subset2 : subset, (unsigned) c);
		if (skip) { skip = false; out->c[col] = out->c[col - 1]; out->c[col].size = OVER_TOP; }
		else {
			out->c[col] = cell;
			if (size == DOUBLE_WIDTH || size == DOUBLE_SIZE) { if (col < 39) skip = true; else out->c[col].size = NORMAL; }
		}
		// set-after attributes
		if (c <= 0x07) { fg = (unsigned) c; conceal = false; if (mosaic) held = 0x20; mosaic = false; }
		else if (c >= 0x10 && c <= 0x17) { fg = (unsigned) c & 7; conceal = false; if (!mosaic) held = 0x20; mosaic = true; }
		else switch (c) {
		case 0x08: flash = true; break;
		case 0x0A: if (col < 39 && raw[col + 1] == 0x0A) boxed = false; break;
		case 0x0B: if (col < 39 && raw[col + 1] == 0x0B) boxed = true; break;
		case 0x0D: if (row >= 1 && row <= 22) { if (size != DOUBLE_HEIGHT) held = 0x20; size = DOUBLE_HEIGHT; dh = true; } break;
		case 0x0E: if (col < 39) { if (size != DOUBLE_WIDTH) held = 0x20; size = DOUBLE_WIDTH; } break;
		case 0x0F: if (col < 39 && row >= 1 && row <= 22) { if (size != DOUBLE_SIZE) held = 0x20; size = DOUBLE_SIZE; dh = true; } break;
		case 0x1B: esc = !esc; break;
		case 0x1F: hold = false; break;
		}
	}
	out->double_height = dh;
	if (dh) for (int col = 0; col < 40; ++col) {
		Cell l = out->c[col];
		if (l.size == DOUBLE_HEIGHT) l.size = DOUBLE_HEIGHT2;
		else if (l.size == DOUBLE_SIZE) { l.size = DOUBLE_SIZE2; out->lower[col] = l; if (col < 39) { ++col; l.size = OVER_BOTTOM; } }
		else { l.size = NORMAL; l.unicode = 0x20; }
		out->lower[col] = l;
	}
}

} // namespace ttx
