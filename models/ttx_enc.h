// Independent transmitter-side primitives written from EN 300 706 section 8:
// odd parity, Hamming 8/4, Hamming 24/18, bit reversal.  Nothing here calls
// into libzvbi.
#pragma once
#include <cstdint>

namespace enc {

static inline unsigned popcnt(unsigned v) { unsigned c = 0; while (v) { c += v & 1; v >>= 1; } return c; }

// 7 data bits + odd parity in bit 7
static inline uint8_t par(uint8_t c) { c &= 0x7F; return (popcnt(c) & 1) ? c : (uint8_t)(c | 0x80); }
static inline bool par_ok(uint8_t c) { return popcnt(c) & 1; }

static inline uint8_t rev8(uint8_t c) {
	uint8_t r = 0;
	for (int i = 0; i < 8; ++i) if (c & (1 << i)) r |= 0x80 >> i;
	return r;
}
static inline unsigned rev4(unsigned c) { return ((c & 1) << 3) | ((c & 2) << 1) | ((c & 4) >> 1) | ((c & 8) >> 3); }
static inline unsigned rev16(unsigned c) { return (rev8(c & 0xFF) << 8) | rev8(c >> 8); }

// Hamming 8/4, EN 300 706 8.2: bits (LSB first) P1 D1 P2 D2 P3 D3 P4 D4
static inline uint8_t ham8(unsigned d) {
	unsigned d1 = d & 1, d2 = (d >> 1) & 1, d3 = (d >> 2) & 1, d4 = (d >> 3) & 1;
	unsigned p1 = 1 ^ d1 ^ d3 ^ d4;
	unsigned p2 = 1 ^ d1 ^ d2 ^ d4;
	unsigned p3 = 1 ^ d1 ^ d2 ^ d3;
	unsigned p4 = 1 ^ p1 ^ d1 ^ p2 ^ d2 ^ p3 ^ d3 ^ d4;
	return (uint8_t)(p1 | d1 << 1 | p2 << 2 | d2 << 3 | p3 << 4 | d3 << 5 | p4 << 6 | d4 << 7);
}
static inline void ham16(uint8_t *p, unsigned byte) { p[0] = ham8(byte & 15); p[1] = ham8((byte >> 4) & 15); }

// Hamming 24/18, EN 300 706 8.3: bit positions 1..24; parity bits at 1,2,4,8,16 and
// overall parity at 24; data bits D1..D18 fill the remaining positions in order.
static inline void ham24(uint8_t *p, unsigned d18) {
	unsigned bits[25] = {0};
	int k = 0;
	for (int pos = 1; pos <= 23; ++pos) {
		if ((pos & (pos - 1)) == 0) continue;	// parity position
		bits[pos] = (d18 >> k++) & 1;
	}
	for (int pb = 1; pb <= 16; pb <<= 1) {
		unsigned x = 0;
		for (int pos = 1; pos <= 23; ++pos) if ((pos & pb) && pos != pb) x ^= bits[pos];
		bits[pb] = x ^ 1;	// odd parity over the group
	}
	unsigned all = 0;
	for (int pos = 1; pos <= 23; ++pos) all ^= bits[pos];
	bits[24] = all ^ 1;
	unsigned v = 0;
	for (int pos = 1; pos <= 24; ++pos) v |= bits[pos] << (pos - 1);
	p[0] = v & 0xFF; p[1] = (v >> 8) & 0xFF; p[2] = (v >> 16) & 0xFF;
}

// packet address: magazine (1..8, 8 sent as 0) and packet number 0..31
static inline void address(uint8_t *p, unsigned mag, unsigned packet) {
	unsigned v = (mag & 7) | (packet << 3);
	p[0] = ham8(v & 15); p[1] = ham8((v >> 4) & 15);
}

} // namespace enc
