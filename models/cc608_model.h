// Reference Closed Caption decoder written from 47 CFR 15.119 and EIA-608-B (sections cited inline), not from src/caption.c.
// Eight channels (CC1-4, T1-4), per caption channel a displayed and a non-displayed memory of 15 x 32 cells, per text channel one
// memory; every cell stores the character and the pen attributes in effect when it was written.
#pragma once
#include <cstdint>
#include <cstring>

namespace cc608 {

enum Mode { UNKNOWN = 0, POP_ON, ROLL_UP, PAINT_ON, TEXT };
enum { ROWS = 15, COLS = 32 };
// colours in libzvbi numbering (vbi_color): black 0, red 1, green 2, yellow 3, blue 4, magenta 5, cyan 6, white 7
enum { BLACK = 0, RED, GREEN, YELLOW, BLUE, MAGENTA, CYAN, WHITE };
// opacity in libzvbi numbering: 0 transparent space, 1 transparent full (background transparent), 2 semi transparent, 3 opaque
enum { OP_TRANSPARENT_SPACE = 0, OP_TRANSPARENT_FULL = 1, OP_SEMI = 2, OP_OPAQUE = 3 };

struct Pen { uint8_t fg = WHITE, bg = BLACK, op = OP_OPAQUE; bool ul = false, it = false, fl = false; };
struct Cell { bool set = false; uint16_t uc = 0; Pen pen; };

// 47 CFR 15.119 (g) character set table
static inline uint16_t std_char(unsigned c) {
	switch (c) {
	case 0x2A: return 0x00E1; case 0x5C: return 0x00E9; case 0x5E: return 0x00ED; case 0x5F: return 0x00F3; case 0x60: return 0x00FA;
	case 0x7B: return 0x00E7; case 0x7C: return 0x00F7; case 0x7D: return 0x00D1; case 0x7E: return 0x00F1; case 0x7F: return 0x25A0;
	default: return (uint16_t) c;
	}
}
static inline uint16_t special_char(unsigned k) {	// 0x11/0x19 0x30 + k
	static const uint16_t t[16] = {0x00AE, 0x00B0, 0x00BD, 0x00BF, 0x2122, 0x00A2, 0x00A3, 0x266A, 0x00E0, 0x0020, 0x00E8, 0x00E2, 0x00EA, 0x00EE, 0x00F4, 0x00FB};
	return t[k & 15];
}
// Mid-row / PAC colour order: white green blue cyan red yellow magenta (italics)
static const uint8_t COLOUR[8] = {WHITE, GREEN, BLUE, CYAN, RED, YELLOW, MAGENTA, WHITE};
// Background attribute colour order (EIA-608-B 6.2): white green blue cyan red yellow magenta black
static const uint8_t BGCOLOUR[8] = {WHITE, GREEN, BLUE, CYAN, RED, YELLOW, MAGENTA, BLACK};
// PAC row table: index (c1 & 7) * 2 + bit 5 of c2 -> row 0-14, -1 invalid
static const int PACROW[16] = {10, -1, 0, 1, 2, 3, 11, 12, 13, 14, 4, 5, 6, 7, 8, 9};

struct Chan {
	Mode mode = UNKNOWN;
	Cell mem[2][ROWS][COLS];
	int disp = 0;			// index of the displayed memory
	int row = ROWS - 1, col = 0;	// cursor; caption channels start on row 15
	int depth = 3;
	Pen pen;
	bool text = false;
	// bookkeeping for the comparison (not part of the standard's state)
	bool pending = false;		// displayed memory holds characters of a word not yet completed (the library shows words)
	bool wrote_last_col = false;	// a character was written in column 32: what BS / DER / TO mean now is left open by the standard
	unsigned word_len = 0;		// printable characters of the word being typed
	bool changed = false;		// displayed memory changed since the flag was cleared

	Cell (*D())[COLS] { return mem[disp]; }
	Cell (*N())[COLS] { return mem[disp ^ 1]; }
	Cell (*W())[COLS] { return (mode == POP_ON) ? mem[disp ^ 1] : mem[disp]; }	// memory the characters go to: (f)(1), (f)(2), (f)(3)
	bool writes_displayed() const { return mode != POP_ON; }
	void erase(int m) { for (int r = 0; r < ROWS; ++r) for (int c = 0; c < COLS; ++c) { if (mem[m][r][c].set && m == disp) changed = true; mem[m][r][c] = Cell(); } }
	bool empty(int m) const { for (int r = 0; r < ROWS; ++r) for (int c = 0; c < COLS; ++c) if (mem[m][r][c].set) return false; return true; }
	bool row_empty(int m, int r) const { for (int c = 0; c < COLS; ++c) if (mem[m][r][c].set) return false; return true; }
};

struct Model {
	Chan ch[8];		// 0-3 CC1-4, 4-7 T1-4
	int cur[2] = {-1, -1};	// channel receiving characters on each field
	bool have_last[2] = {false, false}; uint8_t last[2][2];
	bool xds = false;	// field 2 is inside an XDS packet
	Model() { for (int i = 4; i < 8; ++i) { ch[i].text = true; ch[i].mode = TEXT; ch[i].row = 0; ch[i].depth = ROWS; } }

	void put(Chan &c, uint16_t uc, bool printable) {
		Cell &x = c.W()[c.row][c.col];
		x.set = true; x.uc = uc; x.pen = c.pen;
		if (c.writes_displayed()) c.changed = true;
		// (f)(1)(v): characters after column 32 replace the character in column 32
		if (c.col < COLS - 1) { ++c.col; c.wrote_last_col = false; } else c.wrote_last_col = true;
		if (uc == 0x20) { c.pending = false; c.word_len = 0; }
		else { if (c.writes_displayed()) c.pending = true; if (printable) ++c.word_len; }
	}
	void attr_space(Chan &c, bool back) {	// spacing attribute; back: EIA-608-B 6.2 "backspace" codes replace the space sent before them
		if (back) {
			int col = c.col; if (col > 0 && !c.wrote_last_col) --col;
			Cell &x = c.W()[c.row][col]; x.set = true; x.uc = 0x20; x.pen = c.pen;
			if (c.writes_displayed()) { c.changed = true; c.pending = true; }
		} else put(c, 0x20, false);
	}
	void set_colour_pen(Chan &c, unsigned code, bool midrow) {
		unsigned k = (code >> 1) & 7;
		c.pen.ul = code & 1; c.pen.fl = false;
		if (k < 7) { c.pen.fg = COLOUR[k]; c.pen.it = false; }
		else { c.pen.it = true; if (!midrow) c.pen.fg = WHITE; }	// (h)(1)(ii): mid-row italics keep the colour, PAC italics are white
	}
	void move_window(Chan &c, int nbase) {	// (f)(1)(ii): the whole window moves with the base row
		if (nbase == c.row) return;
		Cell tmp[4][COLS]; int n = 0;
		for (int k = 0; k < c.depth; ++k) { int r = c.row - k; if (r >= 0) { memcpy(tmp[k], c.D()[r], sizeof tmp[k]); for (int x = 0; x < COLS; ++x) { if (c.D()[r][x].set) c.changed = true; c.D()[r][x] = Cell(); } n = k + 1; } }
		for (int k = 0; k < n; ++k) { int r = nbase - k; if (r >= 0) memcpy(c.D()[r], tmp[k], sizeof tmp[k]); }
		c.row = nbase;
	}
	void pac(Chan &c, unsigned lo, unsigned c2) {
		int row = PACROW[lo * 2 + ((c2 >> 5) & 1)];
		if (row < 0 || c.mode == UNKNOWN) return;
		c.pen = Pen();
		if (c2 & 0x10) { c.pen.ul = c2 & 1; } else set_colour_pen(c, c2, false);
		switch (c.mode) {
		case ROLL_UP: { int base = row; if (base + 1 < c.depth) base = c.depth - 1;	// EIA-608-B C.4
				move_window(c, base); break; }
		case TEXT: break;	// (e)(1), EIA-608-B 7.4: the row is not used in text mode
		default: c.row = row;
		}
		c.col = (c2 & 0x10) ? (int)(c2 & 0x0E) * 2 : 0;
		c.wrote_last_col = false; c.pending = false; c.word_len = 0;
	}
	void cr(Chan &c) {
		if (c.mode == UNKNOWN || c.mode == POP_ON || c.mode == PAINT_ON) return;	// (f)(2)(i), (f)(3)(i): no effect
		c.col = 0; c.wrote_last_col = false; c.pending = false; c.word_len = 0;
		if (c.mode == TEXT && c.row < ROWS - 1) { ++c.row; return; }
		int top = c.row - c.depth + 1; if (top < 0) top = 0;
		for (int r = top; r < c.row; ++r) for (int x = 0; x < COLS; ++x) { if (c.D()[r][x].set != c.D()[r + 1][x].set || (c.D()[r][x].set && memcmp(&c.D()[r][x], &c.D()[r + 1][x], sizeof(Cell)))) c.changed = true; c.D()[r][x] = c.D()[r + 1][x]; }
		for (int x = 0; x < COLS; ++x) { if (c.D()[c.row][x].set) c.changed = true; c.D()[c.row][x] = Cell(); }
	}
	void roll_up(Chan &c, int depth) {
		switch (c.mode) {
		case POP_ON: case PAINT_ON:	// (f)(1)(x): both memories are erased, (f)(1)(ii): base row 15
			c.erase(0); c.erase(1); c.row = ROWS - 1; c.col = 0; c.wrote_last_col = false; break;
		case ROLL_UP:	// (f)(1)(iv): a smaller window loses its top rows; a base row too close to the top for a larger one moves down as for a PAC (EIA-608-B C.4)
			if (c.row + 1 < depth) move_window(c, depth - 1);
			for (int k = depth; k < c.depth; ++k) { int r = c.row - k; if (r >= 0) for (int x = 0; x < COLS; ++x) { if (c.D()[r][x].set) c.changed = true; c.D()[r][x] = Cell(); } }
			break;
		default: break;
		}
		c.mode = ROLL_UP; c.depth = depth;
	}
	void misc(int f, int chan, unsigned code) {
		Chan &c = ch[chan];
		switch (code) {
		case 0: cur[f] = chan & 3; ch[cur[f]].mode = POP_ON; ch[cur[f]].pending = false; ch[cur[f]].word_len = 0; break;	// RCL
		case 1: if (c.mode != UNKNOWN && c.col > 0) { --c.col; Cell &x = c.W()[c.row][c.col]; if (x.set && c.writes_displayed()) c.changed = true; x = Cell(); if (c.writes_displayed()) c.pending = true; if (c.word_len) --c.word_len; } break;	// BS
		case 4: if (c.mode != UNKNOWN) { for (int x = c.col; x < COLS; ++x) { if (c.W()[c.row][x].set && c.writes_displayed()) c.changed = true; c.W()[c.row][x] = Cell(); } c.pending = false; c.word_len = 0; } break;	// DER
		case 5: case 6: case 7: cur[f] = chan & 3; roll_up(ch[cur[f]], (int) code - 3); ch[cur[f]].pending = false; ch[cur[f]].word_len = 0; break;
		case 8: if (c.mode != UNKNOWN) { c.pen.fl = true; attr_space(c, false); } break;	// FON: (h)(1)(i) spacing attribute
		case 9: cur[f] = chan & 3; ch[cur[f]].mode = PAINT_ON; ch[cur[f]].pending = false; ch[cur[f]].word_len = 0; break;	// RDC
		case 10: { cur[f] = chan | 4; Chan &t = ch[cur[f]]; t.erase(t.disp); t.row = 0; t.col = 0; t.wrote_last_col = false; t.pending = false; t.word_len = 0; break; }	// TR: EIA-608-B 7.4
		case 11: cur[f] = chan | 4; break;	// RTD
		case 12: { Chan &k = ch[chan & 3]; k.erase(k.disp); if (k.writes_displayed()) { k.pending = false; k.word_len = 0; } break; }	// EDM: always the caption channel
		case 13: cr(c); break;
		case 14: { Chan &k = ch[chan & 3]; k.erase(k.disp ^ 1); break; }	// ENM
		case 15: { cur[f] = chan & 3; Chan &k = ch[cur[f]]; k.disp ^= 1; k.mode = POP_ON; k.changed = true; k.pending = false; k.word_len = 0; break; }	// EOC: (f)(2)
		default: break;
		}
	}
	void control(int f, unsigned b0, unsigned c2) {
		unsigned lo = b0 & 7; int bit = (b0 >> 3) & 1;
		int cls = (cur[f] >= 0) ? (cur[f] & 4) : 0;
		int chan = cls + f * 2 + bit;
		Chan &c = ch[chan];
		if (c2 >= 0x40) { pac(c, lo, c2); return; }
		if (c2 < 0x20) return;
		switch (lo) {
		case 0: if (c2 < 0x30 && c.mode != UNKNOWN) { c.pen.bg = BGCOLOUR[(c2 >> 1) & 7]; c.pen.op = (c2 & 1) ? OP_SEMI : OP_OPAQUE; attr_space(c, true); } break;
		case 1: if (c.mode == UNKNOWN) break;
			if (c2 < 0x30) { set_colour_pen(c, c2, true); attr_space(c, false); }
			else if (c2 == 0x39) { Cell &x = c.W()[c.row][c.col]; if (x.set && c.writes_displayed()) c.changed = true; x = Cell(); if (c.col < COLS - 1) ++c.col; else c.wrote_last_col = true; if (c.writes_displayed()) c.pending = true; }	// transparent space: (n)
			else put(c, special_char(c2 & 15), true);
			break;
		case 4: case 5: if (c2 < 0x30) misc(f, chan, c2 & 15); break;
		case 7: if (c.mode == UNKNOWN) break;
			if (c2 >= 0x21 && c2 <= 0x23) { c.col += (int)(c2 & 3); if (c.col > COLS - 1) c.col = COLS - 1; if (c.writes_displayed()) c.pending = true; c.word_len = 0; }	// (e)(1)(ii)
			else if (c2 == 0x2D) { c.pen.op = OP_TRANSPARENT_FULL; attr_space(c, true); }
			else if (c2 == 0x2E || c2 == 0x2F) { c.pen.fg = BLACK; c.pen.ul = c2 & 1; c.pen.it = false; c.pen.fl = false; attr_space(c, true); }
			break;
		default: break;
		}
	}
	// one byte pair (parity already removed) on field f (0 / 1)
	void feed(int f, unsigned b0, unsigned b1) {
		if (b0 == 0 && b1 == 0) { have_last[f] = false; return; }
		if (b0 >= 0x10 && b0 <= 0x1F) {
			if (f == 1) xds = false;
			// (i)(1): control codes are sent twice on field 1, the immediate repetition is ignored
			if (f == 0 && have_last[f] && last[f][0] == b0 && last[f][1] == b1) { have_last[f] = false; return; }
			control(f, b0, b1);
			if (f == 0) { have_last[f] = true; last[f][0] = (uint8_t) b0; last[f][1] = (uint8_t) b1; }
			return;
		}
		have_last[f] = false;
		if (b0 < 0x10) { if (f == 1) xds = (b0 != 0x0F); return; }
		if (f == 1 && xds) return;
		if (cur[f] < 0) return;
		Chan &c = ch[cur[f]];
		if (c.mode == UNKNOWN) return;
		if (b0 >= 0x20) put(c, std_char(b0), true);
		if (b1 >= 0x20) put(c, std_char(b1), true);
	}
};

} // namespace cc608
