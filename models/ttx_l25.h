// A consistent Level 2.5 / 3.5 neighbourhood in one magazine (MOT page with POP and DRCS links, POP page with pointer tables and
// object definitions, DRCS page, and a normal page whose X/26 invokes objects and DRCS characters), shared by C01 and C16.
#pragma once
#include "../engine/engine.h"
#include "ttx_gen.h"

namespace l25 {

// bulk filler derived from four choice bytes, so that a whole neighbourhood costs few choices (structure decisions stay on the choice sequence)
struct Bulk { uint32_t x; explicit Bulk(uint32_t seed) : x(seed * 2654435761u + 1) {} unsigned pick(unsigned n) { x ^= x << 13; x ^= x >> 17; x ^= x << 5; return n ? (x >> 8) % n : 0; } };

static inline unsigned gen_l25(vf::Src &s, std::vector<tx::Packet> &out, std::vector<unsigned> *recent = nullptr) {
	Bulk bk(s.u32());
	unsigned mag = 1 + s.pick(8);
	unsigned pop_page[4], drcs_page[4];
	for (int i = 0; i < 4; ++i) { pop_page[i] = s.chance(1, 4) ? (s.pick(10) << 4 | s.pick(10)) : 0xA0 + s.pick(16); drcs_page[i] = s.chance(1, 4) ? (s.pick(10) << 4 | s.pick(10)) : 0xB0 + s.pick(16); }
	unsigned pop_sub = s.pick(4);
	uint8_t txt[32]; memset(txt, 0x20, 32);
	tx::HeaderFlags f; f.c4_erase = s.chance(1, 2);
	auto hamrow = [&](unsigned packet, const std::vector<unsigned> &nib) { tx::Packet p; enc::address(p.b, mag, packet); for (int i = 0; i < 40; ++i) p.b[2 + i] = enc::ham8(i < (int) nib.size() ? nib[(size_t) i] : bk.pick(16)); out.push_back(p); };
	// MOT
	out.push_back(tx::header(mag, 0xFE, 0, f, txt));
	for (unsigned pk = 1; pk <= 8; ++pk) if (s.chance(7, 8)) { std::vector<unsigned> n; for (int i = 0; i < 40; ++i) n.push_back(bk.pick(4) ? 1 + bk.pick(3) : bk.pick(16)); hamrow(pk, n); }
	for (unsigned pk = 19; pk <= 20; ++pk) if (s.chance(7, 8)) {
		std::vector<unsigned> n;
		for (int l = 0; l < 4; ++l) { unsigned pg = pop_page[s.chance(3, 4) ? 0 : s.pick(4)]; n.push_back(mag & 7); n.push_back(pg >> 4); n.push_back(pg & 15); n.push_back(bk.pick(16)); n.push_back(bk.pick(16)); n.push_back(bk.pick(16)); for (int k = 0; k < 4; ++k) n.push_back(bk.pick(16)); }
		hamrow(pk, n);
	}
	if (s.chance(3, 4)) { std::vector<unsigned> n; for (int l = 0; l < 8; ++l) { unsigned pg = drcs_page[s.chance(3, 4) ? 0 : s.pick(4)]; n.push_back(mag & 7); n.push_back(pg >> 4); n.push_back(pg & 15); n.push_back(bk.pick(16)); } hamrow(21, n); }
	if (s.chance(1, 3)) { std::vector<unsigned> n; hamrow(22 + s.pick(3), n); }
	// POP page
	unsigned pp = pop_page[s.chance(3, 4) ? 0 : s.pick(4)];
	out.push_back(tx::header(mag, pp, pop_sub, f, txt));
	std::vector<unsigned> ptrs;	// object definition positions (triplet index from packet 3 on)
	for (int i = 0; i < 8; ++i) ptrs.push_back(s.chance(1, 8) ? 507 + s.pick(5) : s.pick(13 * 10));
	for (unsigned pk = 1; pk <= 4; ++pk) if (s.chance(3, 4)) {
		unsigned t[13]; t[0] = bk.pick(0x40000);
		for (int i = 1; i < 13; ++i) { unsigned a = ptrs[bk.pick(8)], b = ptrs[bk.pick(8)]; if (!bk.pick(6)) a = 511; if (!bk.pick(10)) b = bk.pick(512); t[i] = a | b << 9; }
		out.push_back(tx::triplets(mag, pk, 1 | (s.pick(8) << 1), t));
	}
	for (unsigned pk = 3; pk <= 14; ++pk) if (s.chance(2, 3)) {
		unsigned t[13];
		for (int i = 0; i < 13; ++i) {
			unsigned pos = (pk - 3) * 13 + (unsigned) i; bool def = false; for (unsigned q : ptrs) if (q == pos) def = true;
			if (def && bk.pick(8)) t[i] = (bk.pick(4)) | ((0x15 + bk.pick(3)) << 6) | (bk.pick(128) << 11);	// object definition: type, address bits
			else { unsigned addr = bk.pick(2) ? bk.pick(40) : 40 + bk.pick(24); unsigned mode = bk.pick(32); if (!bk.pick(8)) mode = 0x11 + bk.pick(3); if (!bk.pick(8)) mode = 0x0D; t[i] = addr | mode << 6 | bk.pick(128) << 11; }
		}
		out.push_back(tx::triplets(mag, pk, s.pick(16) & ~1u, t));
	}
	// DRCS page: pattern rows and the mode table
	if (s.chance(2, 3)) {
		out.push_back(tx::header(mag, drcs_page[s.chance(3, 4) ? 0 : s.pick(4)], s.pick(4), f, txt));
		for (unsigned pk = 1; pk <= 24; ++pk) if (s.chance(1, 2)) { uint8_t row[40]; for (auto &b : row) b = bk.pick(2) ? (uint8_t)(0x40 | bk.pick(64)) : (uint8_t)(0x20 + bk.pick(0x60)); out.push_back(tx::row(mag, pk, row)); }
		if (s.chance(2, 3)) { unsigned t[13]; for (auto &x : t) x = bk.pick(0x40000); t[0] = (t[0] & ~0x7Fu) | (4 + s.pick(2)); out.push_back(tx::triplets(mag, 28, 3, t)); }
	}
	// the page using them
	unsigned page = s.pick(10) << 4 | s.pick(10);
	out.push_back(tx::header(mag, page, 0, f, txt));
	if (recent) { recent->push_back(mag << 8 | page); recent->push_back(mag << 8 | pp); }
	for (unsigned y = 1; y <= 24; ++y) if (!bk.pick(3)) { uint8_t row[40]; for (auto &b : row) b = (uint8_t)(bk.pick(6) ? 0x20 + bk.pick(0x60) : bk.pick(0x20)); out.push_back(tx::row(mag, y, row)); }
	unsigned nd = 1 + s.pick(3);
	for (unsigned d = 0; d < nd; ++d) {
		unsigned t[13];
		for (auto &x : t) {
			unsigned w = bk.pick(8);
			if (w == 0) x = (40 + bk.pick(24)) | (0x04 << 6) | (bk.pick(40) << 11);
			else if (w <= 2) { unsigned src = 1 + bk.pick(3); x = (40 + ((src - 1) << 3) + bk.pick(8)) | ((0x11 + bk.pick(3)) << 6) | ((bk.pick(4) ? ((bk.pick(8) << 4) | pop_sub) : bk.pick(128)) << 11); }	// object invocation: local / POP / GPOP
			else if (w == 3) x = bk.pick(40) | (0x0D << 6) | (bk.pick(128) << 11);	// DRCS character
			else if (w == 4) x = (40 + bk.pick(24)) | (0x18 << 6) | (bk.pick(128) << 11);	// DRCS mode
			else if (w == 5) x = (40 + bk.pick(24)) | ((0x15 + bk.pick(3)) << 6) | (bk.pick(128) << 11);	// object definition in the page (local objects)
			else x = (bk.pick(2) ? bk.pick(40) : 40 + bk.pick(24)) | (bk.pick(32) << 6) | (bk.pick(128) << 11);
		}
		out.push_back(tx::triplets(mag, 26, d, t));
	}
	if (s.chance(1, 3)) { unsigned t[13]; for (auto &x : t) x = bk.pick(0x40000); out.push_back(tx::triplets(mag, 27, 4, t)); }
	if (s.chance(1, 3)) { unsigned t[13]; for (auto &x : t) x = bk.pick(0x40000); t[0] &= ~0x7Fu; out.push_back(tx::triplets(mag, 28, s.chance(1, 2) ? 0 : 4, t)); }
	out.push_back(tx::header(mag, 0xFF, 0x3F7F, f, txt));
	return mag << 8 | page;
}

// A POP page holding a consistent object graph (pointer table entries that point at object definitions whose address bits match the
// invocation, bodies that write characters, move the active position and invoke other objects of the table - of a higher, the same or
// a lower type, themselves included) and a page that links to it with X/27/4 and invokes the objects from X/26. EN 300 706 13.2 lets an
// object invoke objects of a higher type only, which is what bounds the nesting; the generator does not respect that on purpose.
static inline unsigned gen_objgraph(vf::Src &s, std::vector<tx::Packet> &out, std::vector<unsigned> *recent = nullptr) {
	Bulk bk(s.u32());
	unsigned mag = 1 + s.pick(8);
	unsigned pp = s.chance(1, 5) ? (s.pick(10) << 4 | s.pick(10)) : (s.pick(16) << 4 | (0xA + s.pick(6)));
	if ((pp & 0xFF) == 0xFF) pp = 0xAA;
	unsigned pop_sub = s.pick(4);
	uint8_t txt[32]; memset(txt, 0x20, 32);
	tx::HeaderFlags f; f.c4_erase = s.chance(1, 2);
	const unsigned TERM = 63 | 0x1F << 6 | 0x7F << 11;
	struct Obj { unsigned type, ppk, g, hl, pos; };
	std::vector<Obj> objs; unsigned K = 1 + s.pick(5), pos = s.pick(3);
	unsigned trip[23 * 13]; for (auto &x : trip) x = TERM;
	unsigned ptab[4][13]; for (auto &pk : ptab) for (auto &x : pk) x = 0x1FF | 0x1FF << 9;
	auto inv_triplet = [&](const Obj &o, unsigned source, bool wrong_type) { unsigned ty = wrong_type ? 1 + bk.pick(3) : o.type; return (32 + (source << 3) + (bk.pick(2) << 2) + o.ppk) | (0x10 + ty) << 6 | (pop_sub | o.hl << 4 | o.g << 5) << 11; };
	for (unsigned k = 0; k < K; ++k) { Obj o; o.type = 1 + s.pick(3); o.ppk = s.chance(1, 4) ? s.pick(4) : s.pick(2); o.g = s.pick(4); o.hl = s.pick(2); o.pos = 0; bool dup = false; for (auto &q : objs) if (q.type == o.type && q.ppk == o.ppk && q.g == o.g && q.hl == o.hl) dup = true; if (!dup) objs.push_back(o); }
	for (size_t k = 0; k < objs.size(); ++k) {	// bodies
		Obj &o = objs[k]; if (pos + 10 >= 23 * 13) break; o.pos = pos;
		unsigned &pt = ptab[o.ppk][o.g * 3 + o.type]; pt = o.hl ? (pt & 0x1FF) | pos << 9 : (pt & ~0x1FFu) | pos;
		trip[pos++] = o.ppk | (0x14 + o.type) << 6 | (pop_sub | o.hl << 4 | o.g << 5) << 11;	// definition, address bits as in the invocation
		unsigned nb = 1 + s.pick(6);
		for (unsigned b = 0; b < nb && pos + 2 < 23 * 13; ++b) {
			unsigned w = s.pick(8);
			if (w <= 2) trip[pos++] = bk.pick(40) | (bk.pick(2) ? 0x09 : bk.pick(2) ? 0x01 : 0x10 + bk.pick(16)) << 6 | (0x20 + bk.pick(0x60)) << 11;
			else if (w == 3) trip[pos++] = (40 + bk.pick(24)) | (bk.pick(2) ? 0x04 : 0x01) << 6 | bk.pick(40) << 11;
			else if (w == 4) trip[pos++] = bk.pick(40) | (bk.pick(2) ? 0x00 : 0x03) << 6 | bk.pick(32) << 11;
			else {	// invocation of an object of this table
				size_t tgt = s.pick((uint32_t) objs.size());
				if (s.chance(1, 3)) tgt = k;					// itself
				else if (s.chance(1, 2)) for (size_t j = 0; j < objs.size(); ++j) if (objs[j].type > o.type) tgt = j;	// a legal one
				trip[pos++] = inv_triplet(objs[tgt], s.chance(1, 8) ? 3 : 2, s.chance(1, 16));
			}
		}
		if (s.chance(3, 4)) trip[pos++] = TERM;
		pos += s.pick(3);
	}
	out.push_back(tx::header(mag, pp, pop_sub, f, txt));
	for (unsigned pk = 1; pk <= 4; ++pk) { bool used = false; for (auto &o : objs) if (o.ppk == pk - 1) used = true; if (used || (pk <= 2 && s.chance(1, 2))) out.push_back(tx::triplets(mag, pk, 1 | (s.pick(8) << 1), ptab[pk - 1])); }
	for (unsigned pk = 3; pk <= 25; ++pk) {
		if ((pk - 3) * 13 > pos) break;
		bool ptr_pk = false; for (auto &o : objs) if (o.ppk == pk - 1) ptr_pk = true;
		if (ptr_pk) continue;	// packet 3 / 4 carries pointers in this page, its triplet area is lost (objects there are dangling on purpose)
		out.push_back(tx::triplets(mag, pk, s.pick(8) << 1, trip + (pk - 3) * 13));
	}
	// the page invoking them
	unsigned page = s.pick(10) << 4 | s.pick(10);
	out.push_back(tx::header(mag, page, 0, f, txt));
	if (recent) { recent->push_back(mag << 8 | page); recent->push_back(mag << 8 | pp); }
	for (unsigned y = 1; y <= 24; ++y) if (!bk.pick(3)) { uint8_t row[40]; for (auto &b : row) b = (uint8_t)(bk.pick(6) ? 0x20 + bk.pick(0x60) : bk.pick(0x20)); out.push_back(tx::row(mag, y, row)); }
	{ unsigned t[13]; for (auto &x : t) x = 0; for (int i = 0; i < 6; ++i) t[i * 2] = 0xF << 7 | 0x7 << 15;
	  unsigned lk = (pp & 15) << 7 | ((pp >> 4) & 15) << 15;
	  if (s.chance(7, 8)) t[2] = 1 | lk; if (s.chance(1, 2)) t[0] = lk; t[3] = t[1] = (s.chance(3, 4) ? 0 : bk.pick(0x10000)) << 3;
	  out.push_back(tx::triplets(mag, 27, 4, t)); }
	{ unsigned t[13]; for (auto &x : t) x = TERM; unsigned n = 0;
	  while (n + 2 < 13 && (n == 0 || s.chance(2, 3))) { t[n++] = (40 + bk.pick(24)) | 0x04 << 6 | bk.pick(40) << 11; const Obj &o = objs[s.pick((uint32_t) objs.size())]; t[n++] = inv_triplet(o, s.chance(1, 8) ? 3 : 2, s.chance(1, 16)); }
	  out.push_back(tx::triplets(mag, 26, 0, t)); }
	out.push_back(tx::header(mag, 0xFF, 0x3F7F, f, txt));
	return mag << 8 | page;
}


// A consistent TOP neighbourhood: the basic table page 1F0 (page types, and links to Additional Information Table, Multipage Table and
// Multipage Extension pages in rows 21 / 22), the linked pages themselves (AIT: two titles per row, each a page link and twelve
// characters), and an ordinary page without FLOF links, so that the formatter composes the TOP navigation bar from the AIT titles, the
// TOP index page 900 can be fetched and vbi_page_title() finds titles. Returns the number of the ordinary page.
static inline unsigned gen_top(vf::Src &s, std::vector<tx::Packet> &out, std::vector<unsigned> *recent = nullptr) {
	Bulk bk(s.u32());
	uint8_t txt[32]; memset(txt, 0x20, 32);
	tx::HeaderFlags f; f.c4_erase = true;
	auto hamrow = [&](unsigned mag, unsigned packet, const std::vector<unsigned> &nib) { tx::Packet p; enc::address(p.b, mag, packet); for (int i = 0; i < 40; ++i) p.b[2 + i] = enc::ham8(i < (int) nib.size() ? nib[(size_t) i] : bk.pick(16)); out.push_back(p); };
	struct Tp { unsigned pgno, fn; };	// TOP pages: function 1 MPT, 2 AIT, 3 MPT-EX
	std::vector<Tp> tops; unsigned nt = 1 + s.pick(4);
	for (unsigned k = 0; k < nt; ++k) { Tp t; t.pgno = s.chance(2, 3) ? 0x1F1 + k : ((1 + s.pick(8)) << 8 | s.pick(10) << 4 | s.pick(10)); t.fn = s.chance(2, 3) ? 2 : 1 + s.pick(3); tops.push_back(t); }
	unsigned page = (1 + s.pick(8)) << 8 | s.pick(10) << 4 | s.pick(10);
	// basic table
	out.push_back(tx::header(1, 0xF0, 0, f, txt));
	for (unsigned pk = 1; pk <= 20; ++pk) if (s.chance(3, 4)) { std::vector<unsigned> n; for (int i = 0; i < 40; ++i) n.push_back(bk.pick(5) ? 1 + bk.pick(11) : bk.pick(16)); hamrow(1, pk, n); }
	for (unsigned pk = 21; pk <= 22; ++pk) if (pk == 21 || s.chance(1, 2)) {
		std::vector<unsigned> n;
		for (int l = 0; l < 5; ++l) {
			const Tp &t = tops[bk.pick((unsigned) tops.size())]; bool junk = !bk.pick(6);
			unsigned pg = junk ? bk.pick(0x1000) : t.pgno;
			n.push_back(pg >> 8); n.push_back((pg >> 4) & 15); n.push_back(pg & 15);
			for (int k = 0; k < 4; ++k) n.push_back(junk ? bk.pick(16) : 0);
			n.push_back(junk ? bk.pick(16) : t.fn);
		}
		hamrow(1, pk, n);
	}
	if (s.chance(1, 4)) { std::vector<unsigned> n; hamrow(1, 23, n); }
	out.push_back(tx::header(1, 0xFF, 0x3F7F, f, txt));
	// the linked pages
	for (auto &t : tops) {
		unsigned mag = t.pgno >> 8;
		out.push_back(tx::header(mag, t.pgno & 0xFF, s.chance(3, 4) ? 0 : s.pick(4), f, txt));
		if (recent) recent->push_back(t.pgno);
		unsigned nrows = s.pick(24);
		for (unsigned pk = 1; pk <= nrows && pk <= 23; ++pk) {
			if (t.fn == 2) {	// two titles
				tx::Packet p; enc::address(p.b, mag, pk);
				for (int half = 0; half < 2; ++half) {
					uint8_t *q = p.b + 2 + 20 * half;
					unsigned kind = bk.pick(8);
					unsigned pg = kind == 0 ? 0 : kind == 1 ? page : kind == 2 ? bk.pick(0x1000) : ((1 + bk.pick(8)) << 8 | bk.pick(10) << 4 | bk.pick(10));
					unsigned nib[8] = { pg >> 8, (pg >> 4) & 15, pg & 15, 0, 0, bk.pick(3) ? 0 : bk.pick(8), bk.pick(3) ? 0 : bk.pick(10), bk.pick(16) };
					for (int i = 0; i < 8; ++i) q[i] = enc::ham8(nib[i]);
					unsigned len = bk.pick(13);
					for (unsigned i = 0; i < 12; ++i) q[8 + i] = enc::par((uint8_t) (i < len ? (bk.pick(10) ? 0x41 + bk.pick(26) : bk.pick(0x20)) : 0x20));	// now and then a spacing attribute inside the title
				}
				out.push_back(p);
			} else { std::vector<unsigned> n; for (int i = 0; i < 40; ++i) n.push_back(bk.pick(4) ? bk.pick(10) : bk.pick(16)); hamrow(mag, pk, n); }
		}
		out.push_back(tx::header(mag, 0xFF, 0x3F7F, f, txt));
	}
	// an ordinary page
	out.push_back(tx::header(page >> 8, page & 0xFF, 0, f, txt));
	for (unsigned y = 1; y <= 24; ++y) if (!bk.pick(3)) { uint8_t row[40]; for (auto &b : row) b = (uint8_t)(bk.pick(6) ? 0x20 + bk.pick(0x60) : bk.pick(0x20)); out.push_back(tx::row(page >> 8, y, row)); }
	out.push_back(tx::header(page >> 8, 0xFF, 0x3F7F, f, txt));
	if (recent) recent->push_back(page);	// (not 900: the list also feeds calls whose page number argument must be a transmittable page, 100-8FF)
	return page;
}


// EACEM triggers (TP 14-99-16): page 1E7 whose rows hold trigger strings "<url>[attr:value]...[checksum]". Triggers with a countdown
// are kept by the decoder and fired later, [delete] removes a kept one, the same trigger sent again is ignored.
static inline unsigned gen_eacem(vf::Src &s, std::vector<tx::Packet> &out) {
	uint8_t txt[32]; memset(txt, 0x20, 32);
	tx::HeaderFlags f; f.c4_erase = true;
	out.push_back(tx::header(1, 0xE7, 0, f, txt));
	unsigned n = 1 + s.pick(3);
	for (unsigned k = 0; k < n; ++k) {
		char buf[128]; int len = snprintf(buf, sizeof buf, "<http://%c.tv/%u>", 'a' + (int) s.pick(3), s.pick(3));
		if (s.chance(1, 2)) len += snprintf(buf + len, sizeof buf - (size_t) len, "[name:%c%c]", 'A' + (int) s.pick(26), 'a' + (int) s.pick(26));
		switch (s.pick(5)) { case 0: break; case 1: case 2: len += snprintf(buf + len, sizeof buf - (size_t) len, "[countdown:%u]", s.chance(1, 2) ? s.pick(4) : s.pick(100000)); break;
			case 3: len += snprintf(buf + len, sizeof buf - (size_t) len, "[countdown:%uF%02u]", s.pick(3), s.pick(25)); break; default: len += snprintf(buf + len, sizeof buf - (size_t) len, "[active:%u]", s.pick(100)); break; }
		if (s.chance(1, 4)) len += snprintf(buf + len, sizeof buf - (size_t) len, "[delete]");
		if (s.chance(1, 6)) len += snprintf(buf + len, sizeof buf - (size_t) len, "[priority:%u]", s.pick(12));
		if (len > 74) len = 74;
		unsigned sum = 0; for (int i = 0; i + 1 < len; i += 2) sum += ((unsigned)(uint8_t) buf[i] << 8) + (uint8_t) buf[i + 1]; if (len & 1) sum += (unsigned)(uint8_t) buf[len - 1] << 8;
		while (sum >> 16) sum = (sum & 0xFFFF) + (sum >> 16);
		unsigned ck = ~sum & 0xFFFF; if (s.chance(1, 10)) ck ^= 1 + s.pick(0xFFFF);
		len += snprintf(buf + len, sizeof buf - (size_t) len, "[%04X]", ck);
		// a trigger may run over two rows
		unsigned y = 1 + 2 * k;
		for (int at = 0; at < len; at += 40, ++y) { uint8_t row[40]; memset(row, 0x20, 40); memcpy(row, buf + at, (size_t) std::min(40, len - at)); out.push_back(tx::row(1, y, row)); }
	}
	out.push_back(tx::header(1, 0xFF, 0x3F7F, f, txt));
	return 0x1E7;
}


} // namespace l25
