// Generators for Teletext page content (row grammar with interacting spacing attributes) shared by
// the Teletext properties.  All choices come from vf::Src.
#pragma once
#include "../engine/engine.h"
#include "ttx_tx.h"

namespace ttxgen {

// one row of 40 seven-bit codes from a grammar weighted towards interacting spacing attributes
static inline void gen_row(vf::Src &s, uint8_t row[40], unsigned richness /*0 plain text .. 3 attribute heavy*/, bool *interacting) {
	int col = 0;
	auto put = [&](unsigned c) { if (col < 40) row[col++] = (uint8_t)(c & 0x7F); };
	while (col < 40) {
		unsigned what = richness == 0 ? 0 : s.pick(richness == 1 ? 6 : 15);
		switch (what) {
		case 0: case 1: case 2: {	// text run
			unsigned n = 1 + s.pick(10);
			for (unsigned i = 0; i < n; ++i) { unsigned c = s.range(0x20, 0x7F); if (s.chance(1, 6)) { static const uint8_t nat[] = {0x23, 0x24, 0x40, 0x5B, 0x5C, 0x5D, 0x5E, 0x5F, 0x60, 0x7B, 0x7C, 0x7D, 0x7E, 0x7F}; c = nat[s.pick(14)]; } put(c); }
			break;
		}
		case 3: put(s.pick(8)); break;			// alpha colour
		case 4: put(0x20); break;
		case 5: put(s.range(0x00, 0x1F)); break;		// any spacing attribute
		case 6: {	// mosaics with hold across a colour change
			put(0x10 + s.pick(8)); unsigned n = 1 + s.pick(4); for (unsigned i = 0; i < n; ++i) put(0x20 | s.pick(0x60));
			if (s.chance(1, 2)) { put(0x1E); put(0x10 + s.pick(8)); if (s.chance(1, 2)) put(s.pick(8)); if (s.chance(1, 2)) put(0x10 + s.pick(8)); put(0x1F); *interacting = true; }
			if (s.chance(1, 3)) { put(s.chance(1, 2) ? 0x1A : 0x19); put(0x20 | s.pick(0x60)); }
			break;
		}
		case 7: { put(s.chance(1, 2) ? 0x0D : (s.chance(1, 2) ? 0x0E : 0x0F)); unsigned n = 1 + s.pick(5); for (unsigned i = 0; i < n; ++i) put(s.range(0x41, 0x5A)); if (s.chance(1, 2)) put(0x0C); *interacting = true; break; }
		case 8: { put(0x0B); put(0x0B); unsigned n = 1 + s.pick(6); for (unsigned i = 0; i < n; ++i) put(s.range(0x41, 0x7A)); put(0x0A); put(0x0A); *interacting = true; break; }
		case 9: { put(s.pick(8)); put(0x1D); if (s.chance(1, 2)) put(s.pick(8)); unsigned n = 1 + s.pick(5); for (unsigned i = 0; i < n; ++i) put(s.range(0x30, 0x7A)); if (s.chance(1, 2)) put(0x1C); break; }
		case 10: { put(0x08); unsigned n = 1 + s.pick(4); for (unsigned i = 0; i < n; ++i) put(s.range(0x41, 0x5A)); put(0x09); break; }
		case 11: { put(0x18); unsigned n = 1 + s.pick(4); for (unsigned i = 0; i < n; ++i) put(s.range(0x41, 0x5A)); put(s.pick(8)); break; }
		case 12: { put(0x1E); put(0x10 + s.pick(8)); put(0x20 | s.pick(0x60)); put(s.chance(1, 2) ? 0x0D : 0x0C); put(0x10 + s.pick(8)); put(0x1F); *interacting = true; break; }	// hold + size change
		case 13: {	// hold mosaics first, spacing attributes before the first mosaic character of the row
			put(0x1E); put(0x10 + s.pick(8)); unsigned n = 1 + s.pick(3); for (unsigned i = 0; i < n; ++i) { static const uint8_t a[] = {0x10, 0x11, 0x17, 0x08, 0x09, 0x18, 0x1C, 0x1D, 0x19, 0x1A}; put(a[s.pick(10)]); }
			put(0x20 | s.pick(0x60)); if (s.chance(1, 2)) { unsigned m = s.pick(30); for (unsigned i = 0; i < m; ++i) put(0x60 | s.pick(0x20)); }
			*interacting = true; break; }
		default: put(0x1B); break;	// ESC
		}
	}
}

} // namespace ttxgen
