// Transmitter side of the broadcast service data carriers: Teletext packet 8/30 format 1 (EN 300 706 9.8.1) and
// format 2 (EN 300 706 9.8.2 / EN 300 231 8.2.1), VPS (EN 300 231 8.1).  Nothing here calls libzvbi.
#pragma once
#include "ttx_enc.h"
#include <cstring>

namespace bsd {

struct F2 { unsigned lci, luf, prf, pcs, mi, res, cni, pil, pty; };

// fills a 42 byte packet 8/30 with the given designation; initial page 100, subcode 3F7F; text bytes blank with odd parity
static inline void base_830(uint8_t *pkt, unsigned designation) {
	for (int i = 0; i < 42; ++i) pkt[i] = enc::par(0x20);
	enc::address(pkt, 8, 30);
	pkt[2] = enc::ham8(designation);
	// initial page: units, tens, S1, S2+M1, S3, S4+M2M3 ; magazine bits relative to 0 (mag 8 -> M = 0 means magazine 8 ^ ... see 9.8)
	pkt[3] = enc::ham8(0); pkt[4] = enc::ham8(0);
	pkt[5] = enc::ham8(0xF); pkt[6] = enc::ham8(0x7 | 0x8);	// M1 = 1 -> magazine 1
	pkt[7] = enc::ham8(0xF); pkt[8] = enc::ham8(0x3);
}

static inline void enc_8302(uint8_t *pkt, const F2 &f) {
	uint8_t b[13] = {0};
	b[6] = (uint8_t)((f.lci << 2) | (f.luf << 1) | f.prf);
	b[7] = (uint8_t)((f.pcs << 6) | (f.mi << 5) | (f.res << 4) | ((f.cni >> 12) & 15));
	b[8] = (uint8_t)(((f.cni) & 0xC0) | ((f.pil >> 14) & 0x3F));
	b[9] = (uint8_t)((f.pil >> 6) & 0xFF);
	b[10] = (uint8_t)(((f.pil & 0x3F) << 2) | ((f.cni >> 10) & 3));
	b[11] = (uint8_t)(((f.cni >> 2) & 0xC0) | (f.cni & 0x3F));
	b[12] = (uint8_t) f.pty;
	pkt[9] = enc::ham8(enc::rev4(b[6] & 15));
	for (int i = 7; i <= 12; ++i) {
		unsigned t = enc::rev8(b[i]);
		pkt[i * 2 - 4] = enc::ham8(t & 15);
		pkt[i * 2 - 3] = enc::ham8(t >> 4);
	}
}

static inline void enc_8301(uint8_t *pkt, unsigned cni, unsigned lto_code /*6 bits: sign<<5|halfhours*/, unsigned mjd, unsigned h, unsigned m, unsigned sec) {
	unsigned rc = enc::rev16(cni);
	pkt[9] = rc & 0xFF; pkt[10] = (uint8_t)(rc >> 8);
	unsigned sign = (lto_code >> 5) & 1, hh = lto_code & 31;
	pkt[11] = (uint8_t)(0x81 | (sign << 6) | (hh << 1));
	unsigned d[5]; unsigned x = mjd; for (int i = 4; i >= 0; --i) { d[i] = x % 10; x /= 10; }
	pkt[12] = (uint8_t)(d[0] + 1);
	pkt[13] = (uint8_t)(((d[1] + 1) << 4) | (d[2] + 1));
	pkt[14] = (uint8_t)(((d[3] + 1) << 4) | (d[4] + 1));
	pkt[15] = (uint8_t)(((h / 10 + 1) << 4) | (h % 10 + 1));
	pkt[16] = (uint8_t)(((m / 10 + 1) << 4) | (m % 10 + 1));
	pkt[17] = (uint8_t)(((sec / 10 + 1) << 4) | (sec % 10 + 1));
	for (int i = 18; i < 22; ++i) pkt[i] = 0;
}

// VPS line, 13 bytes as libzvbi passes them (bytes 3..15 of the line, EN 300 231 figure 9): CNI 12 bits, PIL 20 bits, PCS 2 bits, PTY 8 bits
static inline void enc_vps(uint8_t b[13], unsigned cni, unsigned pil, unsigned pcs, unsigned pty) {
	memset(b, 0, 13);
	b[2] = (uint8_t)(pcs << 6);				// byte 5: sound bits
	b[8] = (uint8_t)((cni & 0xC0) | ((pil >> 14) & 0x3F));		// byte 11: cni bits 7..6, day / month
	b[9] = (uint8_t)((pil >> 6) & 0xFF);			// byte 12
	b[10] = (uint8_t)(((pil & 0x3F) << 2) | ((cni >> 10) & 3));	// byte 13: minute, country b1 b0 (cni 11..10)
	b[11] = (uint8_t)(((cni >> 2) & 0xC0) | (cni & 0x3F));	// byte 14: network
	b[12] = (uint8_t) pty;					// byte 15
}

} // namespace bsd
