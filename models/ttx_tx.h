// Teletext transmitter: builds 42-byte packets (without clock run-in / framing code) from
// EN 300 706 section 9.3 (page header, normal rows) and 9.4-9.6 (X/26 .. X/28), 9.8 (8/30).
#pragma once
#include "ttx_enc.h"
#include <cstring>
#include <vector>

namespace tx {

struct Packet { uint8_t b[42]; };

struct HeaderFlags {
	bool c4_erase = false, c5_newsflash = false, c6_subtitle = false, c7_suppress_header = false,
	     c8_update = false, c9_interrupted = false, c10_inhibit = false, c11_serial = false;
	unsigned national = 0;	// C12 C13 C14 as a 3 bit number, C12 = msb (EN 300 706 table 32)
};

// page: two hex digits (tens << 4 | units); subcode: S4 S3 S2 S1 as 0x3F7F style number
static inline Packet header(unsigned mag, unsigned page, unsigned subcode, const HeaderFlags &f, const uint8_t text[32]) {
	Packet p;
	enc::address(p.b, mag, 0);
	p.b[2] = enc::ham8(page & 15);
	p.b[3] = enc::ham8((page >> 4) & 15);
	p.b[4] = enc::ham8(subcode & 15);					// S1
	p.b[5] = enc::ham8(((subcode >> 4) & 7) | (f.c4_erase ? 8 : 0));	// S2 + C4
	p.b[6] = enc::ham8((subcode >> 8) & 15);				// S3
	p.b[7] = enc::ham8(((subcode >> 12) & 3) | (f.c5_newsflash ? 4 : 0) | (f.c6_subtitle ? 8 : 0));	// S4 + C5 C6
	p.b[8] = enc::ham8((f.c7_suppress_header ? 1 : 0) | (f.c8_update ? 2 : 0) | (f.c9_interrupted ? 4 : 0) | (f.c10_inhibit ? 8 : 0));
	p.b[9] = enc::ham8((f.c11_serial ? 1 : 0) | ((f.national & 4) ? 2 : 0) | ((f.national & 2) ? 4 : 0) | ((f.national & 1) ? 8 : 0));
	for (int i = 0; i < 32; ++i) p.b[10 + i] = enc::par(text[i]);
	return p;
}

static inline Packet row(unsigned mag, unsigned packet, const uint8_t text[40]) {
	Packet p;
	enc::address(p.b, mag, packet);
	for (int i = 0; i < 40; ++i) p.b[2 + i] = enc::par(text[i]);
	return p;
}

// packets with a designation code and 13 Hamming 24/18 triplets (X/26, X/28, M/29)
static inline Packet triplets(unsigned mag, unsigned packet, unsigned designation, const unsigned t18[13]) {
	Packet p;
	enc::address(p.b, mag, packet);
	p.b[2] = enc::ham8(designation & 15);
	for (int i = 0; i < 13; ++i) enc::ham24(p.b + 3 + i * 3, t18[i]);
	return p;
}

// X/27/0..3: six links of six Hamming 8/4 bytes, link control byte, CRC (not checked by receivers here)
struct Link { unsigned mag_rel_page; unsigned page; unsigned subcode; };	// page number 0x100..0x8FF, subcode 0x3F7F style
static inline Packet x27(unsigned mag, unsigned designation, const unsigned pgno[6], const unsigned subcode[6], unsigned link_control) {
	Packet p;
	enc::address(p.b, mag, 27);
	p.b[2] = enc::ham8(designation & 15);
	for (int i = 0; i < 6; ++i) {
		uint8_t *q = p.b + 3 + i * 6;
		unsigned pg = pgno[i], sc = subcode[i];
		unsigned m = ((pg >> 8) & 7) ^ (mag & 7);		// relative magazine: M1 in S2 bit 3, M2 M3 in S4 bits 2,3
		q[0] = enc::ham8(pg & 15);
		q[1] = enc::ham8((pg >> 4) & 15);
		q[2] = enc::ham8(sc & 15);
		q[3] = enc::ham8(((sc >> 4) & 7) | ((m & 1) << 3));
		q[4] = enc::ham8((sc >> 8) & 15);
		q[5] = enc::ham8(((sc >> 12) & 3) | ((m & 6) << 1));
	}
	p.b[39] = enc::ham8(link_control & 15);
	p.b[40] = 0; p.b[41] = 0;
	return p;
}

} // namespace tx
