// Generator of raw VBI decoding configurations shared by C04 (round trip) and C05 (memory bounds): sampling parameters,
// service blocks, payloads.  Nominal signal windows are written from the standards (EN 300 706 / EN 300 231 / EN 300 294 /
// EIA-608), not read from the decoder's service table.
#pragma once
#include "../engine/engine.h"
extern "C" {
#include "src/macros.h"
#include "src/version.h"
#include "src/sliced.h"
#include "src/decoder.h"
#include "src/raw_decoder.h"
#include "src/io-sim.h"
}
#include <cmath>

namespace rawgen {

struct Blk { unsigned service; unsigned first, last; };
struct Set { const char *name; int scanning; bool teletext; double min_rate; Blk b[6]; bool single_field; int field; };

// the service combinations the library documents as decodable together (test/test-raw_decoder.cc) plus single services
static const Set SETS[] = {
	{ "ttx_a", 625, true, 13.5e6, {{VBI_SLICED_TELETEXT_A, 6, 22}, {VBI_SLICED_TELETEXT_A, 318, 335}, {0, 0, 0}}, false, 0 },
	{ "ttx_c_625", 625, true, 13.5e6, {{VBI_SLICED_TELETEXT_C_625, 6, 22}, {VBI_SLICED_TELETEXT_C_625, 318, 335}, {0, 0, 0}}, false, 0 },
	{ "ttx_b_wss_cc_625", 625, true, 13.5e6, {{VBI_SLICED_TELETEXT_B_625, 6, 21}, {VBI_SLICED_CAPTION_625, 22, 22}, {VBI_SLICED_WSS_625, 23, 23}, {VBI_SLICED_TELETEXT_B_625, 318, 334}, {VBI_SLICED_CAPTION_625, 335, 335}, {0, 0, 0}}, false, 0 },
	{ "ttx_b_625", 625, true, 13.5e6, {{VBI_SLICED_TELETEXT_B_625, 6, 22}, {VBI_SLICED_TELETEXT_B_625, 318, 335}, {0, 0, 0}}, false, 0 },
	{ "vps_wss_cc_625", 625, false, 10.0e6, {{VBI_SLICED_VPS, 16, 16}, {VBI_SLICED_CAPTION_625, 22, 22}, {VBI_SLICED_WSS_625, 23, 23}, {VBI_SLICED_CAPTION_625, 335, 335}, {0, 0, 0}}, false, 0 },
	{ "cc_625", 625, false, 3.0e6, {{VBI_SLICED_CAPTION_625, 22, 22}, {VBI_SLICED_CAPTION_625, 335, 335}, {0, 0, 0}}, false, 0 },
	{ "vps", 625, false, 10.0e6, {{VBI_SLICED_VPS, 16, 16}, {0, 0, 0}}, false, 0 },
	{ "wss_625", 625, false, 10.0e6, {{VBI_SLICED_WSS_625, 23, 23}, {0, 0, 0}}, false, 0 },
	{ "hi_f1_625", 625, false, 10.0e6, {{VBI_SLICED_VPS, 16, 16}, {VBI_SLICED_CAPTION_625_F1, 22, 22}, {VBI_SLICED_WSS_625, 23, 23}, {0, 0, 0}}, true, 0 },
	{ "ttx_c_525", 525, true, 13.5e6, {{VBI_SLICED_TELETEXT_C_525, 10, 21}, {VBI_SLICED_TELETEXT_C_525, 272, 284}, {0, 0, 0}}, false, 0 },
	{ "ttx_d_525", 525, true, 13.5e6, {{VBI_SLICED_TELETEXT_D_525, 10, 21}, {VBI_SLICED_TELETEXT_D_525, 272, 284}, {0, 0, 0}}, false, 0 },
	{ "ttx_b_cc_525", 525, true, 13.5e6, {{VBI_SLICED_TELETEXT_B_525, 10, 20}, {VBI_SLICED_CAPTION_525, 21, 21}, {VBI_SLICED_TELETEXT_B_525, 272, 283}, {VBI_SLICED_CAPTION_525, 284, 284}, {0, 0, 0}}, false, 0 },
	{ "cc_525", 525, false, 3.0e6, {{VBI_SLICED_CAPTION_525, 21, 21}, {VBI_SLICED_CAPTION_525, 284, 284}, {0, 0, 0}}, false, 0 },
	{ "cc_f2_525", 525, false, 3.0e6, {{VBI_SLICED_CAPTION_525_F2, 284, 284}, {0, 0, 0}}, true, 1 },
};
static const unsigned N_SETS = sizeof SETS / sizeof SETS[0];

// nominal signal window in microseconds after 0H: first CRI edge .. end of the last payload bit
static inline void window_us(unsigned service, double *start, double *end) {
	if (service & (VBI_SLICED_TELETEXT_B_625 | VBI_SLICED_TELETEXT_B_L10_625 | VBI_SLICED_TELETEXT_B_L25_625)) { *start = 10.3; *end = 10.3 + 360 / 6.9375; }
	else if (service & VBI_SLICED_TELETEXT_A) { *start = 10.5; *end = 10.5 + (24 + 37 * 8) / 6.203125; }
	else if (service & VBI_SLICED_TELETEXT_C_625) { *start = 10.48; *end = 10.48 + (24 + 33 * 8) / 5.734375; }
	else if (service & VBI_SLICED_TELETEXT_D_625) { *start = 10.5; *end = 10.5 + (24 + 34 * 8) / 5.642787; }
	else if (service & (VBI_SLICED_TELETEXT_B_525 | VBI_SLICED_TELETEXT_C_525)) { *start = 10.48; *end = 10.5 + (24 + 34 * 8) / 5.727272; }
	else if (service & VBI_SLICED_TELETEXT_D_525) { *start = 9.78; *end = 9.78 + (24 + 34 * 8) / 5.727272; }
	else if (service & (VBI_SLICED_VPS | VBI_SLICED_VPS_F2)) { *start = 12.5; *end = 12.5 + (4 + 26) * 8 / 5.0; }
	else if (service & VBI_SLICED_WSS_625) { *start = 11.0; *end = 11.0 + (29 + 24 + 84 + 1) / 5.0; }
	else if (service & VBI_SLICED_CAPTION_625) { *start = 10.5; *end = 10.5 + 14.0 + 19 * 2.0; }
	else { *start = 10.5; *end = 10.5 + 7 / 0.503488 + 19 / 0.503488; }	// Closed Caption 525
}

// fastest symbol rate of a service in Hz: the bit rate for NRZ services, the half-bit (clock) rate for the biphase coded VPS and WSS
static inline double symbol_rate(unsigned service) {
	if (service & (VBI_SLICED_TELETEXT_B_625 | VBI_SLICED_TELETEXT_B_L10_625 | VBI_SLICED_TELETEXT_B_L25_625)) return 6937500;
	if (service & VBI_SLICED_TELETEXT_A) return 6203125;
	if (service & VBI_SLICED_TELETEXT_C_625) return 5734375;
	if (service & VBI_SLICED_TELETEXT_D_625) return 5642787;
	if (service & (VBI_SLICED_TELETEXT_B_525 | VBI_SLICED_TELETEXT_C_525 | VBI_SLICED_TELETEXT_D_525)) return 5727272;
	if (service & (VBI_SLICED_VPS | VBI_SLICED_VPS_F2 | VBI_SLICED_WSS_625)) return 5000000;
	return 1006976;	// Closed Caption run-in
}

struct Cfg {
	const Set *set;
	vbi_sampling_par sp;
	unsigned samples_per_line, bpp;
	unsigned strict;
	unsigned pixel_mask;
	bool customary_rate;
	std::vector<vbi_sliced> in;	// transmitted lines, ascending line numbers
	vbi_service_set requested;
};

static inline unsigned bpp_of(vbi_pixfmt f) { return (unsigned) VBI_PIXFMT_BPP(f); }

// returns false when the generated tuple is not a valid configuration (caller discards)
static inline bool gen_cfg(vf::Src &s, Cfg &c, bool all_pixfmts, double min_samples_per_symbol = 0, bool *burst_in_window = nullptr, bool avoid_burst = false, bool *marginal = nullptr) {
	c.set = &SETS[s.pick(N_SETS)];
	const Set &S = *c.set;
	memset(&c.sp, 0, sizeof c.sp);
	c.sp.scanning = S.scanning;
	// sampling rate: one of the customary rates or log-uniform from the documented minimum upward
	static const double CUST[] = {35468950, 27000000, 13500000, 14750000, 28636363, 12272727, 3000000};
	double rate;
	c.customary_rate = s.chance(1, 3);
	double min_rate = S.min_rate, fastest = 0; for (const Blk *b = S.b; b->service; ++b) fastest = std::max(fastest, symbol_rate(b->service));
	bool raised = false;
	if (min_samples_per_symbol * fastest > min_rate) { min_rate = min_samples_per_symbol * fastest; raised = true; }
	if (c.customary_rate) { rate = CUST[s.pick(7)]; if (rate < S.min_rate) rate = S.min_rate == 13.5e6 ? 13500000 : 27000000; if (rate < min_rate && rate != 13500000) rate = 27000000; }
	else { double lo = std::log(min_rate), hi = std::log(36.0e6); rate = std::exp(lo + (hi - lo) * (s.u16() / 65535.0)); }
	c.sp.sampling_rate = (int) rate;
	if (marginal) *marginal = rate < 2.2 * fastest && !(rate == 13500000 && raised);
	// pixel format
	std::vector<vbi_pixfmt> fmts;
	for (int f = 0; f < VBI_MAX_PIXFMTS; ++f) if (VBI_PIXFMT_SET_ALL & VBI_PIXFMT_SET((vbi_pixfmt) f)) fmts.push_back((vbi_pixfmt) f);
	vbi_pixfmt fmt = VBI_PIXFMT_YUV420;
	if (all_pixfmts && s.chance(1, 2)) fmt = fmts[s.pick((uint32_t) fmts.size())];
	c.sp.sampling_format = fmt;
	c.bpp = bpp_of(fmt);
	c.pixel_mask = fmt == VBI_PIXFMT_YUV420 ? 0 : 0xFFFFFFFFu;	// a grey picture: every colour component carries the signal (the generator's mask only selects components)
	// horizontal window: starts 1-6 us before the earliest signal, ends 1-3 us after the latest one (or at the end of the line)
	double smin = 1e9, emax = 0;
	for (const Blk *b = S.b; b->service; ++b) { double a, e; window_us(b->service, &a, &e); smin = std::min(smin, a); emax = std::max(emax, e); }
	// (the property allows any horizontal offset that keeps the signal inside the line: one case in eight starts anywhere between 0H and the signal)
	double t0; { unsigned u = s.u8(); t0 = u >= 224 ? (smin - 1.0) * (255 - u) / 31.0 : smin - 1.0 - 5.0 * (u / 255.0); }
	double t1 = emax + 1.0 + (s.chance(1, 2) ? 0.0 : 2.0 * (s.u8() / 255.0));
	if (s.chance(1, 4)) { t0 = 9.7 < smin - 1.0 ? 9.7 : smin - 1.0; }	// the offset the existing test uses
	if (t1 > 63.5) t1 = 63.5;
	{	// video images carry the colour burst (5.3 - 7.8 us after 0H); the Caption 525 detector, whose run-in test was relaxed, can lock on it
		bool cc525 = false; for (const Blk *b = S.b; b->service; ++b) if (b->service & VBI_SLICED_CAPTION_525) cc525 = true;
		bool burst = cc525 && c.pixel_mask && t0 < 8.8;
		if (burst && avoid_burst) { t0 = 8.8 + 0.9 * (t0 - 3.0) / 6.5; burst = false; if (burst_in_window) *burst_in_window = true; }
		else if (burst_in_window) *burst_in_window = burst;
	}
	c.sp.offset = (int)(t0 * 1e-6 * rate);
	c.samples_per_line = (unsigned) std::ceil((t1 - t0) * 1e-6 * rate);
	if (s.chance(1, 4)) c.samples_per_line = std::max(c.samples_per_line, (unsigned)(rate > 30e6 ? 2048 : rate > 20e6 ? 1440 : rate > 9e6 ? 720 : 176));
	if (c.samples_per_line > 4096) return false;
	if (fmt == VBI_PIXFMT_YUYV || fmt == VBI_PIXFMT_YVYU || fmt == VBI_PIXFMT_UYVY || fmt == VBI_PIXFMT_VYUY) c.samples_per_line += c.samples_per_line & 1;	// whole macropixels
	c.sp.bytes_per_line = (int)(c.samples_per_line * c.bpp);
	// line ranges: the customary VBI window of the system, optionally widened
	if (S.scanning == 625) { c.sp.start[0] = 6; c.sp.count[0] = 18; c.sp.start[1] = 318; c.sp.count[1] = 18; }
	else { c.sp.start[0] = 10; c.sp.count[0] = 12; c.sp.start[1] = 272; c.sp.count[1] = 13; }
	if (s.chance(1, 3)) { unsigned d = 1 + s.pick(3); c.sp.start[0] -= (int) d; c.sp.count[0] += (int)(d + s.pick(3)); d = 1 + s.pick(3); c.sp.start[1] -= (int) d; c.sp.count[1] += (int)(d + s.pick(3)); }
	c.sp.interlaced = s.chance(1, 3);
	c.sp.synchronous = !s.chance(1, 4);
	if (S.single_field) { c.sp.interlaced = FALSE; c.sp.start[1 - S.field] = 0; c.sp.count[1 - S.field] = 0; }
	c.strict = S.single_field ? s.pick(3) : s.pick(2) + (s.chance(1, 8) ? 1 : 0);
	// transmitted lines
	c.in.clear(); c.requested = 0;
	for (const Blk *b = S.b; b->service; ++b) {
		c.requested |= b->service;
		for (unsigned line = b->first; line <= b->last; ++line) {
			if (s.chance(1, 3)) continue;	// blank line
			vbi_sliced sl; memset(&sl, 0, sizeof sl);
			sl.id = b->service; sl.line = line;
			unsigned cls = s.pick(8);
			if (raised && rate < min_rate) cls = 7;	// 13.5 MHz exactly, below the oversampling margin: as the existing test, random payloads only
			for (unsigned i = 0; i < sizeof sl.data; ++i) sl.data[i] = cls == 0 ? 0x00 : cls == 1 ? 0xFF : cls == 2 ? 0x55 : cls == 3 ? (uint8_t)((i & 4) ? 0xFF : 0x00) : s.u8();
			c.in.push_back(sl);
		}
	}
	std::sort(c.in.begin(), c.in.end(), [](const vbi_sliced &a, const vbi_sliced &b) { return a.line < b.line; });
	return true;
}

// render the transmitted lines into an exactly sized heap image with the library's reference signal generator
static inline uint8_t *make_image(const Cfg &c, size_t *size, unsigned flags = 0) {
	size_t n = (size_t)(c.sp.count[0] + c.sp.count[1]) * (size_t) c.sp.bytes_per_line;
	uint8_t *raw = (uint8_t *) malloc(n ? n : 1);
	*size = n;
	bool ok;
	if (c.pixel_mask) { memset(raw, 0x5A, n); ok = _vbi_raw_video_image(raw, n, &c.sp, 0, 0, 0, c.pixel_mask, flags, c.in.data(), (unsigned) c.in.size()); }
	else ok = _vbi_raw_vbi_image(raw, n, &c.sp, 0, 0, flags, c.in.data(), (unsigned) c.in.size());
	if (!ok) { free(raw); return nullptr; }
	return raw;
}

} // namespace rawgen
