// Independent reading of EN 300 472 / EN 301 775 / ISO 13818-1 for DVB VBI:
// a parser (PES packets, TS packets, data units) and an encoder used as stream source for the
// demultiplexer properties.  Nothing here calls into libzvbi.
#pragma once
#include <cstdint>
#include <cstring>
#include <string>
#include <vector>
#include "ttx_enc.h"

namespace dvb {

enum Svc { TTX = 1, VPS = 2, WSS = 3, CC = 4, RAW = 5 };
struct Line { int svc; unsigned line; uint8_t data[42]; unsigned nbytes; };	// line = ITU-R frame line, 0 = undefined
struct Unit { unsigned id, len; Line l; bool is_line; bool first_seg, last_seg; unsigned first_pixel, n_pixels; std::vector<uint8_t> samples; };
struct Pes { int64_t pts; unsigned data_identifier; size_t size; std::vector<Unit> units; };

static inline bool fixed_format(unsigned di) { return (di & 0xF0) == 0x10; }

// parse one complete PES packet; returns "" or an error description
static inline std::string parse_pes(const uint8_t *p, size_t n, Pes *out) {
	char e[160];
	if (n < 46) return "PES packet shorter than header + data_identifier";
	if (p[0] != 0 || p[1] != 0 || p[2] != 1) return "packet_start_code_prefix != 000001";
	if (p[3] != 0xBD) return "stream_id != private_stream_1 (0xBD)";
	size_t len = (size_t) p[4] * 256 + p[5];
	if (len + 6 != n) { snprintf(e, sizeof e, "PES_packet_length %zu + 6 != packet size %zu", len, n); return e; }
	if (n % 184) { snprintf(e, sizeof e, "total PES packet size %zu is not a multiple of 184", n); return e; }
	if ((p[6] & 0xC0) != 0x80) return "PES header: '10' marker missing";
	if (p[6] & 0x30) return "PES_scrambling_control != 00";
	if (!(p[6] & 0x04)) return "data_alignment_indicator not set";
	if ((p[7] & 0xC0) != 0x80) return "PTS_DTS_flags != '10' (PTS shall be present)";
	if (p[7] & 0x3F) return "ESCR/ES_rate/trick/copy/CRC/extension flags set";
	if (p[8] != 0x24) return "PES_header_data_length != 0x24";
	if ((p[9] & 0xF1) != 0x21 || !(p[11] & 1) || !(p[13] & 1)) return "PTS marker bits wrong";
	out->pts = ((int64_t)(p[9] & 0x0E) << 29) | ((int64_t) p[10] << 22) | ((int64_t)(p[11] & 0xFE) << 14) | ((int64_t) p[12] << 7) | (p[13] >> 1);
	for (int i = 14; i < 45; ++i) if (p[i] != 0xFF) return "PES header stuffing byte != 0xFF";
	out->data_identifier = p[45];
	out->size = n;
	out->units.clear();
	bool fixed = fixed_format(p[45]);
	size_t at = 46;
	while (at < n) {
		if (at + 2 > n) return "data unit header crosses the packet end";
		Unit u; u.id = p[at]; u.len = p[at + 1]; u.is_line = false; u.first_seg = u.last_seg = false; u.first_pixel = u.n_pixels = 0;
		if (at + 2 + u.len > n) { snprintf(e, sizeof e, "data unit (id %02x len %u) at offset %zu crosses the packet end", u.id, u.len, at); return e; }
		if (fixed && u.len != 0x2C) { snprintf(e, sizeof e, "data_identifier %02x requires data_unit_length 0x2C, found %02x (unit id %02x)", p[45], u.len, u.id); return e; }
		const uint8_t *d = p + at + 2;
		unsigned used = 0;
		switch (u.id) {
		case 0xFF:
			for (unsigned i = 0; i < u.len; ++i) if (d[i] != 0xFF) return "stuffing data unit contains a byte != 0xFF";
			used = u.len;
			break;
		case 0x02: case 0x03: case 0xC0: case 0xC1:
			if (u.len < 44) return "Teletext data unit shorter than 44 bytes";
			if ((d[0] & 0xC0) != 0xC0) return "reserved bits of line byte not '11'";
			if (d[1] != 0xE4) return "Teletext framing code != 0xE4";
			u.is_line = true; u.l.svc = TTX; u.l.nbytes = 42;
			for (int i = 0; i < 42; ++i) u.l.data[i] = enc::rev8(d[2 + i]);
			used = 44;
			break;
		case 0xC3:
			if (u.len < 14) return "VPS data unit shorter than 14 bytes";
			u.is_line = true; u.l.svc = VPS; u.l.nbytes = 13; memcpy(u.l.data, d + 1, 13); used = 14;
			break;
		case 0xC4:
			if (u.len < 3) return "WSS data unit shorter than 3 bytes";
			if ((d[2] & 3) != 3) return "WSS reserved bits not '11'";
			u.is_line = true; u.l.svc = WSS; u.l.nbytes = 2; u.l.data[0] = enc::rev8(d[1]); u.l.data[1] = enc::rev8(d[2]) & 0x3F; used = 3;
			break;
		case 0xC5:
			if (u.len < 3) return "Closed Caption data unit shorter than 3 bytes";
			u.is_line = true; u.l.svc = CC; u.l.nbytes = 2; u.l.data[0] = enc::rev8(d[1]); u.l.data[1] = enc::rev8(d[2]); used = 3;
			break;
		case 0xC6:
			if (u.len < 4) return "monochrome data unit shorter than 4 bytes";
			u.is_line = true; u.l.svc = RAW; u.l.nbytes = 0;
			u.first_seg = d[0] & 0x80; u.last_seg = d[0] & 0x40;
			u.first_pixel = d[1] * 256 + d[2]; u.n_pixels = d[3];
			if (4 + u.n_pixels > u.len) return "monochrome data unit: n_pixels exceeds the unit";
			u.samples.assign(d + 4, d + 4 + u.n_pixels);
			used = 4 + u.n_pixels;
			break;
		default:
			snprintf(e, sizeof e, "illegal data_unit_id %02x", u.id); return e;
		}
		if (u.is_line) {
			if (u.id != 0xC6 && (d[0] & 0xC0) != 0xC0) return "reserved bits of line byte not '11'";
			unsigned parity = (d[0] >> 5) & 1, off = d[0] & 31;
			u.l.line = off == 0 ? 0 : (parity ? off : off + 313);
			if (off == 0) u.l.line = parity ? 0 : 0;
		}
		for (unsigned i = used; i < u.len; ++i) if (d[i] != 0xFF) { snprintf(e, sizeof e, "stuffing byte != 0xFF inside data unit id %02x", u.id); return e; }
		out->units.push_back(u);
		at += 2 + u.len;
	}
	return "";
}

struct TsState { int cc = -1; };
// strip TS headers of a sequence of 188 byte packets; returns PES packets as they commence with PUSI
static inline std::string parse_ts(const uint8_t *p, size_t n, unsigned pid, TsState &st, std::vector<std::vector<uint8_t>> *pes) {
	char e[160];
	if (n % 188) { snprintf(e, sizeof e, "TS output of %zu bytes is not a multiple of 188", n); return e; }
	for (size_t at = 0; at < n; at += 188) {
		const uint8_t *q = p + at;
		if (q[0] != 0x47) return "TS sync byte != 0x47";
		if (q[1] & 0x80) return "transport_error_indicator set";
		unsigned got = ((q[1] & 0x1F) << 8) | q[2];
		if (got != pid) { snprintf(e, sizeof e, "TS PID %04x, configured %04x", got, pid); return e; }
		if (q[3] & 0xC0) return "transport_scrambling_control != 00";
		if ((q[3] & 0x30) != 0x10) return "adaptation_field_control != '01'";
		int cc = q[3] & 15;
		if (st.cc >= 0 && cc != ((st.cc + 1) & 15)) { snprintf(e, sizeof e, "continuity_counter %d follows %d", cc, st.cc); return e; }
		st.cc = cc;
		bool pusi = q[1] & 0x40;
		if (pusi) pes->push_back(std::vector<uint8_t>());
		else if (pes->empty()) return "first TS packet without payload_unit_start_indicator";
		else {
			// a continuation: the PES packet in progress must still need bytes
			const std::vector<uint8_t> &cur = pes->back();
			if (cur.size() >= 6) { size_t want = (size_t) cur[4] * 256 + cur[5] + 6; if (cur.size() >= want) return "TS packet without payload_unit_start_indicator after a complete PES packet"; }
		}
		if (pusi && pes->size() >= 2) {
			const std::vector<uint8_t> &prev = (*pes)[pes->size() - 2];
			if (prev.size() < 6 || prev.size() != (size_t) prev[4] * 256 + prev[5] + 6) return "payload_unit_start_indicator set before the previous PES packet was complete";
		}
		pes->back().insert(pes->back().end(), q + 4, q + 188);
	}
	return "";
}

// ---------------- encoder (stream source for the demultiplexer properties) ----------------
static inline void put_pts(uint8_t *p, int64_t pts) {
	p[0] = 0x21 | (uint8_t)((pts >> 29) & 0x0E);
	p[1] = (uint8_t)(pts >> 22);
	p[2] = (uint8_t)((pts >> 14) | 1);
	p[3] = (uint8_t)(pts >> 7);
	p[4] = (uint8_t)((pts << 1) | 1);
}
// builds a PES packet with the given lines; size is padded to a multiple of 184 and at least min_size
static inline std::vector<uint8_t> encode_pes(const std::vector<Line> &lines, unsigned data_identifier, int64_t pts, size_t min_size, unsigned ttx_unit_id = 0x02) {
	std::vector<uint8_t> p(46, 0xFF);
	p[0] = 0; p[1] = 0; p[2] = 1; p[3] = 0xBD; p[6] = 0x84; p[7] = 0x80; p[8] = 0x24;
	put_pts(&p[9], pts);
	p[45] = (uint8_t) data_identifier;
	bool fixed = fixed_format(data_identifier);
	for (auto &l : lines) {
		std::vector<uint8_t> u;
		unsigned lo = l.line == 0 ? 0 : (l.line >= 313 ? l.line - 313 : l.line);
		unsigned parity = l.line == 0 ? 1 : (l.line >= 313 ? 0 : 1);
		uint8_t lb = (uint8_t)(0xC0 | (parity << 5) | (lo & 31));
		switch (l.svc) {
		case TTX: u.push_back((uint8_t) ttx_unit_id); u.push_back(0x2C); u.push_back(lb); u.push_back(0xE4); for (int i = 0; i < 42; ++i) u.push_back(enc::rev8(l.data[i])); break;
		case VPS: u.push_back(0xC3); u.push_back(14); u.push_back(lb); for (int i = 0; i < 13; ++i) u.push_back(l.data[i]); break;
		case WSS: u.push_back(0xC4); u.push_back(3); u.push_back(lb); u.push_back(enc::rev8(l.data[0])); u.push_back((uint8_t)(enc::rev8(l.data[1]) | 3)); break;
		default:  u.push_back(0xC5); u.push_back(3); u.push_back(lb); u.push_back(enc::rev8(l.data[0])); u.push_back(enc::rev8(l.data[1])); break;
		}
		if (fixed) { u[1] = 0x2C; u.resize(46, 0xFF); }
		p.insert(p.end(), u.begin(), u.end());
	}
	size_t size = p.size();
	size_t target = size < min_size ? min_size : size;
	target = (target + 183) / 184 * 184;
	// stuffing units
	size_t left = target - size;
	if (fixed) { while (left % 46) { target += 184; left = target - size; } while (left) { p.push_back(0xFF); p.push_back(0x2C); p.insert(p.end(), 44, 0xFF); left -= 46; } }
	else {
		if (left == 1) { target += 184; left = target - size; }
		while (left) {
			size_t chunk = left > 257 ? 257 : left;
			if (left - chunk == 1) chunk -= 1;
			p.push_back(0xFF); p.push_back((uint8_t)(chunk - 2)); p.insert(p.end(), chunk - 2, 0xFF);
			left -= chunk;
		}
	}
	size_t len = p.size() - 6;
	p[4] = (uint8_t)(len >> 8); p[5] = (uint8_t) len;
	return p;
}
static inline void encode_ts(std::vector<uint8_t> &out, const std::vector<uint8_t> &pes, unsigned pid, unsigned *cc) {
	for (size_t at = 0; at < pes.size(); at += 184) {
		out.push_back(0x47);
		out.push_back((uint8_t)((at == 0 ? 0x40 : 0) | (pid >> 8)));
		out.push_back((uint8_t) pid);
		out.push_back((uint8_t)(0x10 | ((*cc)++ & 15)));
		size_t k = pes.size() - at < 184 ? pes.size() - at : 184;
		out.insert(out.end(), pes.begin() + at, pes.begin() + at + k);
		out.insert(out.end(), 184 - k, 0xFF);
	}
}

} // namespace dvb
