// libFuzzer driver: the fuzzer mutates the *choice sequence*, the property's
// run_case carries the oracle.  A violation is saved and trapped.
#include "engine.h"
#include <cstdlib>
#include <unistd.h>
#include <atomic>

__attribute__((weak)) int vf_exhaustive(vf::Report &, bool, int, int, VfExh &e) { e.complete = false; return 0; }
__attribute__((weak)) void vf_defaults(bool thorough, uint64_t *cases, size_t *max_size) {
	*cases = thorough ? 2000000 : 100000; *max_size = 512;
}
__attribute__((weak)) bool vf_leak_check() { return true; }
__attribute__((weak)) void vf_init() {}

static uint64_t g_execs, g_nontrivial, g_discarded, g_excluded;
static std::map<std::string, uint64_t> g_hist;

static void flush_counters() {
	const char *dir = getenv("VF_FUZZ_OUT");
	if (!dir) return;
	char path[1024];
	snprintf(path, sizeof path, "%s/fuzzstats-%d.json", dir, (int) getpid());
	FILE *f = fopen(path, "w");
	if (!f) return;
	fprintf(f, "{\"execs\":%llu,\"nontrivial\":%llu,\"discarded\":%llu,\"excluded_known\":%llu,\"classes\":{",
		(unsigned long long) g_execs, (unsigned long long) g_nontrivial, (unsigned long long) g_discarded,
		(unsigned long long) g_excluded);
	bool first = true;
	for (auto &kv : g_hist) { fprintf(f, "%s\"%s\":%llu", first ? "" : ",", kv.first.c_str(), (unsigned long long) kv.second); first = false; }
	fprintf(f, "}}\n");
	fclose(f);
}

extern "C" int LLVMFuzzerInitialize(int *, char ***) {
	vf_init();
	atexit(flush_counters);
	return 0;
}

extern "C" int LLVMFuzzerTestOneInput(const uint8_t *data, size_t size) {
	vf::Src s(data, size);
	vf::Report r; r.hist = &g_hist;
	int rc = vf_run_case(s, r);
	++g_execs;
	g_excluded += r.excluded_known;
	if (rc == 2) ++g_discarded;
	if (r.nontrivial) ++g_nontrivial;
	if ((g_execs & 0x3fff) == 0) flush_counters();
	if (rc == 1) {
		const char *dir = getenv("VF_FUZZ_OUT");
		if (dir) {
			char path[1024];
			std::string sg = r.sig;
			for (auto &c : sg) if (!isalnum((unsigned char) c) && c != '-' && c != '_') c = '_';
			if (sg.size() > 60) sg.resize(60);
			snprintf(path, sizeof path, "%s/fail-%s-%08x.bin", dir, sg.c_str(), (unsigned)(vf::fnv1a(data, size) & 0xffffffff));
			FILE *f = fopen(path, "wb");
			if (f) { fwrite(data, 1, size, f); fclose(f); }
		}
		fprintf(stderr, "VF-VIOLATION sig=%s\n%s\n", r.sig.c_str(), r.detail.c_str());
		flush_counters();
		__builtin_trap();
	}
	return 0;
}
