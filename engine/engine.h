// Choice-sequence property-based testing engine shared by all properties.
// One run_case() per property; all randomness of a case comes from Src.
#pragma once
#include <cstdint>
#include <cstddef>
#include <cstdarg>
#include <cstdio>
#include <cstring>
#include <cstdlib>
#include <string>
#include <vector>
#include <map>
#include <algorithm>

namespace vf {

struct Src {
	const uint8_t *p;
	size_t n;
	size_t pos;
	Src(const uint8_t *p_, size_t n_) : p(p_), n(n_), pos(0) {}
	bool eof() const { return pos >= n; }
	size_t used() const { return pos < n ? pos : n; }
	uint8_t u8() { uint8_t v = pos < n ? p[pos] : 0; ++pos; return v; }
	uint32_t u16() { uint32_t a = u8(); return a | (uint32_t) u8() << 8; }
	uint32_t u32() { uint32_t a = u16(); return a | u16() << 16; }
	uint64_t u64() { uint64_t a = u32(); return a | (uint64_t) u32() << 32; }
	// inclusive range; zero bytes give lo
	uint32_t range(uint32_t lo, uint32_t hi) {
		if (hi <= lo) return lo;
		uint32_t span = hi - lo;
		uint64_t v;
		if (span < 0x100) v = u8();
		else if (span < 0x10000) v = u16();
		else v = u32();
		return lo + (uint32_t)(v % ((uint64_t) span + 1));
	}
	int irange(int lo, int hi) { return lo + (int) range(0, (uint32_t)(hi - lo)); }
	uint32_t pick(uint32_t k) { return k ? range(0, k - 1) : 0; }
	// true with probability num/den; a zero byte gives false (the simple choice)
	bool chance(unsigned num, unsigned den) {
		unsigned b = u8();
		return b * den >= (den - num) * 256u && num > 0;
	}
	void bytes(uint8_t *out, size_t k) { for (size_t i = 0; i < k; ++i) out[i] = u8(); }
};

struct Report {
	bool verbose = false;
	bool trace = false;		// print say() output at once (replay of aborting cases)
	std::string desc;		// human readable case, filled when verbose
	std::string sig;		// violation signature
	std::string detail;		// violation detail
	bool nontrivial = false;
	uint64_t case_hash = 0;		// optional: hash of the decoded case (0 = use choice prefix)
	uint64_t excluded_known = 0;
	std::map<std::string, uint64_t> *hist = nullptr;

	void cls(const char *name, uint64_t k = 1) { if (hist) (*hist)[name] += k; }
	void cls(const std::string &name, uint64_t k = 1) { if (hist) (*hist)[name] += k; }
	void say(const char *fmt, ...) __attribute__((format(printf, 2, 3))) {
		if (!verbose) return;
		char buf[2048];
		va_list ap; va_start(ap, fmt); vsnprintf(buf, sizeof buf, fmt, ap); va_end(ap);
		if (desc.size() < 60000) desc += buf;
		if (trace) { fputs(buf, stdout); fflush(stdout); }
	}
	int fail(const char *sig_, const char *fmt, ...) __attribute__((format(printf, 3, 4))) {
		char buf[4096];
		va_list ap; va_start(ap, fmt); vsnprintf(buf, sizeof buf, fmt, ap); va_end(ap);
		if (sig.empty()) { sig = sig_; detail = buf; }
		return 1;
	}
};

static inline uint64_t splitmix64(uint64_t &x) {
	uint64_t z = (x += 0x9E3779B97F4A7C15ull);
	z = (z ^ (z >> 30)) * 0xBF58476D1CE4E5B9ull;
	z = (z ^ (z >> 27)) * 0x94D049BB133111EBull;
	return z ^ (z >> 31);
}
static inline uint64_t fnv1a(const void *d, size_t n, uint64_t h = 0xcbf29ce484222325ull) {
	const uint8_t *p = (const uint8_t *) d;
	for (size_t i = 0; i < n; ++i) { h ^= p[i]; h *= 0x100000001b3ull; }
	return h;
}
static inline std::string hex(const uint8_t *p, size_t n) {
	static const char *d = "0123456789abcdef";
	std::string s;
	for (size_t i = 0; i < n; ++i) { s += d[p[i] >> 4]; s += d[p[i] & 15]; }
	return s;
}

// Known findings are excluded by construction in the generators (and counted); the orchestrator
// switches the exclusion off (VF_NO_EXCLUDE=1) only while replaying the witness of a known finding.
static inline bool exclusions_on() {
	static int v = -1;
	if (v < 0) v = getenv("VF_NO_EXCLUDE") ? 0 : 1;
	return v != 0;
}

} // namespace vf

// ---- what each property translation unit defines ----
extern const char *vf_prop_id;			// "C12"
extern const char *vf_rule;			// generation + non-triviality rule (evidence text)
int vf_run_case(vf::Src &s, vf::Report &r);	// 0 ok, 1 violation (r.sig set), 2 discarded
// optional (weak defaults in the drivers):
// exhaustive sub-check, partitioned over workers; returns 0 ok / 1 violation
struct VfExh { uint64_t evaluations = 0; uint64_t nontrivial = 0; bool complete = false; std::string what;
	std::vector<uint8_t> fail_case;	// choice sequence reproducing an enumerated failure through vf_run_case (optional)
};
int vf_exhaustive(vf::Report &r, bool thorough, int worker, int nworkers, VfExh &e);
void vf_defaults(bool thorough, uint64_t *cases, size_t *max_size);	// total cases over all workers
bool vf_leak_check();				// default true
void vf_init();					// one-time set-up before the first case
