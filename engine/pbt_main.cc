// PBT / replay driver: generates choice sequences from a seeded PRNG, runs the
// property's run_case, shrinks failures, writes per-worker statistics.
#include "engine.h"
#include <cstdlib>
#include <cinttypes>
#include <csignal>
#include <ctime>
#include <unistd.h>
#include <fcntl.h>
#include <sys/time.h>
#include <sys/stat.h>
#include <algorithm>
#include <unordered_set>
#include <set>

extern "C" size_t __sanitizer_get_current_allocated_bytes(void) __attribute__((weak));

__attribute__((weak)) int vf_exhaustive(vf::Report &, bool, int, int, VfExh &e) { e.complete = false; return 0; }
__attribute__((weak)) void vf_defaults(bool thorough, uint64_t *cases, size_t *max_size) {
	*cases = thorough ? 2000000 : 100000; *max_size = 512;
}
__attribute__((weak)) bool vf_leak_check() { return true; }
__attribute__((weak)) void vf_init() {}

using namespace vf;

struct Xo {	// xoshiro256**
	uint64_t s[4];
	explicit Xo(uint64_t seed) { for (auto &x : s) x = splitmix64(seed); }
	static uint64_t rotl(uint64_t x, int k) { return (x << k) | (x >> (64 - k)); }
	uint64_t next() {
		uint64_t r = rotl(s[1] * 5, 7) * 9, t = s[1] << 17;
		s[2] ^= s[0]; s[3] ^= s[1]; s[1] ^= s[2]; s[0] ^= s[3]; s[2] ^= t; s[3] = rotl(s[3], 45);
		return r;
	}
	uint32_t below(uint32_t n) { return n ? (uint32_t)(next() % n) : 0; }
};

static std::string jesc(const std::string &s) {
	std::string o;
	for (unsigned char c : s) {
		if (c == '"' || c == '\\') { o += '\\'; o += c; }
		else if (c == '\n') o += "\\n";
		else if (c == '\t') o += "\\t";
		else if (c < 0x20 || c >= 0x7f) { char b[8]; snprintf(b, sizeof b, "\\u%04x", c); o += b; }
		else o += c;
	}
	return o;
}

static void gen_case(std::vector<uint8_t> &v, uint64_t seed, uint64_t idx, uint64_t total, size_t max_size) {
	uint64_t k = seed * 0x9E3779B97F4A7C15ull + idx * 0xD1B54A32D192ED03ull + 0x1234567;
	Xo r(k);
	// many small cases first: the cap ramps over the first 70 % of the campaign
	double f = total ? (double)(idx + 1) / (0.7 * (double) total) : 1.0;
	if (f > 1) f = 1;
	size_t cap = 4 + (size_t)((double) max_size * f);
	if (cap > max_size) cap = max_size;
	size_t n = r.below((uint32_t) cap + 1);
	if (r.below(4) == 0) n = cap;	// a quarter of the cases use the full cap
	v.resize(n);
	unsigned style = r.below(8);
	for (size_t i = 0; i < n; ++i) {
		uint8_t b;
		uint32_t c = r.below(100);
		switch (style) {
		case 0: case 1: b = (uint8_t) r.next(); break;
		case 2: case 3: case 4:
			if (c < 30) b = 0; else if (c < 38) b = 0xFF; else if (c < 60) b = (uint8_t) r.below(16);
			else b = (uint8_t) r.next();
			break;
		case 5:
			b = (c < 85) ? 0 : (uint8_t) r.next();
			break;
		default:	// repetition: copy a block from earlier
			if (i >= 8 && c < 12) {
				size_t len = 1 + r.below(24), from = r.below((uint32_t) i);
				for (size_t j = 0; j < len && i < n; ++j, ++i) v[i] = v[from + (j % (i - from))];
				--i; continue;
			}
			b = (c < 50) ? (uint8_t) r.below(32) : (uint8_t) r.next();
		}
		v[i] = b;
	}
}

static std::string g_outdir = ".";
static int g_worker = 0;
static int g_curfd = -1;
static volatile sig_atomic_t g_in_case = 0;

static void save_cur(const std::vector<uint8_t> &v) {
	if (g_curfd < 0) return;
	uint32_t n = (uint32_t) v.size();
	// layout: 4-byte length + bytes (rewritten in place; no truncate needed for readers that honour the length)
	if (pwrite(g_curfd, &n, 4, 0) != 4) return;
	if (n && pwrite(g_curfd, v.data(), n, 4) != (ssize_t) n) return;
}

static void on_alarm(int) {
	const char m[] = "VF-WATCHDOG\n";
	if (write(2, m, sizeof m - 1)) {}
	_exit(124);
}

static int g_watchdog = 20;

static int run_once(const std::vector<uint8_t> &v, Report &r) {
	Src s(v.data(), v.size());
	g_in_case = 1;
	alarm(g_watchdog);
	int rc = vf_run_case(s, r);
	alarm(0);
	g_in_case = 0;
	if (rc == 1 && r.sig.empty()) r.sig = "unspecified";
	if (!r.case_hash) r.case_hash = fnv1a(v.data(), std::min(v.size(), s.pos));
	return rc;
}

// in-process shrink; candidate accepted only when it fails with the same signature
static void shrink(std::vector<uint8_t> &v, const std::string &sig, unsigned budget) {
	// the shrinker also has a wall clock bound (expensive cases); it only limits how small the replay file gets
	struct timespec s0; clock_gettime(CLOCK_MONOTONIC, &s0);
	double lim = getenv("VF_SHRINK_SECONDS") ? atof(getenv("VF_SHRINK_SECONDS")) : 120.0;
	auto fails = [&](const std::vector<uint8_t> &c) {
		if (!budget) return false;
		struct timespec s1; clock_gettime(CLOCK_MONOTONIC, &s1);
		if ((s1.tv_sec - s0.tv_sec) + (s1.tv_nsec - s0.tv_nsec) * 1e-9 > lim) { budget = 0; return false; }
		--budget;
		save_cur(c);
		Report r; int rc = run_once(c, r);
		return rc == 1 && r.sig == sig;
	};
	bool progress = true;
	while (progress && budget) {
		progress = false;
		// truncate the tail
		for (size_t cut = v.size() / 2; cut >= 1 && budget; cut /= 2) {
			while (v.size() >= cut && budget) {
				std::vector<uint8_t> c(v.begin(), v.end() - cut);
				if (fails(c)) { v.swap(c); progress = true; } else break;
			}
		}
		// delete blocks
		for (size_t bl : {64u, 32u, 16u, 8u, 4u, 2u, 1u}) {
			for (size_t at = 0; at + bl <= v.size() && budget;) {
				std::vector<uint8_t> c(v);
				c.erase(c.begin() + at, c.begin() + at + bl);
				if (fails(c)) { v.swap(c); progress = true; } else at += bl;
			}
		}
		// zero blocks
		for (size_t bl : {16u, 4u, 1u}) {
			for (size_t at = 0; at + bl <= v.size() && budget; at += bl) {
				bool allz = true;
				for (size_t j = 0; j < bl; ++j) if (v[at + j]) allz = false;
				if (allz) continue;
				std::vector<uint8_t> c(v);
				for (size_t j = 0; j < bl; ++j) c[at + j] = 0;
				if (fails(c)) { v.swap(c); progress = true; }
			}
		}
		// minimise single bytes
		for (size_t at = 0; at < v.size() && budget; ++at) {
			if (!v[at]) continue;
			for (uint8_t t : {(uint8_t) 1, (uint8_t)(v[at] / 2), (uint8_t)(v[at] - 1)}) {
				if (t >= v[at]) continue;
				std::vector<uint8_t> c(v); c[at] = t;
				if (fails(c)) { v.swap(c); progress = true; break; }
			}
		}
	}
}

static bool read_file(const char *path, std::vector<uint8_t> &v) {
	FILE *f = fopen(path, "rb");
	if (!f) return false;
	v.clear();
	uint8_t buf[4096]; size_t k;
	while ((k = fread(buf, 1, sizeof buf, f)) > 0) v.insert(v.end(), buf, buf + k);
	fclose(f);
	return true;
}
static bool write_file(const std::string &path, const void *d, size_t n) {
	FILE *f = fopen(path.c_str(), "wb");
	if (!f) return false;
	bool ok = fwrite(d, 1, n, f) == n;
	fclose(f);
	return ok;
}

static int merge_hashes(int argc, char **argv, int first) {
	std::vector<uint64_t> all;
	for (int i = first; i < argc; ++i) {
		std::vector<uint8_t> v;
		if (!read_file(argv[i], v)) continue;
		size_t k = v.size() / 8;
		if (0 == k) continue;	// a worker without non-trivial cases writes an empty file
		size_t o = all.size();
		all.resize(o + k);
		memcpy(all.data() + o, v.data(), k * 8);
	}
	std::sort(all.begin(), all.end());
	all.erase(std::unique(all.begin(), all.end()), all.end());
	printf("%zu\n", all.size());
	return 0;
}

int main(int argc, char **argv) {
	uint64_t seed = 1, cases = 0, total_cases = 0;
	size_t max_size = 0;
	int nworkers = 1;
	double max_seconds = 1e9;
	bool thorough = false, no_exh = false, verbose = false, no_shrink = false;
	const char *replay = nullptr;
	for (int i = 1; i < argc; ++i) {
		std::string a = argv[i];
		auto nx = [&]() { return i + 1 < argc ? argv[++i] : (char *) "0"; };
		if (a == "--seed") seed = strtoull(nx(), 0, 0);
		else if (a == "--worker") g_worker = atoi(nx());
		else if (a == "--nworkers") nworkers = atoi(nx());
		else if (a == "--cases") total_cases = strtoull(nx(), 0, 0);
		else if (a == "--max-size") max_size = strtoull(nx(), 0, 0);
		else if (a == "--max-seconds") max_seconds = atof(nx());
		else if (a == "--out") g_outdir = nx();
		else if (a == "--thorough") thorough = true;
		else if (a == "--no-exhaustive") no_exh = true;
		else if (a == "--no-shrink") no_shrink = true;
		else if (a == "--watchdog") g_watchdog = atoi(nx());
		else if (a == "--replay") replay = nx();
		else if (a == "-v") verbose = true;
		else if (a == "--merge-hashes") return merge_hashes(argc, argv, i + 1);
		else if (a == "--id") { puts(vf_prop_id); return 0; }
		else { fprintf(stderr, "unknown argument %s\n", a.c_str()); return 2; }
	}
	signal(SIGALRM, on_alarm);
	setvbuf(stdout, nullptr, _IOLBF, 0);
	vf_init();

	if (replay) {
		std::vector<uint8_t> v;
		if (!read_file(replay, v)) { fprintf(stderr, "cannot read %s\n", replay); return 2; }
		Report r; r.verbose = true; r.trace = getenv("VF_TRACE") != nullptr;
		std::map<std::string, uint64_t> hist; r.hist = &hist;
		if (v.size() >= 5 && !memcmp(v.data(), "VFEXH", 5)) {
			// marker written before the exhaustive sub-check: "VFEXH <worker> <nworkers> <thorough>"
			int w = 0, nw = 1, th = 0;
			std::string m((const char *) v.data(), v.size());
			sscanf(m.c_str(), "VFEXH %d %d %d", &w, &nw, &th);
			VfExh e;
			int rc = vf_exhaustive(r, th != 0, w, nw < 1 ? 1 : nw, e);
			printf("property %s exhaustive sub-check replay (worker %d/%d): %llu evaluations\n", vf_prop_id, w, nw, (unsigned long long) e.evaluations);
			if (rc == 1) { printf("RESULT violation sig=%s\n%s\n%s\n", r.sig.c_str(), r.detail.c_str(), r.desc.c_str()); return 1; }
			printf("RESULT ok\n");
			return 0;
		}
		size_t l0 = (vf_leak_check() && __sanitizer_get_current_allocated_bytes) ? __sanitizer_get_current_allocated_bytes() : 0;
		int rc = run_once(v, r);
		if (rc == 0 && vf_leak_check() && __sanitizer_get_current_allocated_bytes) {
			// same rule as in the generation loop: one-time initialisations grow once, a leak grows on every execution
			size_t l1 = __sanitizer_get_current_allocated_bytes();
			if (l1 > l0) {
				Report q1; run_once(v, q1); size_t l2 = __sanitizer_get_current_allocated_bytes();
				Report q2; run_once(v, q2); size_t l3 = __sanitizer_get_current_allocated_bytes();
				if (l3 > l2 && l2 > l1) { rc = 1; r.sig = "leak"; char b[200]; snprintf(b, sizeof b, "allocated bytes grow by %zu on every execution of this case after all objects were deleted", l3 - l2); r.detail = b; }
			}
		}
		printf("property %s replay %s (%zu choice bytes)\n", vf_prop_id, replay, v.size());
		if (verbose || rc == 1) printf("case:\n%s\n", r.desc.c_str());
		printf("nontrivial=%d excluded_known=%" PRIu64 "\n", (int) r.nontrivial, r.excluded_known);
		if (rc == 1) { printf("RESULT violation sig=%s\n%s\n", r.sig.c_str(), r.detail.c_str()); return 1; }
		printf(rc == 2 ? "RESULT discarded\n" : "RESULT ok\n");
		return 0;
	}

	{
		uint64_t dc; size_t dm;
		vf_defaults(thorough, &dc, &dm);
		if (!total_cases) total_cases = dc;
		if (!max_size) max_size = dm;
	}
	cases = total_cases / nworkers + ((uint64_t) g_worker < total_cases % nworkers ? 1 : 0);

	char path[1024];
	snprintf(path, sizeof path, "%s/cur-%d.bin", g_outdir.c_str(), g_worker);
	g_curfd = open(path, O_CREAT | O_RDWR | O_TRUNC, 0644);

	std::map<std::string, uint64_t> hist;
	std::unordered_set<uint64_t> nt_hashes;
	std::vector<std::string> samples;
	uint64_t evaluations = 0, discarded = 0, nontrivial = 0, excluded = 0, leak_rechecks = 0;
	std::string fail_sig, fail_detail, fail_path, fail_desc;
	VfExh exh;
	struct timespec t0; clock_gettime(CLOCK_MONOTONIC, &t0);
	auto elapsed = [&]() { struct timespec t; clock_gettime(CLOCK_MONOTONIC, &t); return (t.tv_sec - t0.tv_sec) + (t.tv_nsec - t0.tv_nsec) * 1e-9; };
	bool time_up = false;
	bool leakchk = vf_leak_check() && __sanitizer_get_current_allocated_bytes;

	auto record_failure = [&](std::vector<uint8_t> &v, Report &r) {
		fail_sig = r.sig; fail_detail = r.detail;
		if (!no_shrink) shrink(v, fail_sig, 3000);
		Report r2; r2.verbose = true; run_once(v, r2);
		if (r2.sig == fail_sig) { fail_detail = r2.detail; }
		fail_desc = r2.desc;
		uint64_t h = fnv1a(v.data(), v.size());
		char name[1200];
		std::string s = fail_sig;
		for (auto &c : s) if (!isalnum((unsigned char) c) && c != '-' && c != '_') c = '_';
		if (s.size() > 60) s.resize(60);
		snprintf(name, sizeof name, "%s/fail-%s-%08x.bin", g_outdir.c_str(), s.c_str(), (unsigned)(h & 0xffffffff));
		write_file(name, v.data(), v.size());
		fail_path = name;
	};

	// exhaustive sub-check first
	if (!no_exh) {
		Report r; r.hist = &hist;
		char mk[64]; snprintf(mk, sizeof mk, "VFEXH %d %d %d", g_worker, nworkers, (int) thorough);
		std::vector<uint8_t> marker(mk, mk + strlen(mk)); save_cur(marker);
		alarm(0);
		int rc = vf_exhaustive(r, thorough, g_worker, nworkers, exh);
		if (rc == 1) {
			fail_sig = r.sig.empty() ? "exhaustive" : r.sig; fail_detail = r.detail; fail_desc = r.desc;
			char name[1200]; snprintf(name, sizeof name, "%s/fail-exh-%d.bin", g_outdir.c_str(), g_worker);
			if (!exh.fail_case.empty()) write_file(name, exh.fail_case.data(), exh.fail_case.size());
			else write_file(name, marker.data(), marker.size());
			fail_path = name;
		}
	}

	std::vector<uint8_t> v;
	uint64_t next_sample_at = 0;
	for (uint64_t k = 0; k < cases && fail_sig.empty(); ++k) {
		uint64_t idx = k * nworkers + g_worker;
		if (elapsed() > max_seconds) { time_up = true; break; }
		gen_case(v, seed, idx, total_cases, max_size);
		save_cur(v);
		Report r; r.hist = &hist;
		size_t a0 = leakchk ? __sanitizer_get_current_allocated_bytes() : 0;
		int rc = run_once(v, r);
		++evaluations;
		excluded += r.excluded_known;
		if (rc == 2) { ++discarded; continue; }
		if (rc == 0 && leakchk) {
			size_t a1 = __sanitizer_get_current_allocated_bytes();
			if (a1 > a0) {
				// one-time initialisations grow once; a leak grows again on re-execution
				++leak_rechecks;
				Report q1; run_once(v, q1);
				size_t a2 = __sanitizer_get_current_allocated_bytes();
				Report q2; run_once(v, q2);
				size_t a3 = __sanitizer_get_current_allocated_bytes();
				if (a3 > a2 && a2 > a1) {
					rc = 1;
					r.sig = "leak"; char b[200];
					snprintf(b, sizeof b, "allocated bytes grow by %zu on every execution of this case after all objects were deleted", a3 - a2);
					r.detail = b;
				}
			}
		}
		if (rc == 1) { record_failure(v, r); break; }
		if (r.nontrivial) {
			++nontrivial;
			nt_hashes.insert(r.case_hash);
			if (samples.size() < 4 && k >= next_sample_at) {
				next_sample_at = k + cases / 4 + 1;
				Report r2; r2.verbose = true; run_once(v, r2);
				std::string d = r2.desc;
				if (d.size() > 1500) { d.resize(1500); d += " ..."; }
				samples.push_back(d);
			}
		}
	}

	// hashes
	{
		std::vector<uint64_t> hv(nt_hashes.begin(), nt_hashes.end());
		snprintf(path, sizeof path, "%s/hashes-%d.bin", g_outdir.c_str(), g_worker);
		write_file(path, hv.data(), hv.size() * 8);
	}
	// stats
	std::string js = "{";
	char b[512];
	snprintf(b, sizeof b, "\"property\":\"%s\",\"worker\":%d,\"seed\":%" PRIu64 ",\"evaluations\":%" PRIu64
		",\"discarded\":%" PRIu64 ",\"nontrivial\":%" PRIu64 ",\"distinct_nontrivial\":%zu,\"excluded_known\":%" PRIu64
		",\"leak_rechecks\":%" PRIu64 ",\"time_up\":%s,\"wall_s\":%.2f,\"max_size\":%zu,\"cases_planned\":%" PRIu64 ",",
		vf_prop_id, g_worker, seed, evaluations, discarded, nontrivial, nt_hashes.size(), excluded, leak_rechecks,
		time_up ? "true" : "false", elapsed(), max_size, cases);
	js += b;
	snprintf(b, sizeof b, "\"exh_evaluations\":%" PRIu64 ",\"exh_nontrivial\":%" PRIu64 ",\"exh_complete\":%s,\"exh_what\":\"",
		exh.evaluations, exh.nontrivial, exh.complete ? "true" : "false");
	js += b; js += jesc(exh.what); js += "\",";
	js += "\"classes\":{";
	bool first = true;
	for (auto &kv : hist) { if (!first) js += ","; first = false; js += "\"" + jesc(kv.first) + "\":" + std::to_string(kv.second); }
	js += "},\"samples\":[";
	first = true;
	for (auto &s : samples) { if (!first) js += ","; first = false; js += "\"" + jesc(s) + "\""; }
	js += "],";
	js += "\"fail_sig\":\"" + jesc(fail_sig) + "\",\"fail_detail\":\"" + jesc(fail_detail) + "\",\"fail_path\":\"" + jesc(fail_path)
		+ "\",\"fail_desc\":\"" + jesc(fail_desc.substr(0, 4000)) + "\"}";
	snprintf(path, sizeof path, "%s/stats-%d.json", g_outdir.c_str(), g_worker);
	write_file(path, js.data(), js.size());
	return fail_sig.empty() ? 0 : 3;
}
